import warnings; warnings.filterwarnings("ignore")
import logging; logging.disable(logging.CRITICAL)
import numpy as np, json
from syne_tune.config_space import *
from syne_tune.config_space import config_space_to_json_dict, config_space_from_json_dict
from syne_tune.optimizer.schedulers.searchers.utils import make_hyperparameter_ranges

print("== 4. JSON round trip")
for name, dom in [("revlog", reverseloguniform(0.9, 0.99)), ("quniform", quniform(0.0, 1.0, 0.1)), ("qrandint", qrandint(1, 10, 2))]:
    cs = {"x": dom}
    try:
        d = config_space_to_json_dict(cs)
        from syne_tune.util import dump_json_with_numpy
        s = dump_json_with_numpy(d)
        cs2 = config_space_from_json_dict(json.loads(s))
        from syne_tune.config_space import is_reverse_log_space, is_log_space
        print(name, "eq:", cs2["x"] == dom, "| revlog before/after:", is_reverse_log_space(dom), is_reverse_log_space(cs2["x"]), "| log before/after", is_log_space(dom), is_log_space(cs2["x"]), type(cs2["x"].get_sampler()).__name__)
        hr1 = make_hyperparameter_ranges(cs); hr2 = make_hyperparameter_ranges(cs2)
        c = {"x": 0.95} if name=="revlog" else None
        if c: print("   enc:", hr1.to_ndarray(c), hr2.to_ndarray(c))
    except Exception as e:
        print(name, "EXC", type(e).__name__, str(e)[:150])

print("== 5. ordinal single nn")
for dom in [ordinal([3], kind="nn"), logordinal([5.0]), ordinal([3], kind="equal"), choice(["a"]), randint(2,2), finrange(1.0,1.0,1)]:
    try:
        hr = make_hyperparameter_ranges({"x": dom})
        c = hr.random_config(np.random.RandomState(0))
        print(repr(dom), "ok", c, hr.to_ndarray(c))
    except Exception as e:
        print(repr(dom), "EXC", type(e).__name__, str(e)[:100])

print("== 7. json default hook")
from syne_tune.util import dump_json_with_numpy
print(dump_json_with_numpy({"a": {1,2}, "b": np.array([1,2]), "c": np.float32(1.5), "d": object()}))
