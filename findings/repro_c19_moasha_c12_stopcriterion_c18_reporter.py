import warnings; warnings.filterwarnings("ignore")
import logging; logging.disable(logging.CRITICAL)
import numpy as np
from syne_tune.optimizer.schedulers.multiobjective.moasha import _Bracket
from syne_tune.optimizer.schedulers.multiobjective.multiobjective_priority import NonDominatedPriority, FixedObjectivePriority
print("== 6. MOASHA bracket with NonDominatedPriority vs FixedObjective on 1-d data (same ranking expected)")
vals = [1,2,3,4,0]
for prio in (NonDominatedPriority(), FixedObjectivePriority()):
    b = _Bracket(1, 10, 2, 0, prio)
    print(type(prio).__name__, [b.on_result(i, 1, {"m": v}) for i, v in enumerate(vals)])
print(NonDominatedPriority()(np.array([[1.],[2.],[3.],[4.],[0.]])))

print("== 8. simulator stop criterion rewrite")
from syne_tune import StoppingCriterion
from syne_tune.backend.simulator_backend.simulator_callback import SimulatorCallback
class T: pass
t = T(); t.stop_criterion = StoppingCriterion(max_wallclock_time=100, min_metric_value={"loss": 0.1}, max_metric_value={"acc": 0.9})
cb = SimulatorCallback(); cb._modify_stop_criterion(t)
print(t.stop_criterion)

print("== 9. Reporter(add_time=False)")
from syne_tune import Reporter
try:
    Reporter(add_time=False)(x=1)
except Exception as e: print("EXC", type(e).__name__, e)
