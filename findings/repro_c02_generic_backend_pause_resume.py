import warnings; warnings.filterwarnings("ignore")
import logging; logging.disable(logging.CRITICAL)
from datetime import datetime
from syne_tune.backend.trial_backend import TrialBackend
from syne_tune.backend.trial_status import TrialResult, Status
from syne_tune.constants import ST_WORKER_TIMESTAMP

class B(TrialBackend):
    def __init__(s):
        super().__init__(); s.script = {}; s.st = {}
    def _schedule(s, trial_id, config): s.st[trial_id] = Status.in_progress
    def _pause_trial(s, trial_id, result): s.st[trial_id] = Status.paused
    def _resume_trial(s, trial_id): pass
    def _all_trial_results(s, trial_ids):
        return [s._trial_dict[t].add_results(metrics=list(s.script[t]), status=s.st[t], training_end_time=None) if not isinstance(s._trial_dict[t], TrialResult) else TrialResult(trial_id=t, config={}, creation_time=datetime.now(), metrics=list(s.script[t]), status=s.st[t]) for t in trial_ids]
b = B()
t = b.start_trial({})
r = lambda i: {"i": i, ST_WORKER_TIMESTAMP: float(i)}
b.script[0] = [r(1), r(2)]
print("poll1", [x[1]["i"] for x in b.fetch_status_results([0])[1]])
# scheduler decides PAUSE on r2; before kill, worker emits r3
b.script[0].append(r(3))
b.pause_trial(0, result=r(2))
print("poll2 (paused)", [x[1]["i"] for x in b.fetch_status_results([0])[1]])
b.resume_trial(0); b.st[0] = Status.in_progress
b.script[0].append(r(4))  # first report of new run
print("poll3 (resumed)", [x[1]["i"] for x in b.fetch_status_results([0])[1]], " <- 3 was reported after the pause decision")
