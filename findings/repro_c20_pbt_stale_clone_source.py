import warnings; warnings.filterwarnings("ignore")
import logging; logging.disable(logging.CRITICAL)
import datetime
from syne_tune.config_space import uniform
from syne_tune.optimizer.schedulers import PopulationBasedTraining
from syne_tune.backend.trial_status import Trial
cs = {"lr": uniform(0,1)}
s = PopulationBasedTraining(cs, metric="acc", mode="max", resource_attr="t", max_t=4, population_size=2, perturbation_interval=1, quantile_fraction=0.5, random_seed=0)
T = {}
for i in range(2):
    sg = s.suggest(i); T[i] = Trial(i, sg.config, datetime.datetime.now()); s.on_trial_add(T[i])
# both report at t=1,2,3 ; trial 1 better
log = []
for t in (1,2,3):
    log.append((1, t, s.on_trial_result(T[1], {"t": t, "acc": 0.9})))
    d0 = s.on_trial_result(T[0], {"t": t, "acc": 0.1}); log.append((0, t, d0))
    if d0 == "STOP": break
print(log)
print("stack:", list(s._trial_decisions_stack))
# same batch: trial 1 now reaches max_t -> STOP (checkpoint deleted by backend.stop_trial when delete_checkpoints)
print("trial1 at max_t:", s.on_trial_result(T[1], {"t": 4, "acc": 0.95}))
sg = s.suggest(2)
print("next suggestion: spawn_new=", sg.spawn_new_trial_id, "checkpoint_trial_id=", sg.checkpoint_trial_id, "| trial 1 stopped:", s._trial_state[1].stopped)
