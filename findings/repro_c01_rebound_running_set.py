"""F10: Tuner._schedule_new_tasks rebinds its in/out parameter (start_jobs_without_delay=False)."""
import warnings; warnings.filterwarnings("ignore")
import logging; logging.disable(logging.CRITICAL)
from datetime import datetime
from pathlib import Path
from syne_tune import Tuner, StoppingCriterion
from syne_tune.backend.trial_backend import TrialBackend
from syne_tune.backend.trial_status import Status, TrialResult
from syne_tune.optimizer.schedulers import FIFOScheduler
from syne_tune.config_space import uniform
from syne_tune.tuning_status import TuningStatus

class B(TrialBackend):
    def __init__(s): super().__init__(); s.busy = []
    def _schedule(s, trial_id, config): s.busy.append((trial_id, Status.in_progress))
    def busy_trial_ids(s): return list(s.busy)
    def entrypoint_path(s): return Path("train.py")
    def set_path(s, results_root=None, tuner_name=None): pass
b = B()
sch = FIFOScheduler({"x": uniform(0, 1)}, searcher="random", metric="m", random_seed=0)
t = Tuner(trial_backend=b, scheduler=sch, stop_criterion=StoppingCriterion(max_num_trials_started=10), n_workers=2,
          start_jobs_without_delay=False, save_tuner=False, sleep_time=0)
t.tuning_status = TuningStatus(metric_names=["m"])
running = set()
t._schedule_new_tasks(running_trials_ids=running)          # starts trials 0, 1
print("running after 1st step:", running)
b.busy = [x for x in b.busy if x[0] != 0]                 # worker of trial 0 finished between poll and scheduling
t._schedule_new_tasks(running_trials_ids=running)          # backend is more recent: rebinding branch, starts trial 2
print("backend trial ids:", b.trial_ids, " caller's running set:", running)
assert 2 in running, "trial 2 was started but is not in the running set the tuning loop polls"
