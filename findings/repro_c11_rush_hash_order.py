cands = [{"lr": 0.1, "bs": 32}, {"lr": 0.01, "bs": 64}, {"lr": 0.001, "bs": 16}, {"lr": 0.5, "bs": 8}]
print([dict(s) for s in set(frozenset(p.items()) for p in cands)])
