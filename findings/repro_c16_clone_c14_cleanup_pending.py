import warnings; warnings.filterwarnings("ignore")
import logging; logging.disable(logging.CRITICAL)
import numpy as np
from syne_tune.config_space import *
from syne_tune.optimizer.schedulers.searchers import RandomSearcher, GridSearcher

cs = {"a": choice(["x","y","z","w"]), "b": randint(0, 5)}
print("== 2. GridSearcher clone, random_seed=7")
g = GridSearcher(cs, metric="m", points_to_evaluate=[], random_seed=7)
seen = [g.get_config() for _ in range(5)]
st = g.get_state()
import copy; st = copy.deepcopy(st)
g2 = g.clone_from_state(st)
orig = [g.get_config() for _ in range(8)]
clone = [g2.get_config() for _ in range(8)]
print("same continuation:", orig == clone)
print("clone repeats earlier:", [c for c in clone if c in seen])
print("== 2b. default seed")
g = GridSearcher(cs, metric="m", points_to_evaluate=[])
seen = [g.get_config() for _ in range(5)]
g2 = g.clone_from_state(copy.deepcopy(g.get_state()))
print("same continuation:", [g.get_config() for _ in range(8)] == [g2.get_config() for _ in range(8)])

print("== 3. RandomSearcher clone with restrict_configurations")
rc = [{"a": a, "b": b} for a in "xyzw" for b in range(6)]
r = RandomSearcher(cs, metric="m", points_to_evaluate=[], random_seed=3, restrict_configurations=rc, debug_log=True)
[r.get_config(trial_id=str(i)) for i in range(3)]
r2 = r.clone_from_state(copy.deepcopy(r.get_state()))
try:
    print(r.get_config(trial_id="9"), r2.get_config(trial_id="9"))
except Exception as e:
    print("EXC", type(e).__name__, e)

print("== 1. cleanup_pending polarity")
from syne_tune.optimizer.schedulers.searchers.gp_multifidelity_searcher import GPMultiFidelitySearcher
from syne_tune.optimizer.schedulers import HyperbandScheduler
cs2 = {"lr": uniform(0,1), "epochs": 9}
s = HyperbandScheduler(cs2, searcher="bayesopt", metric="loss", resource_attr="epoch", max_resource_attr="epochs", type="stopping", random_seed=0)
from syne_tune.backend.trial_status import Trial
import datetime
trials = []
for i in range(3):
    sug = s.suggest(i)
    t = Trial(i, sug.config, datetime.datetime.now()); trials.append(t)
    s.on_trial_add(t)
print("pending before:", [(p.trial_id, p.resource) for p in s.searcher.state_transformer.state.pending_evaluations])
s.on_trial_error(trials[1])
print("pending after error of trial 1:", [(p.trial_id, p.resource) for p in s.searcher.state_transformer.state.pending_evaluations])
print("failed:", s.searcher.state_transformer.state.failed_trials)
