import warnings; warnings.filterwarnings("ignore")
import logging; logging.disable(logging.CRITICAL)
import numpy as np, sys
from syne_tune.optimizer.schedulers.hyperband_pasha import PASHARungSystem
out = []
for scen in range(30):
    rs = PASHARungSystem(rung_levels=[1,3,9], promote_quantiles=[1/3,1/3,1/3], metric="m", mode="min", resource_attr="epoch", max_t=27)
    rng = np.random.RandomState(scen)
    ntr = 10
    maxep = rng.randint(3, 10, size=ntr)
    order = []
    for ep in range(1, 10):
        ids = [t for t in range(ntr) if maxep[t] >= ep]
        rng.shuffle(ids)
        for tid in ids:
            rs._update_per_epoch_results(str(tid*7+100), {"epoch": ep, "m": float(rng.rand())})
    rs.current_rung_idx = 2   # top rung level 3 vs previous 1 -> epochs 3..2
    rs._update_epsilon(); e1 = float(rs.epsilon)
    rs.current_rung_idx = 3   # levels 9 vs 3 -> epochs 9..4
    rs._update_epsilon(); e2 = float(rs.epsilon)
    out.append((round(e1,10), round(e2,10)))
print(out)
