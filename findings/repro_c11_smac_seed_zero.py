"""C11: SMACScheduler(random_seed=0) passes seed=-1 to SMAC (SMAC3: "seed=-1: the seed is chosen randomly").

smac is an optional dependency that is not installed in this sandbox, so the two packages SMACScheduler imports are
replaced by recording stubs: what is shown is the value syne-tune's own code hands to SMAC.
Exit 0 = seed handed over unchanged (repaired tree), exit 1 = 0 was turned into -1.
"""
import sys
import types

seen = {}


class _Any:
    def __init__(self, *a, **k):
        pass

    def __getattr__(self, name):
        return _Any()

    def __call__(self, *a, **k):
        return _Any()


class Scenario(_Any):
    def __init__(self, *a, **k):
        seen["seed"] = k.get("seed")


class Facade(_Any):
    @staticmethod
    def get_intensifier(*a, **k):
        return _Any()

    def __init__(self, *a, **k):
        pass


smac = types.ModuleType("smac")
smac.Scenario = Scenario
smac.HyperparameterOptimizationFacade = Facade
rh = types.ModuleType("smac.runhistory")
rh.TrialValue = _Any
rh.TrialInfo = _Any
cs = types.ModuleType("ConfigSpace")
for n in ("Configuration", "ConfigurationSpace", "Float", "Integer", "Categorical"):
    setattr(cs, n, _Any)
sys.modules.update({"smac": smac, "smac.runhistory": rh, "ConfigSpace": cs})

from syne_tune.config_space import uniform  # noqa: E402
from syne_tune.optimizer.schedulers.smac_scheduler import SMACScheduler  # noqa: E402

for given in (7, 0):
    seen.clear()
    SMACScheduler(config_space={"x": uniform(0, 1)}, metric="loss", random_seed=given)
    print(f"random_seed={given} -> Scenario(seed={seen.get('seed')})")
    if seen.get("seed") != given:
        print("VIOLATION: the seed given by the user is not the one SMAC is created with (seed=-1 means 'random' in SMAC3)")
        sys.exit(1)
print("OK")
