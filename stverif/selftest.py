"""Engine self-check on the fixtures (MANIFEST.setup_cmd): every rule kind must
fire on its positive example and stay silent on its negative one."""
import ast
import os
import sys

from .engine import Ctx, Report, kwarg
from .core.cfg import cfg_of
from .rules import common

FX = os.path.join(os.path.dirname(os.path.abspath(__file__)), "fixtures")


def selftest():
    from .core.model import Program
    from .core.resolve import Resolver
    ctx = Ctx.__new__(Ctx)
    ctx.P = Program(root=FX, package="fxpkg")
    ctx.R = Resolver(ctx.P)
    ctx._facts, ctx._does = {}, {}
    from .engine import _build_signatures
    _build_signatures(ctx.P)
    P = ctx.P
    fails = []

    def expect(name, cond):
        print(("ok   " if cond else "FAIL ") + name)
        if not cond:
            fails.append(name)

    box = P.cls("Box")
    # keep-filter polarity
    sem = common.filter_semantics(ctx, box.methods["keep"], "pred")
    expect("filter semantics: keep", sem == "keep")
    for meth, want in (("good_remove", True), ("bad_remove", False)):
        f = box.methods[meth]
        call = ctx.calls_in(f, selfcall="keep")[0][1]
        x, rets = common.predicate_body(ctx, f, call.args[0])
        rep = Report("FX")
        ok = common.keepfilter_polarity(ctx, rep, "S", f, rets, "x.key", "key", meth, call)
        expect(f"keep-filter polarity {meth}", ok is want)
    # must_precede
    A = ctx.sel_call(method="add")
    B = ctx.sel_call(selfcall="check")
    _, v = ctx.must_precede(box.methods["add_then_check"], A, B)
    expect("must_precede holds", not v)
    _, v = ctx.must_precede(box.methods["check_then_add"], A, B)
    expect("must_precede violated", bool(v))
    # guarded_by, polarity-normalised
    for meth, want in (("guarded", True), ("guarded_inverted", True), ("unguarded", False)):
        f = box.methods[meth]
        sites = ctx.calls_in(f, method="append")
        g = ctx.guarded_by(f, [sites[0][0]], "x not in self._seen")
        expect(f"guarded_by {meth}", g[0][1] is want)
    # finally obligations
    f = box.methods["with_finally"]
    cfg = cfg_of(f)
    bn = ctx.nodes(f, ctx.sel_call(method="clear"), "must")
    expect("finally on raise path", cfg.path(cfg.entry, cfg.raise_exit, deleted=bn) is None)
    # CHA + super
    tg = ctx.R.resolve_call(box.methods["add_then_check"], ctx.calls_in(box.methods["add_then_check"], selfcall="check")[0][1])
    expect("CHA: self.check -> Box.check and SubBox.check", {t.qualname for t, h in tg} ==
           {"fxpkg.sample.Box.check", "fxpkg.sample.SubBox.check"})
    # external resolution
    tg = ctx.R.resolve_call(box.methods["global_draw"], ctx.calls_in(box.methods["global_draw"], method="rand")[0][1])
    expect("ext: np.random.rand", tg and tg[0][0] == ("ext", "numpy.random.rand"))
    # generic lints and value helpers
    from .engine import deref, flows_into, returns_of, inline_block, fn_name
    from .core.facts import U
    L = "fxpkg.lints."
    expect("truthiness on an optional number: flagged", bool(common.truthiness_uses(P.func(L + "falsy_default"), "bound")))
    expect("truthiness on an optional number: `is None` is fine", not common.truthiness_uses(P.func(L + "none_default"), "bound"))
    expect("numeric optional parameters found", common.numeric_optional_params(P.func(L + "falsy_default")) == ["bound"])
    expect("ascending index deletion: flagged", bool(common.ascending_index_deletion(ctx, P.func(L + "delete_ascending"))))
    expect("descending index deletion: silent", not common.ascending_index_deletion(ctx, P.func(L + "delete_descending")))
    fa, fb = P.func(L + "nested"), P.func(L + "with_temporary")
    va, vb = returns_of(fa)[0].value, returns_of(fb)[0].value
    expect("deref: h(t) with t = g(a) looks like h(g(a))", fn_name(deref(fb, vb.args[0])) == "g" and fn_name(va.args[0]) == "g")
    expect("inline_block folds the temporary", U(inline_block(fb.node.body)[-1]) == U(fa.node.body[-1]))
    fg = P.func(L + "grows")
    expect("flows_into follows x.extend(src)", flows_into(fg, returns_of(fg)[0].value, lambda y: isinstance(y, ast.Name) and y.id == "src"))
    kp = P.cls("Keeper")
    expect("mutation while iterating: flagged", bool(common.mutation_during_iteration(ctx, kp.methods["mutate_while_iterating"])))
    expect("mutation of a copy: silent", not common.mutation_during_iteration(ctx, kp.methods["mutate_copy"]))
    tb = P.cls("Table")
    expect("dropped object (built, attribute set, handed to nobody): flagged", bool(common.dead_local_stores(ctx, tb.methods["lost_update"])))
    expect("object stored back: silent", not common.dead_local_stores(ctx, tb.methods["stored_update"]))
    expect("looked-up number defaulted by `or`: flagged", bool(common.numeric_lookup_or_default(tb.methods["zero_is_missing"])))
    expect("looked-up number defaulted on absence: silent", not common.numeric_lookup_or_default(tb.methods["absent_is_missing"]))
    expect("argument named like another parameter (keyword): flagged", bool(common.argument_name_mismatches(P.func(L + "swapped_keyword"))))
    expect("argument named like another parameter (positional): flagged", len(common.argument_name_mismatches(P.func(L + "swapped_positional"))) == 2)
    expect("arguments in place: silent", not common.argument_name_mismatches(P.func(L + "straight")))
    good, badc = P.cls("GoodChild"), P.cls("BadChild")
    gi, bi = good.methods["__init__"], badc.methods["__init__"]
    expect("ignored constructor parameter: flagged", common.ignored_parameters(ctx, bi) == ["unused"])
    expect("all constructor parameters read: silent", not common.ignored_parameters(ctx, gi))
    expect("attribute written under the wrong spelling (reader uses _flag): flagged", [a for _, a in common.write_only_attributes(ctx, bi)] == ["flag"])
    expect("attributes with readers: silent", not common.write_only_attributes(ctx, gi))
    expect("caller's container modified by a constructor: flagged", bool(common.caller_container_mutations(bi)))
    expect("copy modified: silent", not common.caller_container_mutations(gi))
    expect("option at hand not handed on: flagged", [o for _, o in common.omitted_options(bi)] == ["mode"])
    expect("option handed on: silent", not common.omitted_options(gi))
    expect("option popped before **kwargs are forwarded: flagged", bool(common.consumed_before_forwarding(bi)))
    expect("**kwargs forwarded untouched: silent", not common.consumed_before_forwarding(gi))
    expect("early return in front of an unconditional base call: flagged", bool(common.bypassed_base_calls(ctx, badc)))
    expect("base call reached on every path: silent", not common.bypassed_base_calls(ctx, good))
    # the whole-package rewrites produce programs that parse and are stable under a second application of reformat
    from .audit import transforms
    with open(os.path.join(FX, "fxpkg", "lints.py")) as fh:
        src = fh.read()
    for how, fn in (("reformat", transforms.reformat), ("swapif", transforms.swap_if), ("flipcmp", transforms.flip_cmp),
                    ("inline", transforms.inline_temps), ("extract", transforms.extract_args), ("@", lambda s_: transforms.rewrite(s_, "@"))):
        try:
            out = fn(src)
            ast.parse(out)
            ok = True
        except Exception as e:  # pragma: no cover
            ok = False
        expect(f"transform {how}: output parses", ok)
    expect("transform inline folds with_temporary", "t = g(a)" not in transforms.inline_temps(src))
    expect("transform extract names the nested call", "_xt1 = g(a)" in transforms.extract_args(src))
    # ---- canonical form of the loader: pairs of spellings that must come out identical, and one that must not
    from .core.normalise import normalise

    def canon(src_):
        return ast.unparse(normalise(ast.parse(src_)))
    PAIRS = [
        ("guard clause / else nesting",
         "def f(x):\n    if x is None:\n        return 0\n    return x + 1\n",
         "def f(x):\n    if x is not None:\n        return x + 1\n    else:\n        return 0\n"),
        ("nested ifs / conjunction",
         "def f(a, b, s):\n    if a:\n        if b:\n            s.append(1)\n",
         "def f(a, b, s):\n    if a and b:\n        s.append(1)\n"),
        ("append loop / comprehension",
         "def f(xs):\n    out = []\n    k = 3\n    for x in xs:\n        if x > k:\n            out.append(x)\n    return out\n",
         "def f(xs):\n    k = 3\n    out = [x for x in xs if k < x]\n    return out\n"),
        ("counting loop / sum",
         "def f(xs, s):\n    n = 0\n    for x in xs:\n        if x in s:\n            n += 1\n    return n\n",
         "def f(xs, s):\n    return sum(1 for x in xs if x in s)\n"),
        ("pop with default / membership test",
         "def f(d, k):\n    d.pop(k, None)\n",
         "def f(d, k):\n    if k in d:\n        del d[k]\n"),
        ("first match / loop with break",
         "def f(xs, p):\n    r = next((x for x in xs if p(x)), None)\n    return r\n",
         "def f(xs, p):\n    r = None\n    for x in xs:\n        if p(x):\n            r = x\n            break\n    return r\n"),
        ("update with a dict comprehension / store loop",
         "def f(d, c):\n    d.update({'k_' + k: v for k, v in c.items()})\n",
         "def f(d, c):\n    for k, v in c.items():\n        d['k_' + k] = v\n"),
        ("tuple assignment / two assignments",
         "def f(a, b):\n    x, y = a + 1, b\n    return x * y\n",
         "def f(a, b):\n    x = a + 1\n    y = b\n    return x * y\n"),
    ]
    for name, a_, b_ in PAIRS:
        expect(f"canonical form: {name}", canon(a_) == canon(b_))
    expect("canonical form keeps a swapped comparison apart (x < k is not k < x)",
           canon("def f(x, k):\n    return x < k\n") != canon("def f(x, k):\n    return k < x\n"))
    expect("canonical form does not build a comprehension when the loop variable is used afterwards",
           "for x in xs" in canon("def f(xs):\n    out = []\n    for x in xs:\n        out.append(x)\n    return out, x\n"))
    # ---- re-identification: a renamed private method and an extracted single-caller helper are undone, a shared helper is left alone
    from .core.reidentify import build_inventory, reidentify
    OLD = ("class K:\n    def run(self, xs):\n        t = self._total(xs)\n        if t > 3:\n            self._n = t\n        return t\n"
           "    def _total(self, xs):\n        s = 0\n        for x in xs:\n            s = s + x\n        return s\n")
    NEW = ("class K:\n    def run(self, xs):\n        t = self._sum_up(xs)\n        self._remember(t)\n        return t\n"
           "    def _remember(self, t):\n        if t > 3:\n            self._n = t\n"
           "    def _sum_up(self, xs):\n        acc = 0\n        for x in xs:\n            acc = acc + x\n        return acc\n")
    inv = build_inventory({"k.py": ast.parse(OLD)})
    tr = {"k.py": ast.parse(NEW)}
    what = reidentify(tr, inv)
    got = ast.unparse(tr["k.py"])
    expect("re-identification: renamed private method is renamed back", what["renamed_back"] == {"_sum_up": "_total"} and "_total" in got)
    expect("re-identification: new single-caller helper is expanded at its call site", what["helpers_expanded"] == 1 and "_remember" not in got
           and "self._n = t" in got)
    TWO = NEW + "    def other(self, t):\n        self._remember(t)\n"
    tr2 = {"k.py": ast.parse(TWO)}
    reidentify(tr2, inv)
    expect("re-identification: a helper with two call sites is expanded at both", "_remember" not in ast.unparse(tr2["k.py"])
           and ast.unparse(tr2["k.py"]).count("self._n = t") == 2)
    VAL = NEW + "    def other(self, ts):\n        return list(map(self._remember, ts))\n"
    tr3 = {"k.py": ast.parse(VAL)}
    reidentify(tr3, inv)
    expect("re-identification: a helper that is also passed as a value is left alone", "def _remember" in ast.unparse(tr3["k.py"]))
    # ---- reaching definitions / origins on a fixture function
    from .engine import origins
    src_r = ("def g(result, flag):\n    row = dict(result)\n    if flag:\n        row = result\n    row['a'] = 1\n"
             "    result = row\n    result['b'] = 2\n")
    try:
        P2 = Program(root=FX, package="fxpkg", overlay={"fxpkg/_reach.py": src_r})
        g_ = P2.func("fxpkg._reach.g")
        cfg_ = cfg_of(g_)
        st_a = [n.id for n in cfg_.nodes if n.kind == "stmt" and isinstance(n.ast, ast.Assign) and "['a']" in ast.unparse(n.ast)][0]
        o_ = origins(g_, "row", st_a)
        expect("origins: both reaching definitions are seen, aliases followed to the parameter",
               "param:result" in o_ and any(isinstance(x, ast.Call) for x in o_))
        st_b = [n.id for n in cfg_.nodes if n.kind == "stmt" and isinstance(n.ast, ast.Assign) and "['b']" in ast.unparse(n.ast)][0]
        expect("same_object: `result` after `result = row` is the object `row` held", common.same_object(g_, "row", st_a)("result", st_b))
    except Exception as e:      # pragma: no cover
        expect(f"reaching definitions fixture ({type(e).__name__}: {e})", False)
    print("selftest:", "FAILED " + str(fails) if fails else "all passed")
    return 1 if fails else 0
