"""Hand-written source variants for the sensitivity audit (DESIGN.md A.7).

kind 'break': still compiles and passes the existing tests, breaks the property -> must be flagged.
kind 'equiv': behaviour-preserving rewrite -> must stay silent.
An entry whose anchor text no longer occurs exactly once is reported as 'not applicable' (it is a test
input of the checker, not part of the checker).
"""

T = "syne_tune/tuner.py"
TB = "syne_tune/backend/trial_backend.py"
SB = "syne_tune/backend/simulator_backend/simulator_backend.py"
EV = "syne_tune/backend/simulator_backend/events.py"
TK = "syne_tune/backend/simulator_backend/time_keeper.py"
SC = "syne_tune/backend/simulator_backend/simulator_callback.py"
HB = "syne_tune/optimizer/schedulers/hyperband.py"
HS = "syne_tune/optimizer/schedulers/hyperband_stopping.py"
HP = "syne_tune/optimizer/schedulers/hyperband_promotion.py"
HC = "syne_tune/optimizer/schedulers/hyperband_cost_promotion.py"
HR = "syne_tune/optimizer/schedulers/hyperband_rush.py"
PA = "syne_tune/optimizer/schedulers/hyperband_pasha.py"
MT = "syne_tune/optimizer/schedulers/searchers/bayesopt/models/model_transformer.py"
GM = "syne_tune/optimizer/schedulers/searchers/gp_multifidelity_searcher.py"
RC = "syne_tune/results_callback.py"
TS = "syne_tune/tuning_status.py"
ST = "syne_tune/stopping_criterion.py"
RP = "syne_tune/report.py"
UT = "syne_tune/util.py"
CS = "syne_tune/config_space.py"
HI = "syne_tune/optimizer/schedulers/searchers/utils/hp_ranges_impl.py"
SBS = "syne_tune/optimizer/schedulers/searchers/searcher_base.py"
RG = "syne_tune/optimizer/schedulers/searchers/random_grid_searcher.py"
SR = "syne_tune/optimizer/schedulers/searchers/searcher.py"
MB = "syne_tune/optimizer/schedulers/searchers/model_based_searcher.py"
SY = "syne_tune/optimizer/schedulers/synchronous/hyperband.py"
SYB = "syne_tune/optimizer/schedulers/synchronous/hyperband_bracket.py"
SYM = "syne_tune/optimizer/schedulers/synchronous/hyperband_bracket_manager.py"
DE = "syne_tune/optimizer/schedulers/synchronous/dehb.py"
PBT = "syne_tune/optimizer/schedulers/pbt.py"
MO = "syne_tune/optimizer/schedulers/multiobjective/moasha.py"
MP = "syne_tune/optimizer/schedulers/multiobjective/multiobjective_priority.py"
ND = "syne_tune/optimizer/schedulers/multiobjective/non_dominated_priority.py"
TAB = "syne_tune/blackbox_repository/simulated_tabular_backend.py"
SS = "syne_tune/optimizer/schedulers/scheduler_searcher.py"
PU = "syne_tune/optimizer/schedulers/searchers/bayesopt/gpautograd/posterior_utils.py"
SCH = "syne_tune/optimizer/scheduler.py"
FI = "syne_tune/optimizer/schedulers/fifo.py"
MS = "syne_tune/optimizer/schedulers/median_stopping_rule.py"
RE = "syne_tune/optimizer/schedulers/searchers/regularized_evolution.py"
ER = "syne_tune/experiments/experiment_result.py"


def B(name, file, old, new, expect=None):
    return {"name": name, "kind": "break", "file": file, "old": old, "new": new, "expect": expect}


def E(name, file, old, new):
    return {"name": name, "kind": "equiv", "file": file, "old": old, "new": new}


VARIANTS = {}

# ------------------------------------------------------------------------------------------------ C01
VARIANTS["C01"] = [
    B("pause does not call backend", T, "                    self.trial_backend.pause_trial(trial_id=trial_id, result=result)\n", "                    pass\n"),
    B("stop edge forgets on_trial_remove", T,
      "                        self.trial_backend.stop_trial(trial_id=trial_id, result=result)\n                    self.scheduler.on_trial_remove(trial=trial)\n",
      "                        self.trial_backend.stop_trial(trial_id=trial_id, result=result)\n"),
    B("on_trial_add before start_trial", T,
      "            self.scheduler.on_trial_add(trial=trial)\n            for callback in self.callbacks:\n                callback.on_start_trial(trial)\n",
      "            for callback in self.callbacks:\n                callback.on_start_trial(trial)\n"),
    B("difference_update after scheduling", T,
      "                running_trials_ids.difference_update(new_done_trial_statuses.keys())\n", "                pass\n"),
    B("worker budget off by one", T, "            for _ in range(self.n_workers - num_busy_workers):", "            for _ in range(self.n_workers - num_busy_workers + 1):"),
    B("threshold test weakened", T, "        if num_busy_workers >= running_trials_threshold:", "        if num_busy_workers > running_trials_threshold:"),
    B("resume without paused assert", TB,
      "        assert (\n            trial.status == Status.paused\n        ), f\"Cannot resume trial_id {trial_id} from status '{trial.status}', must be '{Status.paused}'\"\n", ""),
    B("id appended twice", TB, "        self.trial_ids.append(trial_id)\n        self._schedule(trial_id=trial_id, config=config)\n        now = datetime.now()",
      "        self.trial_ids.append(trial_id)\n        self._schedule(trial_id=trial_id, config=config)\n        self.trial_ids.append(trial_id)\n        now = datetime.now()"),
    B("foreign driver of the backend", RC, "        self.results.append(result)\n\n        if self.csv_file is not None:",
      "        self.results.append(result)\n        if decision == 'STOP' and self._tuner is not None:\n            self._tuner.trial_backend.stop_trial(trial.trial_id)\n\n        if self.csv_file is not None:"),
    B("externally stopped also for scheduler-stopped", T,
      "                status == Status.stopped\n                and trial_id not in self.trials_scheduler_stopped\n", "                status == Status.stopped\n"),
    E("inverted guard in result loop", T,
      "            if trial_id not in done_trials:\n                trial, status = trial_status_dict[trial_id]\n",
      "            if not (trial_id in done_trials):\n                trial, status = trial_status_dict[trial_id]\n"),
    E("rename loop variable", T, "            for _ in range(self.n_workers - num_busy_workers):", "            for _unused in range(self.n_workers - num_busy_workers):"),
    E("comment and blank lines", TB, "        trial_id = self.new_trial_id()\n        if checkpoint_trial_id is not None:",
      "        trial_id = self.new_trial_id()\n\n        # copy first\n        if checkpoint_trial_id is not None:"),
]

# ------------------------------------------------------------------------------------------------ C02
VARIANTS["C02"] = [
    B("cursor off by one", TB, "                    self._last_metric_seen_index[trial_id] += len(new_metrics)", "                    self._last_metric_seen_index[trial_id] += len(new_metrics) - 1"),
    B("slice from zero", TB, "                    new_metrics = trial_result.metrics[position_last_seen:]", "                    new_metrics = trial_result.metrics[0:]"),
    B("hidden branch does not consume", TB, "                    self._last_metric_seen_index[trial_id] = len(trial_result.metrics)\n", ""),
    B("paused not hidden", TB, "                    Status.paused,\n                    Status.stopping,", "                    Status.stopping,"),
    B("remove_events polarity", EV, "elem for elem in self.event_heap if elem[2].trial_id != trial_id", "elem for elem in self.event_heap if elem[2].trial_id == trial_id"),
    B("complete pushed before stop processed", SB,
      "        self._time_keeper.advance_to(time_stop + 1e-3)\n        # Process events up to and including ``StopEvent``\n        self._process_events_until_now()\n", ""),
    B("mailbox entry removed without advance", SB, "                self._last_metric_seen_index[trial_id] += len(result_list)\n                del self._next_results_to_fetch[trial_id]",
      "                del self._next_results_to_fetch[trial_id]"),
    B("resume keeps paused level", TAB, "                if resource > resource_paused:\n                    results.append(result)", "                if resource >= resource_paused:\n                    results.append(result)"),
    B("row is not a copy", RC, "        result = copy.copy(result)\n        result[ST_DECISION] = decision", "        result[ST_DECISION] = decision"),
    B("second delivery point", RC, "        self.results.append(result)\n\n        if self.csv_file is not None:",
      "        self.results.append(result)\n        if self._tuner is not None:\n            self._tuner.scheduler.on_trial_result(trial=trial, result=result)\n\n        if self.csv_file is not None:"),
    E("cursor assignment form", TB, "                    self._last_metric_seen_index[trial_id] += len(new_metrics)",
      "                    self._last_metric_seen_index[trial_id] = position_last_seen + len(new_metrics)"),
    E("cursor to len", TB, "                    self._last_metric_seen_index[trial_id] += len(new_metrics)",
      "                    self._last_metric_seen_index[trial_id] = len(trial_result.metrics)"),
    E("status set as tuple", TB, "                if trial_result.status in [\n                    Status.paused,\n                    Status.stopping,\n                    Status.stopped,\n                ]:",
      "                if trial_result.status in (Status.stopped, Status.paused, Status.stopping):"),
    E("copy via dict()", RC, "        result = copy.copy(result)\n        result[ST_DECISION] = decision", "        result = dict(result)\n        result[ST_DECISION] = decision"),
    E("mailbox reset via clear", SB, "            self._next_results_to_fetch = dict()\n\n        if len(results) > 0", "            self._next_results_to_fetch.clear()\n\n        if len(results) > 0"),
]

# ------------------------------------------------------------------------------------------------ C12
VARIANTS["C12"] = [
    B("continue skips re-evaluation", T, "                self.status_printer(self.tuning_status)\n", "                if not new_results:\n                    continue\n                self.status_printer(self.tuning_status)\n"),
    B("stop_all only if save_tuner", T, "            logger.info(\"Stopping trials that may still be running.\")\n            self.trial_backend.stop_all()",
      "            logger.info(\"Stopping trials that may still be running.\")\n            if self.save_tuner:\n                self.trial_backend.stop_all()"),
    B("results stored after stop_all raises", T, "            for callback in self.callbacks:\n                callback.on_tuning_end()\n\n            # Serialize Tuner object",
      "            # Serialize Tuner object"),
    B("criterion field compared the wrong way", ST, "            and status.num_trials_started > self.max_num_trials_started", "            and status.num_trials_started < self.max_num_trials_started"),
    B("criterion field ignored", ST, "        if self.max_cost is not None and status.cost > self.max_cost:\n            logger.info(f\"reaching max cost ({self.max_cost}), stopping there.\")\n            return True\n", ""),
    B("simulated criterion drops max_cost", SC, "                max_cost=stop_criterion.max_cost,\n", ""),
    B("finished excludes failed", TS, "            Status.stopping,\n            Status.failed,\n        }", "            Status.stopping,\n        }"),
    B("mark stopped rewrites paused too", TS, "            k: v if v != Status.in_progress else Status.stopped", "            k: v if v == Status.completed else Status.stopped"),
    B("stop_all stops only when checkpoints deleted", TB, "            if trial.status == Status.in_progress:\n                self.stop_trial(trial_id=trial.trial_id)",
      "            if trial.status == Status.in_progress and self.delete_checkpoints:\n                self.stop_trial(trial_id=trial.trial_id)"),
    B("scheduling although criterion reached", T, "                    or self.wait_trial_completion_when_stopping\n                    and stop_condition_reached\n                ):",
      "                    or self.wait_trial_completion_when_stopping\n                    and not stop_condition_reached\n                ):"),
    E("status compared as tuple order", ST, "            and status.num_trials_started > self.max_num_trials_started", "            and self.max_num_trials_started < status.num_trials_started"),
    E("finally statements with comment", T, "            logger.info(\"Stopping trials that may still be running.\")\n            self.trial_backend.stop_all()",
      "            # stop what is left\n            self.trial_backend.stop_all()"),
    E("criterion dict via kwargs order", SC, "                max_num_trials_started=stop_criterion.max_num_trials_started,\n                max_num_trials_completed=stop_criterion.max_num_trials_completed,\n",
      "                max_num_trials_completed=stop_criterion.max_num_trials_completed,\n                max_num_trials_started=stop_criterion.max_num_trials_started,\n"),
]

# ------------------------------------------------------------------------------------------------ C13
VARIANTS["C13"] = [
    B("failed branch also needs not done", T, "            if status == Status.failed:\n                logger.info(f\"Trial trial_id {trial_id} failed.\")",
      "            if status == Status.failed and trial_id not in self.trials_scheduler_stopped:\n                logger.info(f\"Trial trial_id {trial_id} failed.\")"),
    B("hyperband error does not forward", HB, "    def on_trial_error(self, trial: Trial):\n        super().on_trial_error(trial)\n        self._cleanup_trial(str(trial.trial_id), trial_decision=SchedulerDecision.STOP)",
      "    def on_trial_error(self, trial: Trial):\n        self._cleanup_trial(str(trial.trial_id), trial_decision=SchedulerDecision.STOP)"),
    B("hyperband error keeps rung record", HB, "        super().on_trial_error(trial)\n        self._cleanup_trial(str(trial.trial_id), trial_decision=SchedulerDecision.STOP)", "        super().on_trial_error(trial)"),
    B("sync error does not report slot", SY, "            self._report_as_failed(bracket_id, slot_in_rung)\n            # A failed trial is not pending anymore", "            # A failed trial is not pending anymore"),
    B("failed config not black-listed", GM, "        self.cleanup_pending(trial_id)\n        # Mark config as failed (which means it will not be suggested again)\n        self.state_transformer.mark_trial_failed(trial_id)",
      "        self.cleanup_pending(trial_id)"),
    B("cleanup polarity", GM, "            return x.trial_id != trial_id", "            return x.trial_id == trial_id"),
    B("failure sentinel via removed alias", DE, "        result_failed.metric_val = np.nan", "        result_failed.metric_val = np.NaN"),
    B("failure error without trial id", T, "                raise ValueError(f\"Trial - {trial_id} failed\")", "                raise ValueError(\"A trial failed\")"),
    E("predicate as lambda", GM, "        def filter_pred(x: PendingEvaluation) -> bool:\n            return x.trial_id != trial_id\n\n        self.state_transformer.filter_pending_evaluations(filter_pred)",
      "        self.state_transformer.filter_pending_evaluations(lambda ev: not (ev.trial_id == trial_id))"),
    E("error branch ordering", T, "                self.scheduler.on_trial_error(trial)\n                done_trials[trial_id] = (trial, status)\n\n            # For the case when",
      "                done_trials[trial_id] = (trial, status)\n                self.scheduler.on_trial_error(trial)\n\n            # For the case when"),
]

# ------------------------------------------------------------------------------------------------ C14
VARIANTS["C14"] = [
    B("label stored before pending dropped", MT, "                for resource in metric_vals.keys():\n                    self.drop_pending_evaluation(trial_id, resource=int(resource))",
      "                for resource in metric_vals.keys():\n                    pass"),
    B("register_pending without pending test", GM, "        if not state.is_pending(trial_id, resource=milestone):\n            assert not state.is_labeled(trial_id, resource=milestone), (",
      "        if True:\n            assert not state.is_labeled(trial_id, resource=milestone), ("),
    B("ignore_data not honoured for searcher", HB, "        if not ignore_data:\n            self.searcher.on_trial_result(", "        if True:\n            self.searcher.on_trial_result("),
    B("ignore_data uses strict less", HP, "        ignore_data = (resume_from is not None) and (resource <= resume_from)", "        ignore_data = (resume_from is not None) and (resource < resume_from)"),
    B("double update not prevented", HB, "                    if resource == largest_update_resource:\n                        do_update = False  # Do not update again\n                    else:\n                        record.largest_update_resource = resource",
      "                    record.largest_update_resource = resource"),
    B("complete forwards always", HB, "            if resource > largest_update_resource:\n                super().on_trial_complete(trial, result)", "            if resource >= largest_update_resource:\n                super().on_trial_complete(trial, result)"),
    B("rungs policy updates at any level", HB, "            if resource in self.rung_levels or resource == self.max_t:", "            if True:"),
    B("remove_case although kept", HB, "            if (rem_result is not None) and (not record.keep_case):", "            if rem_result is not None:"),
    B("append_trial keeps predictor", MT, "        self._predictor = None  # Invalidate\n        self._state.append_pending(trial_id, config=config, resource=resource)", "        self._state.append_pending(trial_id, config=config, resource=resource)"),
    B("snapshot overwritten before update", HB, "                do_update = self._update_searcher(trial_id, config, result, task_info)\n", "                do_update = True\n"),
    E("guard inverted with early exit", GM, "        if not state.is_pending(trial_id, resource=milestone):\n            assert not state.is_labeled(trial_id, resource=milestone), (",
      "        if not (state.is_pending(trial_id, resource=milestone)):\n            assert not state.is_labeled(trial_id, resource=milestone), ("),
    E("equality operands swapped", HB, "                    if resource == largest_update_resource:", "                    if largest_update_resource == resource:"),
    E("ignore_data without parentheses", HP, "        ignore_data = (resume_from is not None) and (resource <= resume_from)", "        ignore_data = resume_from is not None and resume_from >= resource"),
]
