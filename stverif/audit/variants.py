"""Hand-written source variants for the sensitivity audit (DESIGN.md A.7).

kind 'break': still compiles and passes the existing tests, breaks the property -> must be flagged.
kind 'equiv': behaviour-preserving rewrite -> must stay silent.
An entry whose anchor text no longer occurs exactly once is reported as 'not applicable' (it is a test
input of the checker, not part of the checker).
"""

T = "syne_tune/tuner.py"
TB = "syne_tune/backend/trial_backend.py"
SB = "syne_tune/backend/simulator_backend/simulator_backend.py"
EV = "syne_tune/backend/simulator_backend/events.py"
TK = "syne_tune/backend/simulator_backend/time_keeper.py"
SC = "syne_tune/backend/simulator_backend/simulator_callback.py"
HB = "syne_tune/optimizer/schedulers/hyperband.py"
HS = "syne_tune/optimizer/schedulers/hyperband_stopping.py"
HP = "syne_tune/optimizer/schedulers/hyperband_promotion.py"
HC = "syne_tune/optimizer/schedulers/hyperband_cost_promotion.py"
HR = "syne_tune/optimizer/schedulers/hyperband_rush.py"
PA = "syne_tune/optimizer/schedulers/hyperband_pasha.py"
MT = "syne_tune/optimizer/schedulers/searchers/bayesopt/models/model_transformer.py"
GM = "syne_tune/optimizer/schedulers/searchers/gp_multifidelity_searcher.py"
RC = "syne_tune/results_callback.py"
TS = "syne_tune/tuning_status.py"
ST = "syne_tune/stopping_criterion.py"
RP = "syne_tune/report.py"
UT = "syne_tune/util.py"
CS = "syne_tune/config_space.py"
HI = "syne_tune/optimizer/schedulers/searchers/utils/hp_ranges_impl.py"
SBS = "syne_tune/optimizer/schedulers/searchers/searcher_base.py"
RG = "syne_tune/optimizer/schedulers/searchers/random_grid_searcher.py"
SR = "syne_tune/optimizer/schedulers/searchers/searcher.py"
MB = "syne_tune/optimizer/schedulers/searchers/model_based_searcher.py"
SY = "syne_tune/optimizer/schedulers/synchronous/hyperband.py"
SYB = "syne_tune/optimizer/schedulers/synchronous/hyperband_bracket.py"
SYM = "syne_tune/optimizer/schedulers/synchronous/hyperband_bracket_manager.py"
DE = "syne_tune/optimizer/schedulers/synchronous/dehb.py"
PBT = "syne_tune/optimizer/schedulers/pbt.py"
MO = "syne_tune/optimizer/schedulers/multiobjective/moasha.py"
MP = "syne_tune/optimizer/schedulers/multiobjective/multiobjective_priority.py"
ND = "syne_tune/optimizer/schedulers/multiobjective/non_dominated_priority.py"
TAB = "syne_tune/blackbox_repository/simulated_tabular_backend.py"
SS = "syne_tune/optimizer/schedulers/scheduler_searcher.py"
PU = "syne_tune/optimizer/schedulers/searchers/bayesopt/gpautograd/posterior_utils.py"
SCH = "syne_tune/optimizer/scheduler.py"
FI = "syne_tune/optimizer/schedulers/fifo.py"
MS = "syne_tune/optimizer/schedulers/median_stopping_rule.py"
RE = "syne_tune/optimizer/schedulers/searchers/regularized_evolution.py"
ER = "syne_tune/experiments/experiment_result.py"


def B(name, file, old, new, expect=None):
    return {"name": name, "kind": "break", "file": file, "old": old, "new": new, "expect": expect}


def E(name, file, old, new):
    return {"name": name, "kind": "equiv", "file": file, "old": old, "new": new}


VARIANTS = {}

# ------------------------------------------------------------------------------------------------ C01
VARIANTS["C01"] = [
    B("pause does not call backend", T, "                    self.trial_backend.pause_trial(trial_id=trial_id, result=result)\n", "                    pass\n"),
    B("stop edge forgets on_trial_remove", T,
      "                        self.trial_backend.stop_trial(trial_id=trial_id, result=result)\n                    self.scheduler.on_trial_remove(trial=trial)\n",
      "                        self.trial_backend.stop_trial(trial_id=trial_id, result=result)\n"),
    B("on_trial_add before start_trial", T,
      "            self.scheduler.on_trial_add(trial=trial)\n            for callback in self.callbacks:\n                callback.on_start_trial(trial)\n",
      "            for callback in self.callbacks:\n                callback.on_start_trial(trial)\n"),
    B("difference_update after scheduling", T,
      "                running_trials_ids.difference_update(new_done_trial_statuses.keys())\n", "                pass\n"),
    B("worker budget off by one", T, "            for _ in range(self.n_workers - num_busy_workers):", "            for _ in range(self.n_workers - num_busy_workers + 1):"),
    B("threshold test weakened", T, "        if num_busy_workers >= running_trials_threshold:", "        if num_busy_workers > running_trials_threshold:"),
    B("resume without paused assert", TB,
      "        assert (\n            trial.status == Status.paused\n        ), f\"Cannot resume trial_id {trial_id} from status '{trial.status}', must be '{Status.paused}'\"\n", ""),
    B("id appended twice", TB, "        self.trial_ids.append(trial_id)\n        self._schedule(trial_id=trial_id, config=config)\n        now = datetime.now()",
      "        self.trial_ids.append(trial_id)\n        self._schedule(trial_id=trial_id, config=config)\n        self.trial_ids.append(trial_id)\n        now = datetime.now()"),
    B("foreign driver of the backend", RC, "        self.results.append(result)\n\n        if self.csv_file is not None:",
      "        self.results.append(result)\n        if decision == 'STOP' and self._tuner is not None:\n            self._tuner.trial_backend.stop_trial(trial.trial_id)\n\n        if self.csv_file is not None:"),
    B("externally stopped also for scheduler-stopped", T,
      "                status == Status.stopped\n                and trial_id not in self.trials_scheduler_stopped\n", "                status == Status.stopped\n"),
    E("inverted guard in result loop", T,
      "            if trial_id not in done_trials:\n                trial, status = trial_status_dict[trial_id]\n",
      "            if not (trial_id in done_trials):\n                trial, status = trial_status_dict[trial_id]\n"),
    E("rename loop variable", T, "            for _ in range(self.n_workers - num_busy_workers):", "            for _unused in range(self.n_workers - num_busy_workers):"),
    E("comment and blank lines", TB, "        trial_id = self.new_trial_id()\n        if checkpoint_trial_id is not None:",
      "        trial_id = self.new_trial_id()\n\n        # copy first\n        if checkpoint_trial_id is not None:"),
]

# ------------------------------------------------------------------------------------------------ C02
VARIANTS["C02"] = [
    B("cursor off by one", TB, "                    self._last_metric_seen_index[trial_id] += len(new_metrics)", "                    self._last_metric_seen_index[trial_id] += len(new_metrics) - 1"),
    B("slice from zero", TB, "                    new_metrics = trial_result.metrics[position_last_seen:]", "                    new_metrics = trial_result.metrics[0:]"),
    B("hidden branch does not consume", TB, "                    self._last_metric_seen_index[trial_id] = len(trial_result.metrics)\n", ""),
    B("paused not hidden", TB, "                    Status.paused,\n                    Status.stopping,", "                    Status.stopping,"),
    B("remove_events polarity", EV, "elem for elem in self.event_heap if elem[2].trial_id != trial_id", "elem for elem in self.event_heap if elem[2].trial_id == trial_id"),
    B("complete pushed before stop processed", SB,
      "        self._time_keeper.advance_to(time_stop + 1e-3)\n        # Process events up to and including ``StopEvent``\n        self._process_events_until_now()\n", ""),
    B("mailbox entry removed without advance", SB, "                self._last_metric_seen_index[trial_id] += len(result_list)\n                del self._next_results_to_fetch[trial_id]",
      "                del self._next_results_to_fetch[trial_id]"),
    B("resume keeps paused level", TAB, "                if resource > resource_paused:\n                    results.append(result)", "                if resource >= resource_paused:\n                    results.append(result)"),
    B("row is not a copy", RC, "        result = copy.copy(result)\n        result[ST_DECISION] = decision", "        result[ST_DECISION] = decision"),
    B("second delivery point", RC, "        self.results.append(result)\n\n        if self.csv_file is not None:",
      "        self.results.append(result)\n        if self._tuner is not None:\n            self._tuner.scheduler.on_trial_result(trial=trial, result=result)\n\n        if self.csv_file is not None:"),
    E("cursor assignment form", TB, "                    self._last_metric_seen_index[trial_id] += len(new_metrics)",
      "                    self._last_metric_seen_index[trial_id] = position_last_seen + len(new_metrics)"),
    E("cursor to len", TB, "                    self._last_metric_seen_index[trial_id] += len(new_metrics)",
      "                    self._last_metric_seen_index[trial_id] = len(trial_result.metrics)"),
    E("status set as tuple", TB, "                if trial_result.status in [\n                    Status.paused,\n                    Status.stopping,\n                    Status.stopped,\n                ]:",
      "                if trial_result.status in (Status.stopped, Status.paused, Status.stopping):"),
    E("copy via dict()", RC, "        result = copy.copy(result)\n        result[ST_DECISION] = decision", "        result = dict(result)\n        result[ST_DECISION] = decision"),
    E("mailbox reset via clear", SB, "            self._next_results_to_fetch = dict()\n\n        if len(results) > 0", "            self._next_results_to_fetch.clear()\n\n        if len(results) > 0"),
]

# ------------------------------------------------------------------------------------------------ C12
VARIANTS["C12"] = [
    B("continue skips re-evaluation", T, "                self.status_printer(self.tuning_status)\n", "                if not new_results:\n                    continue\n                self.status_printer(self.tuning_status)\n"),
    B("stop_all only if save_tuner", T, "            logger.info(\"Stopping trials that may still be running.\")\n            self.trial_backend.stop_all()",
      "            logger.info(\"Stopping trials that may still be running.\")\n            if self.save_tuner:\n                self.trial_backend.stop_all()"),
    B("results stored after stop_all raises", T, "            for callback in self.callbacks:\n                callback.on_tuning_end()\n\n            # Serialize Tuner object",
      "            # Serialize Tuner object"),
    B("criterion field compared the wrong way", ST, "            and status.num_trials_started > self.max_num_trials_started", "            and status.num_trials_started < self.max_num_trials_started"),
    B("criterion field ignored", ST, "        if self.max_cost is not None and status.cost > self.max_cost:\n            logger.info(f\"reaching max cost ({self.max_cost}), stopping there.\")\n            return True\n", ""),
    B("simulated criterion drops max_cost", SC, "                max_cost=stop_criterion.max_cost,\n", ""),
    B("finished excludes failed", TS, "            Status.stopping,\n            Status.failed,\n        }", "            Status.stopping,\n        }"),
    B("mark stopped rewrites paused too", TS, "            k: v if v != Status.in_progress else Status.stopped", "            k: v if v == Status.completed else Status.stopped"),
    B("stop_all stops only when checkpoints deleted", TB, "            if trial.status == Status.in_progress:\n                self.stop_trial(trial_id=trial.trial_id)",
      "            if trial.status == Status.in_progress and self.delete_checkpoints:\n                self.stop_trial(trial_id=trial.trial_id)"),
    B("scheduling although criterion reached", T, "                    or self.wait_trial_completion_when_stopping\n                    and stop_condition_reached\n                ):",
      "                    or self.wait_trial_completion_when_stopping\n                    and not stop_condition_reached\n                ):"),
    E("status compared as tuple order", ST, "            and status.num_trials_started > self.max_num_trials_started", "            and self.max_num_trials_started < status.num_trials_started"),
    E("finally statements with comment", T, "            logger.info(\"Stopping trials that may still be running.\")\n            self.trial_backend.stop_all()",
      "            # stop what is left\n            self.trial_backend.stop_all()"),
    E("criterion dict via kwargs order", SC, "                max_num_trials_started=stop_criterion.max_num_trials_started,\n                max_num_trials_completed=stop_criterion.max_num_trials_completed,\n",
      "                max_num_trials_completed=stop_criterion.max_num_trials_completed,\n                max_num_trials_started=stop_criterion.max_num_trials_started,\n"),
]

# ------------------------------------------------------------------------------------------------ C13
VARIANTS["C13"] = [
    B("failed branch also needs not done", T, "            if status == Status.failed:\n                logger.info(f\"Trial trial_id {trial_id} failed.\")",
      "            if status == Status.failed and trial_id not in self.trials_scheduler_stopped:\n                logger.info(f\"Trial trial_id {trial_id} failed.\")"),
    B("hyperband error does not forward", HB, "    def on_trial_error(self, trial: Trial):\n        super().on_trial_error(trial)\n        self._cleanup_trial(str(trial.trial_id), trial_decision=SchedulerDecision.STOP)",
      "    def on_trial_error(self, trial: Trial):\n        self._cleanup_trial(str(trial.trial_id), trial_decision=SchedulerDecision.STOP)"),
    B("hyperband error keeps rung record", HB, "        super().on_trial_error(trial)\n        self._cleanup_trial(str(trial.trial_id), trial_decision=SchedulerDecision.STOP)", "        super().on_trial_error(trial)"),
    B("sync error does not report slot", SY, "            self._report_as_failed(bracket_id, slot_in_rung)\n            # A failed trial is not pending anymore", "            # A failed trial is not pending anymore"),
    B("failed config not black-listed", GM, "        self.cleanup_pending(trial_id)\n        # Mark config as failed (which means it will not be suggested again)\n        self.state_transformer.mark_trial_failed(trial_id)",
      "        self.cleanup_pending(trial_id)"),
    B("cleanup polarity", GM, "            return x.trial_id != trial_id", "            return x.trial_id == trial_id"),
    B("failure sentinel via removed alias", DE, "        result_failed.metric_val = np.nan", "        result_failed.metric_val = np.NaN"),
    B("failure error without trial id", T, "                raise ValueError(f\"Trial - {trial_id} failed\")", "                raise ValueError(\"A trial failed\")"),
    E("predicate as lambda", GM, "        def filter_pred(x: PendingEvaluation) -> bool:\n            return x.trial_id != trial_id\n\n        self.state_transformer.filter_pending_evaluations(filter_pred)",
      "        self.state_transformer.filter_pending_evaluations(lambda ev: not (ev.trial_id == trial_id))"),
    E("error branch ordering", T, "                self.scheduler.on_trial_error(trial)\n                done_trials[trial_id] = (trial, status)\n\n            # For the case when",
      "                done_trials[trial_id] = (trial, status)\n                self.scheduler.on_trial_error(trial)\n\n            # For the case when"),
]

# ------------------------------------------------------------------------------------------------ C14
VARIANTS["C14"] = [
    B("label stored before pending dropped", MT, "                for resource in metric_vals.keys():\n                    self.drop_pending_evaluation(trial_id, resource=int(resource))",
      "                for resource in metric_vals.keys():\n                    pass"),
    B("register_pending without pending test", GM, "        if not state.is_pending(trial_id, resource=milestone):\n            assert not state.is_labeled(trial_id, resource=milestone), (",
      "        if True:\n            assert not state.is_labeled(trial_id, resource=milestone), ("),
    B("ignore_data not honoured for searcher", HB, "        if not ignore_data:\n            self.searcher.on_trial_result(", "        if True:\n            self.searcher.on_trial_result("),
    B("ignore_data uses strict less", HP, "        ignore_data = (resume_from is not None) and (resource <= resume_from)", "        ignore_data = (resume_from is not None) and (resource < resume_from)"),
    B("double update not prevented", HB, "                    if resource == largest_update_resource:\n                        do_update = False  # Do not update again\n                    else:\n                        record.largest_update_resource = resource",
      "                    record.largest_update_resource = resource"),
    B("complete forwards always", HB, "            if resource > largest_update_resource:\n                super().on_trial_complete(trial, result)", "            if resource >= largest_update_resource:\n                super().on_trial_complete(trial, result)"),
    B("rungs policy updates at any level", HB, "            if resource in self.rung_levels or resource == self.max_t:", "            if True:"),
    B("remove_case although kept", HB, "            if (rem_result is not None) and (not record.keep_case):", "            if rem_result is not None:"),
    B("append_trial keeps predictor", MT, "        self._predictor = None  # Invalidate\n        self._state.append_pending(trial_id, config=config, resource=resource)", "        self._state.append_pending(trial_id, config=config, resource=resource)"),
    B("snapshot overwritten before update", HB, "                do_update = self._update_searcher(trial_id, config, result, task_info)\n", "                do_update = True\n"),
    E("guard inverted with early exit", GM, "        if not state.is_pending(trial_id, resource=milestone):\n            assert not state.is_labeled(trial_id, resource=milestone), (",
      "        if not (state.is_pending(trial_id, resource=milestone)):\n            assert not state.is_labeled(trial_id, resource=milestone), ("),
    E("equality operands swapped", HB, "                    if resource == largest_update_resource:", "                    if largest_update_resource == resource:"),
    E("ignore_data without parentheses", HP, "        ignore_data = (resume_from is not None) and (resource <= resume_from)", "        ignore_data = resume_from is not None and resume_from >= resource"),
]

# ------------------------------------------------------------------------------------------------ C03
VARIANTS["C03"] = [
    B("compare before insert", HS, "                        rung.add(RungEntry(trial_id=trial_id, metric_val=metric_val))\n                        task_continues = self._task_continues(\n                            trial_id=trial_id,\n                            metric_val=metric_val,\n                            rung=rung,\n                        )",
      "                        task_continues = self._task_continues(\n                            trial_id=trial_id,\n                            metric_val=metric_val,\n                            rung=rung,\n                        )\n                        rung.add(RungEntry(trial_id=trial_id, metric_val=metric_val))"),
    B("strict comparison for min", HS, "        return metric_val <= cutoff if self._mode == \"min\" else metric_val >= cutoff", "        return metric_val < cutoff if self._mode == \"min\" else metric_val >= cutoff"),
    B("same direction for both modes", HS, "        return metric_val <= cutoff if self._mode == \"min\" else metric_val >= cutoff", "        return metric_val <= cutoff if self._mode == \"min\" else metric_val <= cutoff"),
    B("re-entering a rung", HS, "                if not (resource < milestone or trial_id in rung):", "                if not (resource < milestone):"),
    B("quantile needs three entries", HS, "        if len_data < 2:\n            return None", "        if len_data < 3:\n            return None"),
    B("scan all rungs", HS, "            for rung in self._milestone_rungs(skip_rungs):", "            for rung in self._rungs:"),
    B("max_t may continue", HB, "        if result[self._resource_attr] < self._max_t:\n            ret_dict.update(", "        if result[self._resource_attr] <= self._max_t:\n            ret_dict.update("),
    B("quantile is next over level", HB, "        promote_quantiles = [x / y for x, y in zip(rung_levels, rung_levels_plus_maxt)]", "        promote_quantiles = [y / x for x, y in zip(rung_levels, rung_levels_plus_maxt)]"),
    B("rush overrides base decision", HR, "        if not task_continues:\n            return False\n        if self._is_in_points_to_evaluate(trial_id):", "        if self._is_in_points_to_evaluate(trial_id):"),
    B("id set not updated", HS, "        self.data.add(entry)\n        self._trial_ids.add(entry.trial_id)", "        self.data.add(entry)"),
    E("dual pair with swapped arms", HS, "        return metric_val <= cutoff if self._mode == \"min\" else metric_val >= cutoff", "        return metric_val >= cutoff if self._mode == \"max\" else metric_val <= cutoff"),
    E("operands swapped", HS, "        return metric_val <= cutoff if self._mode == \"min\" else metric_val >= cutoff", "        return cutoff >= metric_val if self._mode == \"min\" else cutoff <= metric_val"),
    E("guard via De Morgan", HS, "                if not (resource < milestone or trial_id in rung):", "                if resource >= milestone and trial_id not in rung:"),
    E("none test reversed", HS, "        if cutoff is None:\n            return True\n        return metric_val", "        if cutoff is not None:\n            pass\n        else:\n            return True\n        return metric_val"),
]

# ------------------------------------------------------------------------------------------------ C04
VARIANTS["C04"] = [
    B("promotion not marked", HP, "        if trial_id is not None:\n            self._mark_as_promoted(rung, pos)\n            ret_dict = {", "        if trial_id is not None:\n            ret_dict = {"),
    B("promotable ignores flag", HP, "            if self._is_promotable_trial(entry, resource):\n                result = (entry.trial_id, pos)", "            if True:\n                result = (entry.trial_id, pos)"),
    B("pause one level late", HP, "            \"task_continues\": not milestone_reached,", "            \"task_continues\": True,"),
    B("sign flipped", HP, "        sign = 1 - 2 * (self._mode == \"min\")", "        sign = 1 - 2 * (self._mode == \"max\")"),
    B("equality rejected", HP, "        if result is not None and sign * (metric_val - cutoff) < 0:", "        if result is not None and sign * (metric_val - cutoff) <= 0:"),
    B("promotion above cap", HP, "            if _milestone < self._effective_max_t():\n                result = self._find_promotable_trial(_rung)", "            if True:\n                result = self._find_promotable_trial(_rung)"),
    B("rush ignores base", HR, "        task_continues = super()._is_promotable_trial(entry, resource)\n        return self._decider.task_continues(\n            task_continues, entry.trial_id,", "        task_continues = True\n        return self._decider.task_continues(\n            task_continues, entry.trial_id,"),
    B("pasha cap can shrink", PA, "                self.current_rung_idx += 1", "                self.current_rung_idx -= 1"),
    B("max_resource not set on promotion", HB, "                extra_kwargs = record.config.copy()\n                extra_kwargs[self.max_resource_attr] = next_milestone", "                extra_kwargs = record.config.copy()"),
    B("new config although promotable", FI, "        if promote_trial_id is not None:\n            return TrialSuggestion.resume_suggestion(", "        if promote_trial_id is not None and self.time_keeper is None:\n            return TrialSuggestion.resume_suggestion("),
    E("sign written as conditional", HP, "        sign = 1 - 2 * (self._mode == \"min\")", "        sign = -1 if self._mode == \"min\" else 1"),
    E("cap test reversed", HP, "            if _milestone < self._effective_max_t():", "            if self._effective_max_t() > _milestone:"),
    E("accumulate via assignment", HC, "                sum_costs += entry.cost_val", "                sum_costs = sum_costs + entry.cost_val"),
]

# ------------------------------------------------------------------------------------------------ C05
VARIANTS["C05"] = [
    B("next_job may return None", SYM, "        slot_in_rung = self._brackets[bracket_id].next_free_slot()\n        assert slot_in_rung is not None, \"Newly created bracket has to have a free slot\"\n        return bracket_id, slot_in_rung",
      "        slot_in_rung = self._brackets[bracket_id].next_free_slot()\n        return bracket_id, slot_in_rung"),
    B("slot overwritten", SYB, "        assert (\n            metric_val is None\n        ), f\"Slot at {pos} already has metric_val = {metric_val}:\\n\" + str(result)\n", ""),
    B("promote before rung full", SYB, "            self._first_free_pos >= len(rung) and self.num_pending_slots() == 0", "            self._first_free_pos >= len(rung)"),
    B("sort includes failed", SYB, "            for x in sorted(rung_valid, key=itemgetter(1), reverse=mode == \"max\")[", "            for x in sorted(rung, key=itemgetter(1), reverse=mode == \"max\")["),
    B("reverse for min", SYB, "reverse=mode == \"max\")[", "reverse=mode == \"min\")["),
    B("no failed report when no config", SY, "            self._report_as_failed(bracket_id, slot_in_rung)\n        return suggestion", "        return suggestion"),
    B("pending entry removed before result returned", SY, "                slot_in_rung.metric_val = metric_val\n                self._on_result((bracket_id, slot_in_rung))\n                # Remove it from pending slots\n                del self._trial_to_pending_slot[trial_id]",
      "                slot_in_rung.metric_val = metric_val\n                # Remove it from pending slots\n                del self._trial_to_pending_slot[trial_id]"),
    B("brackets do not cycle", SYM, "        offset = bracket_id % self.num_bracket_offsets\n        self._bracket_id_to_offset.append(offset)\n        self._brackets.append(", "        offset = min(bracket_id, self.num_bracket_offsets - 1)\n        self._bracket_id_to_offset.append(offset)\n        self._brackets.append("),
    B("nan alias", SY, "            metric_val=np.nan,", "            metric_val=np.NAN,"),
    E("completeness operands swapped", SYB, "            self._first_free_pos >= len(rung) and self.num_pending_slots() == 0", "            self.num_pending_slots() == 0 and len(rung) <= self._first_free_pos"),
    E("key as lambda", SYB, "key=itemgetter(1), reverse=mode == \"max\")[", "key=lambda x: x[1], reverse=mode == \"max\")["),
]

# ------------------------------------------------------------------------------------------------ C06
VARIANTS["C06"] = [
    B("no postprocessing for resumed", SCH, "            if ret_val.config is not None:\n                ret_val = TrialSuggestion(", "            if ret_val.config is not None and ret_val.spawn_new_trial_id:\n                ret_val = TrialSuggestion("),
    B("constants dropped", SCH, "        new_config = self.config_space.copy()\n        new_config.update(cast_config_values(config, config_space=self.config_space))", "        new_config = dict()\n        new_config.update(cast_config_values(config, config_space=self.config_space))"),
    B("initial points from the back", SR, "            return self._points_to_evaluate.pop(0)", "            return self._points_to_evaluate.pop()"),
    B("random before initial", RG, "        new_config = self._next_initial_config()\n        if new_config is None:\n            new_config = self._get_random_config()", "        new_config = self._get_random_config()\n        if new_config is None:\n            new_config = self._next_initial_config()"),
    B("duplicates kept in imputation", SR, "        if config_tpl not in excl_set:\n            result.append(config)", "        if True:\n            result.append(config)"),
    B("returned config not recorded", SBS, "        if not self._allow_duplicates and new_config is not None:\n            self._excl_list.add(new_config)", "        if not self._allow_duplicates and new_config is not None:\n            pass"),
    B("excluded config returned", SBS, "            if no_exclusion or not exclusion_list.contains(_config):\n                new_config = _config", "            if True:\n                new_config = _config"),
    B("grid index advanced twice", RG, "            self._next_index += 1\n            if self._all_initial_configs.contains(candidate):\n                candidate = None", "            self._next_index += 1\n            if self._all_initial_configs.contains(candidate):\n                candidate = None\n                self._next_index += 1"),
    B("grid restarts without allow_duplicates", RG, "            if self._allow_duplicates and self._next_index == num_combinations:", "            if self._next_index == num_combinations:"),
    B("pbt perturbation not clipped", PBT, "                    new_config[key] = hp_range.cast(\n                        np.clip(\n                            config[key] * multiplier, hp_range.lower, hp_range.upper\n                        )\n                    )", "                    new_config[key] = hp_range.cast(config[key] * multiplier)"),
    B("failed trials not excluded", "syne_tune/optimizer/schedulers/searchers/bayesopt/datatypes/tuning_job_state.py", "        _elist = [x.trial_id for x in self.pending_evaluations] + self.failed_trials", "        _elist = [x.trial_id for x in self.pending_evaluations]"),
    E("pop(0) via index", SR, "        if self._points_to_evaluate:\n            return self._points_to_evaluate.pop(0)", "        if len(self._points_to_evaluate) > 0:\n            return self._points_to_evaluate.pop(0)"),
    E("guard order", SBS, "        if not self._allow_duplicates and new_config is not None:\n            self._excl_list.add(new_config)", "        if new_config is not None and not self._allow_duplicates:\n            self._excl_list.add(new_config)"),
]

# ------------------------------------------------------------------------------------------------ C07
VARIANTS["C07"] = [
    B("decoded value not clipped", HI, "        hp = np.clip(scaling.from_internal(internal_value), lower_bound, upper_bound)", "        hp = scaling.from_internal(internal_value)"),
    B("integer decode not clipped", HI, "        return int(np.clip(round(value), self.lower_bound, self.upper_bound))", "        return int(round(value))"),
    B("binary encoder for any categorical", HI, "                elif num_categories == 2:\n                    _cls = HyperparameterRangeCategoricalBinary", "                elif num_categories >= 2:\n                    _cls = HyperparameterRangeCategoricalBinary"),
    B("nn encoder for one value", HI, "                if isinstance(hp_range, OrdinalNearestNeighbor) and num_categories > 1:", "                if isinstance(hp_range, OrdinalNearestNeighbor):"),
    B("sampler name collides", CS, "        def __str__(self):\n            return \"ReverseLogUniform\"\n", ""),
    B("public attribute not a ctor argument", CS, "        self.lower = lower\n        self.upper = upper\n\n    @property\n    def value_type(self):\n        return float", "        self.lower = lower\n        self.upper = upper\n        self.width = upper - lower\n\n    @property\n    def value_type(self):\n        return float"),
    B("scaling arms swapped", "syne_tune/optimizer/schedulers/searchers/utils/scaling.py", "    if is_log_space(hp_range):\n        return LogScaling()\n    elif is_reverse_log_space(hp_range):\n        return ReverseLogScaling()", "    if is_log_space(hp_range):\n        return ReverseLogScaling()\n    elif is_reverse_log_space(hp_range):\n        return LogScaling()"),
    B("grid name unresolved", CS, "    elif sampler_cls == \"Grid\":\n        return Grid()\n", ""),
    B("truncating cast", CS, "    def cast(self, value):\n        return int(round(value))", "    def cast(self, value):\n        return int(value + 0.5)"),
    E("clip with keyword args", HI, "        hp = np.clip(scaling.from_internal(internal_value), lower_bound, upper_bound)", "        hp = np.clip(scaling.from_internal(internal_value), lower_bound, upper_bound)  # stays inside"),
    E("rint instead of round", HI, "            return int(np.round(y))", "            return int(np.rint(y))"),
    E("dispatch test reordered", HI, "                elif num_categories == 2:\n                    _cls = HyperparameterRangeCategoricalBinary", "                elif 2 == num_categories:\n                    _cls = HyperparameterRangeCategoricalBinary"),
]

# ------------------------------------------------------------------------------------------------ C08
VARIANTS["C08"] = [
    B("missing transpose", PU, "    posterior_means = anp.matmul(anp.transpose(linv_k_tr_te), pred_mat) + anp.reshape(", "    posterior_means = anp.matmul(linv_k_tr_te, pred_mat) + anp.reshape("),
    B("variance summed over wrong axis", PU, "        anp.square(linv_k_tr_te), axis=0\n    )\n    return posterior_means, anp.reshape(", "        anp.square(linv_k_tr_te), axis=1\n    )\n    return posterior_means, anp.reshape("),
    B("variance floor removed", PU, "        anp.maximum(posterior_variances, MIN_POSTERIOR_VARIANCE), (-1,)", "        posterior_variances, (-1,)"),
    B("variance depends on targets", PU, "        anp.square(linv_k_tr_te), axis=0\n    )\n    return posterior_means, anp.reshape(", "        anp.square(linv_k_tr_te), axis=0\n    ) + 0.0 * anp.sum(pred_mat)\n    return posterior_means, anp.reshape("),
    B("kernel arguments swapped", PU, "    k_tr_te = _kernel(features, test_features) * covariance_scale\n    linv_k_tr_te = aspl.solve_triangular(chol_fact, k_tr_te, lower=True)\n    posterior_means", "    k_tr_te = _kernel(test_features, features) * covariance_scale\n    linv_k_tr_te = aspl.solve_triangular(chol_fact, k_tr_te, lower=True)\n    posterior_means"),
    B("update uses other target", PU, "        target=target,\n        lvec=lvec,", "        target=pred_mean,\n        lvec=lvec,"),
    B("new row prepended", PU, "    pred_mat_new = anp.concatenate([pred_mat, pvec], axis=0)", "    pred_mat_new = anp.concatenate([pred_mat, pvec], axis=1)"),
    E("dot instead of matmul", PU, "    posterior_means = anp.matmul(anp.transpose(linv_k_tr_te), pred_mat) + anp.reshape(", "    posterior_means = anp.dot(anp.transpose(linv_k_tr_te), pred_mat) + anp.reshape("),
    E("renamed temporary", PU, "    sqnorm_predmat = anp.sum(anp.square(pred_mat))", "    sqnorm_predmat = anp.sum(anp.square(pred_mat))  # ||P||^2"),
]

# ------------------------------------------------------------------------------------------------ C10
VARIANTS["C10"] = [
    B("advance without sign check", TK, "        assert step >= 0\n        self._current_time += step", "        self._current_time += step"),
    B("advance_to may go back", TK, "        self._current_time = max(to_time, self._current_time)", "        self._current_time = to_time"),
    B("counter not incremented", EV, "        heapq.heappush(self.event_heap, (event_time, self.events_added, event))\n        self.events_added += 1", "        heapq.heappush(self.event_heap, (event_time, self.events_added, event))"),
    B("tie-break dropped", EV, "(event_time, self.events_added, event))", "(event_time, 0, event))"),
    B("seed redrawn", TAB, "            seed = self._seed_for_trial.get(trial_id)\n            if seed is None:", "            seed = self._seed_for_trial.get(trial_id)\n            if not seed:"),
    B("exit not marked", SB, "        logger.debug(f\"Simulated time since start: {_time_start:.2f} secs\")\n        self._time_keeper.mark_exit()", "        logger.debug(f\"Simulated time since start: {_time_start:.2f} secs\")"),
    B("outside time charged twice", SB, "        self._advance_by_outside_time()\n        # Process all events in the past\n        self._process_events_until_now()\n        _time_start", "        self._advance_by_outside_time()\n        self._advance_by_outside_time()\n        # Process all events in the past\n        self._process_events_until_now()\n        _time_start"),
    B("foreign clock advance", RC, "        self.results.append(result)\n\n        if self.csv_file is not None:", "        self.results.append(result)\n        if self._tuner is not None:\n            self._tuner.trial_backend.time_keeper.advance(1.0)\n\n        if self.csv_file is not None:"),
    B("table row shared", "syne_tune/blackbox_repository/utils.py", "            res_dict = dict(zip(blackbox.objectives_names, objective_values[fidelity]))", "            res_dict = objective_values[fidelity]"),
    E("assert as if-raise", TK, "        assert step >= 0\n        self._current_time += step", "        assert 0 <= step\n        self._current_time += step"),
    E("max arguments swapped", TK, "        self._current_time = max(to_time, self._current_time)", "        self._current_time = max(self._current_time, to_time)"),
]

# ------------------------------------------------------------------------------------------------ C11
VARIANTS["C11"] = [
    B("global draw in scheduler", HB, "        distribution = self._scheduler.bracket_distribution()\n        return self.random_state.choice(a=distribution.size, p=distribution)", "        distribution = self._scheduler.bracket_distribution()\n        return np.random.choice(a=distribution.size, p=distribution)"),
    B("sampler without generator", SBS, "            return sample_random_configuration(\n                hp_ranges=self._hp_ranges,\n                random_state=self.random_state,\n                exclusion_list=exclusion_list,\n            )", "            return sample_random_configuration(\n                hp_ranges=self._hp_ranges,\n                random_state=None,\n                exclusion_list=exclusion_list,\n            )"),
    B("literal seed", PBT, "        self._random_state = np.random.RandomState(self.random_seed_generator())", "        self._random_state = np.random.RandomState(31415927)"),
    B("internal searcher keeps own stream", MB, "            self._random_searcher.set_random_state(self.random_state)", "            pass"),
    B("unsorted set of ids", PA, "                for pair in itertools.combinations(\n                    sorted(self.epoch_to_trials[epoch]), 2\n                ):", "                for pair in itertools.combinations(\n                    self.epoch_to_trials[epoch], 2\n                ):"),
    B("class-level shared state", PBT, "        self._trial_decisions_stack = deque()", "        PopulationBasedTraining._shared_stack = deque()\n        self._trial_decisions_stack = PopulationBasedTraining._shared_stack"),
    B("seed fallback on falsy", SS, "        if random_seed is None:\n            random_seed = generate_random_seed()", "        if not random_seed:\n            random_seed = generate_random_seed()"),
    E("sorted with key", PA, "                    sorted(self.epoch_to_trials[epoch]), 2", "                    sorted(self.epoch_to_trials[epoch], key=str), 2"),
    E("is None written the other way", SS, "        if random_seed is None:\n            random_seed = generate_random_seed()", "        if random_seed is not None:\n            pass\n        else:\n            random_seed = generate_random_seed()"),
]

# ------------------------------------------------------------------------------------------------ C15
VARIANTS["C15"] = [
    B("quantile q not mirrored", HS, "        q = self.prom_quant if self._is_min else 1 - self.prom_quant", "        q = self.prom_quant if self._is_min else self.prom_quant"),
    B("window fraction not mirrored", HS, "            left_pos = len_data - index - 1\n            g = 1 - frac_part", "            left_pos = len_data - index - 1\n            g = frac_part"),
    B("sort key sign lost", HS, "        sign = 1 if self._is_min else -1", "        sign = 1 if self._is_min else 1"),
    B("pbt sign constant", PBT, "        self._metric_op = 1.0 if self.mode == \"max\" else -1.0", "        self._metric_op = 1.0 if self.mode == \"max\" else 1.0"),
    B("best metric sort not mirrored", TS, "        metric_per_trial = sorted(metric_per_trial, key=lambda x: -x[1])", "        metric_per_trial = sorted(metric_per_trial, key=lambda x: x[1])"),
    B("best config argmin for both", ER, "            best_index = self.results.loc[:, metric_name].argmax()", "            best_index = self.results.loc[:, metric_name].argmin()"),
    B("rush better for max uses min", HR, "            better_val = max(\n                float(\"-inf\") if val1 is None else val1,", "            better_val = min(\n                float(\"-inf\") if val1 is None else val1,"),
    B("median rule negates for min", MS, "        if self.mode == \"max\":\n            new_metric *= -1", "        if self.mode == \"max\":\n            new_metric *= 1"),
    B("dehb sign used additively", DE, "                if metric_sign * (metric_val - target_metric_val) >= 0:", "                if metric_sign + (metric_val - target_metric_val) >= 0:"),
    B("pasha ranking not reversed", PA, "                    values_ranking = list(range(len(trial_ids) - 1, -1, -1))", "                    values_ranking = list(range(len(trial_ids)))"),
    E("sign via arithmetic", HS, "        sign = 1 if self._is_min else -1", "        sign = -1 if not self._is_min else 1"),
    E("mode test on max", PBT, "        self._metric_op = 1.0 if self.mode == \"max\" else -1.0", "        self._metric_op = -1.0 if self.mode == \"min\" else 1.0"),
    E("q arms swapped", HS, "        q = self.prom_quant if self._is_min else 1 - self.prom_quant", "        q = 1 - self.prom_quant if not self._is_min else self.prom_quant"),
]

# ------------------------------------------------------------------------------------------------ C16
VARIANTS["C16"] = [
    B("state key renamed on one side", RG, "            next_index=self._next_index,", "            next_idx=self._next_index,"),
    B("key written but not restored", SBS, "        self.random_state.set_state(state[\"random_state\"])", "        pass"),
    B("grid clone with default seed", RG, "        new_searcher.hp_values_combinations = self.hp_values_combinations.copy()\n", ""),
    B("allow_duplicates dropped", RG, "            shuffle_config=self._shuffle_config,\n            allow_duplicates=self._allow_duplicates,\n        )", "            shuffle_config=self._shuffle_config,\n        )"),
    B("debug_log None passed", RG, "            debug_log=False if self._debug_log is None else self._debug_log,", "            debug_log=self._debug_log,"),
    B("co-initialised attribute forgotten", SBS, "            self._restrict_configurations = state[k]\n            self._rc_returned_pos = set()\n        else:\n            self._restrict_configurations = None\n            self._rc_returned_pos = None", "            self._restrict_configurations = state[k]\n        else:\n            self._restrict_configurations = None"),
    B("exclusion list keys differ", "syne_tune/optimizer/schedulers/searchers/utils/exclusion_list.py", "            \"excl_set\": list(self.excl_set),", "            \"excluded\": list(self.excl_set),"),
    B("model param key differs", "syne_tune/optimizer/schedulers/searchers/bayesopt/gpautograd/mean.py", "        self.set_mean_value(param_dict[\"mean_value\"])", "        self.set_mean_value(param_dict[\"mean\"])"),
    B("pending not decoded", "syne_tune/optimizer/schedulers/searchers/gp_searcher_utils.py", "        \"pending_evaluations\": pending_evaluations,\n    }", "        \"pending\": pending_evaluations,\n    }"),
    E("state dict built with literal", "syne_tune/optimizer/schedulers/searchers/searcher_base.py", "        return dict(\n            super().get_state(),\n            random_state=self.random_state.get_state(),\n        )", "        state = super().get_state()\n        state[\"random_state\"] = self.random_state.get_state()\n        return state"),
    E("ctor argument order", RG, "            shuffle_config=self._shuffle_config,\n            allow_duplicates=self._allow_duplicates,\n        )", "            allow_duplicates=self._allow_duplicates,\n            shuffle_config=self._shuffle_config,\n        )"),
]

# ------------------------------------------------------------------------------------------------ C17
VARIANTS["C17"] = [
    B("decision column missing", RC, "        result[ST_DECISION] = decision\n", ""),
    B("trial id column wrong", RC, "        result[ST_TRIAL_ID] = trial.trial_id", "        result[ST_TRIAL_ID] = status"),
    B("config columns only for floats", RC, "        for key in trial.config:\n            result[f\"config_{key}\"] = trial.config[key]", "        for key in trial.config:\n            if isinstance(trial.config[key], float):\n                result[f\"config_{key}\"] = trial.config[key]"),
    B("results not stored at end", RC, "        # they are saved every ``results_update_interval`` seconds)\n        self.store_results()", "        # they are saved every ``results_update_interval`` seconds)\n        pass"),
    B("max computed with min", TS, "                    self.max_metrics[metric_name] = max(\n                        self.max_metrics.get(metric_name, -np_inf), current_metric", "                    self.max_metrics[metric_name] = min(\n                        self.max_metrics.get(metric_name, -np_inf), current_metric"),
    B("count per metric", TS, "        self.last_metrics = metrics\n        self.count += 1", "        self.last_metrics = metrics\n        self.count += len(metrics)"),
    B("per-trial statistics not fed", TS, "            self.overall_metric_statistics.add(new_result)\n            self.trial_metric_statistics[trial_id].add(new_result)", "            self.overall_metric_statistics.add(new_result)"),
    B("mode of first metric for all", UT, "        metric_mode = metric_mode[metric_index]", "        metric_mode = metric_mode[0]"),
    B("best config of other trial", T, "        config = self.trial_backend._trial_dict[trial_id].config", "        config = self.trial_backend._trial_dict[0].config"),
    E("row keys in other order", RC, "        result[ST_DECISION] = decision\n        result[ST_STATUS] = status\n", "        result[ST_STATUS] = status\n        result[ST_DECISION] = decision\n"),
    E("sum with operands swapped?", TS, "        self.last_metrics = metrics\n        self.count += 1", "        self.last_metrics = metrics\n        self.count += 1  # one per result"),
]

# ------------------------------------------------------------------------------------------------ C18
VARIANTS["C18"] = [
    B("writer tag differs", RP, "    print(f\"[{ST_SAGEMAKER_METRIC_TAG}]: {_serialize_report_dict(kwargs)}\")", "    print(f\"[{ST_SAGEMAKER_METRIC_TAG}] {_serialize_report_dict(kwargs)}\")"),
    B("regex anchored", RP, "    regex = r\"\\[\" + ST_SAGEMAKER_METRIC_TAG + r\"\\]: (\\{.*\\})\"", "    regex = r\"^\\[\" + ST_SAGEMAKER_METRIC_TAG + r\"\\]: (\\{.*\\})\""),
    B("indent in json", UT, "        return json.dumps(x, default=np_encoder)", "        return json.dumps(x, default=np_encoder, indent=2)"),
    B("namespace check after stores", RP, "        assert not any(key.startswith(\"st_\") for key in kwargs), (\n            \"The metric prefix 'st_' is used by Syne Tune internals, \"\n            \"please use a metric name that does not start with 'st_'.\"\n        )\n        kwargs[ST_WORKER_TIMESTAMP] = time()", "        kwargs[ST_WORKER_TIMESTAMP] = time()"),
    B("counter not incremented", RP, "        kwargs[ST_WORKER_ITER] = self.iter\n        self.iter += 1", "        kwargs[ST_WORKER_ITER] = self.iter"),
    B("counter only with time", RP, "        self.iter = 0\n        if self.add_time:\n            self.start = perf_counter()", "        if self.add_time:\n            self.iter = 0\n            self.start = perf_counter()"),
    B("default hook returns None", UT, "        raise TypeError(\n            f\"Object of type {obj.__class__.__name__} is not JSON serializable\"\n        )\n", ""),
    B("size check after return", RP, "        assert sys.getsizeof(report_str) < 50_000\n        return report_str", "        return report_str"),
    B("print without newline", RP, "    print(f\"[{ST_SAGEMAKER_METRIC_TAG}]: {_serialize_report_dict(kwargs)}\")\n", "    print(f\"[{ST_SAGEMAKER_METRIC_TAG}]: {_serialize_report_dict(kwargs)}\", end=\"\")\n"),
    E("tag prefix built by concatenation", RP, "    regex = r\"\\[\" + ST_SAGEMAKER_METRIC_TAG + r\"\\]: (\\{.*\\})\"", "    regex = \"\\\\[\" + ST_SAGEMAKER_METRIC_TAG + \"\\\\]: (\\\\{.*\\\\})\""),
    E("increment written out", RP, "        self.iter += 1\n        _report_logger(**kwargs)", "        self.iter = self.iter + 1\n        _report_logger(**kwargs)"),
]

# ------------------------------------------------------------------------------------------------ C19
VARIANTS["C19"] = [
    B("strict dominance in all", ND, "            dominated = np.all(allocation <= X[mask], axis=1) * np.any(", "            dominated = np.all(allocation < X[mask], axis=1) * np.any("),
    B("dominated rows still dominate", ND, "        if mask[i]:\n            # An allocation is dominated", "        if True:\n            # An allocation is dominated"),
    B("front not removed", ND, "        remaining = remaining[~pareto_mask]", "        remaining = remaining[1:]"),
    B("priority is the order", MP, "        priorities = np.full(objectives.shape[0], len(order), dtype=int)\n        priorities[order] = np.arange(len(order))\n        return priorities", "        return np.array(order)"),
    B("rank read at first position", MO, "                    new_priority_rank = ranks[-1]", "                    new_priority_rank = ranks[0]"),
    B("stop threshold inverted", MO, "                    if new_priority_rank > 1 / self.rf:", "                    if new_priority_rank < 1 / self.rf:"),
    B("trial not recorded when stopped", MO, "                        action = SchedulerDecision.STOP\n                recorded[trial_id] = metrics", "                        action = SchedulerDecision.STOP\n                        break\n                recorded[trial_id] = metrics"),
    B("signs for list mode inverted", MO, "                metric: 1 if mode == \"min\" else -1", "                metric: 1 if mode == \"max\" else -1"),
    E("and instead of product", ND, "            dominated = np.all(allocation <= X[mask], axis=1) * np.any(\n                allocation < X[mask], axis=1\n            )", "            dominated = np.all(allocation <= X[mask], axis=1) & np.any(\n                allocation < X[mask], axis=1\n            )"),
    E("inversion by loop", MP, "        priorities[order] = np.arange(len(order))\n        return priorities", "        for rank, item in enumerate(order):\n            priorities[item] = rank\n        return priorities"),
]

# ------------------------------------------------------------------------------------------------ C20
VARIANTS["C20"] = [
    B("pause deletes checkpoint", TB, "        self._pause_trial(trial_id=trial_id, result=result)\n        self._cleanup_after_trial(trial_id)", "        self._pause_trial(trial_id=trial_id, result=result)\n        if self.delete_checkpoints:\n            self.delete_checkpoint(trial_id=trial_id)\n        self._cleanup_after_trial(trial_id)"),
    B("delete regardless of flag", TB, "        if self.delete_checkpoints:\n            logger.info(f\"Removing checkpoints for trial_id = {trial_id}\")\n            self.delete_checkpoint(trial_id=trial_id)", "        if True:\n            logger.info(f\"Removing checkpoints for trial_id = {trial_id}\")\n            self.delete_checkpoint(trial_id=trial_id)"),
    B("copy after schedule", TB, "        if checkpoint_trial_id is not None:\n            self.copy_checkpoint(\n                src_trial_id=checkpoint_trial_id, tgt_trial_id=trial_id\n            )\n        self.trial_ids.append(trial_id)\n        self._schedule(trial_id=trial_id, config=config)\n        now = datetime.now()",
      "        self.trial_ids.append(trial_id)\n        self._schedule(trial_id=trial_id, config=config)\n        if checkpoint_trial_id is not None:\n            self.copy_checkpoint(\n                src_trial_id=checkpoint_trial_id, tgt_trial_id=trial_id\n            )\n        now = datetime.now()"),
    B("callback deletes promoted too", "syne_tune/callbacks/remove_checkpoints_callback.py", "        for trial_id in self._tuner.scheduler.trials_checkpoints_can_be_removed():\n            self._tuner.trial_backend.delete_checkpoint(trial_id)", "        for trial_id in self._tuner.scheduler.trials_checkpoints_can_be_removed():\n            self._tuner.trial_backend.delete_checkpoint(trial_id)\n            self._tuner.trial_backend.delete_checkpoint(trial_id + 1)"),
    B("released before rung complete", SYB, "        if is_complete:\n            self.current_rung += 1", "        if True:\n            self.current_rung += 1"),
    B("list not emptied", SY, "        result = self._trials_checkpoints_can_be_removed\n        self._trials_checkpoints_can_be_removed = []\n        return result", "        result = self._trials_checkpoints_can_be_removed\n        return result"),
    B("remaining includes promoted", SYB, "    remaining_list = [x[0] for x in rung if x[0] not in top_set]", "    remaining_list = [x[0] for x in rung]"),
    B("resume of non-paused", TB, "        assert (\n            trial.status == Status.paused\n        ), f\"Cannot resume trial_id {trial_id} from status '{trial.status}', must be '{Status.paused}'\"\n", ""),
    E("flag test reversed", TB, "        if self.delete_checkpoints:\n            logger.info(f\"Removing checkpoints for trial_id = {trial_id}\")", "        if not (not self.delete_checkpoints):\n            logger.info(f\"Removing checkpoints for trial_id = {trial_id}\")"),
    E("set built with comprehension name", SYB, "    top_set = set(top_list)\n    remaining_list = [x[0] for x in rung if x[0] not in top_set]", "    promoted = set(top_list)\n    remaining_list = [x[0] for x in rung if x[0] not in promoted]"),
]


# ---- variants for the clauses added after the third round of seeded defects
WP = "syne_tune/optimizer/schedulers/searchers/bayesopt/gpautograd/warping.py"
SH = "syne_tune/optimizer/schedulers/utils/successive_halving.py"
TJ = "syne_tune/optimizer/schedulers/searchers/bayesopt/datatypes/tuning_job_state.py"

VARIANTS["C08"] += [
    E("WarpedKernel.diagonal as an if statement with the right polarity", WP,
      """        warped_X = self._apply_warpings(X) if self.kernel.diagonal_depends_on_X() else X
        return self.kernel.diagonal(warped_X)""",
      """        if self.kernel.diagonal_depends_on_X():
            X = self._apply_warpings(X)
        return self.kernel.diagonal(X)"""),
    B("WarpedKernel.forward passes the raw second argument", WP,
      """            warped_X2 = self._apply_warpings(X2)
        return self.kernel(warped_X1, warped_X2)""",
      """            warped_X2 = X2
        return self.kernel(warped_X1, warped_X2)""", expect="WarpedKernel.forward"),
]
VARIANTS["C03"] += [
    E("rung levels with ** instead of np.power", SH,
      "int(round(min_t * np.power(rf, k))) for k in range(max_rungs)",
      "int(round(min_t * rf ** k)) for k in range(max_rungs)"),
    B("rung levels from the previous rounded level", SH,
      "int(round(min_t * np.power(rf, k))) for k in range(max_rungs)",
      "int(round(rung_levels[-1] * rf)) if k else int(min_t) for k in range(max_rungs)"),
]
VARIANTS["C06"] += [
    E("evaluation_failed marks the trial failed before dropping its pending evaluation", MB,
      """        self.state_transformer.drop_pending_evaluation(trial_id)
        # Mark config as failed (which means it will be blacklisted in
        # future get_config calls)
        self.state_transformer.mark_trial_failed(trial_id)""",
      """        self.state_transformer.mark_trial_failed(trial_id)
        self.state_transformer.drop_pending_evaluation(trial_id)"""),
    E("all_configurations grows the list in place", TJ,
      """        _elist = set(_elist + observed_trial_ids)""",
      """        _elist.extend(observed_trial_ids)
        _elist = set(_elist)"""),
    B("evaluation_failed no longer marks the trial failed", MB,
      """        self.state_transformer.drop_pending_evaluation(trial_id)
        # Mark config as failed (which means it will be blacklisted in
        # future get_config calls)
        self.state_transformer.mark_trial_failed(trial_id)""",
      """        self.state_transformer.drop_pending_evaluation(trial_id)"""),
]
VARIANTS["C15"] += [
    E("get_top_list sorts with a lambda key instead of itemgetter", SYB,
      "sorted(rung_valid, key=itemgetter(1), reverse=mode == \"max\")",
      "sorted(rung_valid, key=lambda x: x[1], reverse=mode == \"max\")"),
    B("get_top_list adds a trial-id tie break that is reversed with the metric", SYB,
      "sorted(rung_valid, key=itemgetter(1), reverse=mode == \"max\")",
      "sorted(rung_valid, key=lambda x: (x[1], x[0] is None), reverse=mode == \"max\")"),
]
VARIANTS["C20"] += [
    E("DEHB pause condition through a local flag", DE,
      """                if self._support_pause_resume and ext_slot.bracket_id == 0:
                    trial_decision = SchedulerDecision.PAUSE""",
      """                can_pause = self._support_pause_resume and ext_slot.bracket_id == 0
                if can_pause:
                    trial_decision = SchedulerDecision.PAUSE"""),
    B("synchronous Hyperband stops a trial at the top rung level", SY,
      """                # Trial should be paused
                trial_decision = SchedulerDecision.PAUSE""",
      """                # Trial should be paused
                trial_decision = SchedulerDecision.PAUSE
                if milestone >= self.max_resource_level:
                    trial_decision = SchedulerDecision.STOP"""),
]
VARIANTS["C11"] += [
    E("_filter_constant_hyperparameters tests membership in a list", "syne_tune/optimizer/schedulers/searchers/utils/hp_ranges.py",
      "    nonconst_keys = set(non_constant_hyperparameter_keys(config_space))",
      "    nonconst_keys = non_constant_hyperparameter_keys(config_space)"),
]

VARIANTS["C10"] += [
    E("running maximum with exchanged arguments", SB,
      """            time_final_result = max(time_final_result, _time_result)""",
      """            time_final_result = max(_time_result, time_final_result)"""),
    B("completion time taken from the last listed result", SB,
      """            time_final_result = max(time_final_result, _time_result)""",
      """            time_final_result = _time_result"""),
]

_PBTF = "syne_tune/optimizer/schedulers/pbt.py"
VARIANTS["C20"] += [
    B("PBT: the replaced trial is stopped without being marked", _PBTF,
      """            # its checkpoint can be removed
            state.stopped = True
""",
      """            # its checkpoint can be removed
"""),
    B("PBT: the trial that reached max_t is stopped without being marked", _PBTF,
      """        if cost >= self.max_t:
            state.stopped = True
            return SchedulerDecision.STOP""",
      """        if cost >= self.max_t:
            return SchedulerDecision.STOP"""),
    E("PBT: the mark is set through the state table", _PBTF,
      """        if cost >= self.max_t:
            state.stopped = True
            return SchedulerDecision.STOP""",
      """        if cost >= self.max_t:
            self._trial_state[trial_id].stopped = True
            return SchedulerDecision.STOP"""),
]
VARIANTS["C08"] += [
    B("log-determinant as the log of the product of the diagonal", PU,
      "    logdet_cholfact = 2.0 * anp.sum(anp.log(anp.abs(anp.diag(chol_fact))))",
      "    logdet_cholfact = 2.0 * anp.log(anp.abs(anp.prod(anp.diag(chol_fact))))"),
    E("log-determinant with the logs bound to a local first", PU,
      "    logdet_cholfact = 2.0 * anp.sum(anp.log(anp.abs(anp.diag(chol_fact))))",
      "    logs = anp.log(anp.abs(anp.diag(chol_fact)))\n    logdet_cholfact = 2.0 * anp.sum(logs)"),
]
VARIANTS["C05"] += [
    B("one-slot rung picked by min / max over the raw rung", "syne_tune/optimizer/schedulers/synchronous/hyperband_bracket.py",
      "    # Failed trials insert NaN's\n    rung_valid = [x for x in rung if not np.isnan(x[1])]",
      "    if new_len == 1:\n        b = (max if mode == 'max' else min)(rung, key=itemgetter(1))[0]\n        return [b], [x[0] for x in rung if x[0] != b]\n    # Failed trials insert NaN's\n    rung_valid = [x for x in rung if not np.isnan(x[1])]"),
]

_SEEDSEL_OLD = """        seed = None
        if self._seed is not None:
            seed = self._seed
        elif isinstance(self.blackbox, BlackboxTabular):
            seed = self._seed_for_trial.get(trial_id)
            if seed is None:
                seed = np.random.randint(0, self.blackbox.num_seeds)
                self._seed_for_trial[trial_id] = seed
"""
for _p in ("C10", "C11"):
    VARIANTS[_p] += [
        E("backend seed loaded first, per-trial lookup under `seed is None`", TAB, _SEEDSEL_OLD,
          """        seed = self._seed
        if seed is None and isinstance(self.blackbox, BlackboxTabular):
            seed = self._seed_for_trial.get(trial_id)
            if seed is None:
                seed = np.random.randint(0, self.blackbox.num_seeds)
                self._seed_for_trial[trial_id] = seed
"""),
        B("per-trial lookup also made when a backend seed is given", TAB, _SEEDSEL_OLD,
          """        seed = self._seed
        if isinstance(self.blackbox, BlackboxTabular):
            seed = self._seed_for_trial.get(trial_id)
            if seed is None:
                seed = np.random.randint(0, self.blackbox.num_seeds)
                self._seed_for_trial[trial_id] = seed
"""),
    ]

VARIANTS["C01"] += [
    B("result handed to the scheduler without being recorded as last seen", "syne_tune/tuner.py",
      """                self.last_seen_result_per_trial[trial_id] = result
                decision = self.scheduler.on_trial_result(trial=trial, result=result)""",
      """                decision = self.scheduler.on_trial_result(trial=trial, result=result)"""),
    B("last seen result recorded only when the trial goes on", "syne_tune/tuner.py",
      """                self.last_seen_result_per_trial[trial_id] = result
                decision = self.scheduler.on_trial_result(trial=trial, result=result)""",
      """                decision = self.scheduler.on_trial_result(trial=trial, result=result)
                if decision == SchedulerDecision.CONTINUE:
                    self.last_seen_result_per_trial[trial_id] = result"""),
    E("last seen result recorded through a local alias of the table", "syne_tune/tuner.py",
      """                self.last_seen_result_per_trial[trial_id] = result
                decision = self.scheduler.on_trial_result(trial=trial, result=result)""",
      """                seen = self.last_seen_result_per_trial
                seen[trial_id] = result
                decision = self.scheduler.on_trial_result(trial=trial, result=result)"""),
]

_SIM = "syne_tune/backend/simulator_backend/simulator_backend.py"
VARIANTS["C01"] += [
    B("start event processed without the trial becoming busy", _SIM,
      """        self._busy_trial_ids.add(trial_id)

    def _process_complete_event""",
      """        pass

    def _process_complete_event"""),
    B("stop event leaves the trial in the busy set", _SIM,
      """        self._simulator_state.remove_events(trial_id)
        if trial_id in self._busy_trial_ids:
            self._busy_trial_ids.remove(trial_id)""",
      """        self._simulator_state.remove_events(trial_id)"""),
    B("completion frees the worker only for trials that never reported", _SIM,
      """            trial_result.training_end_time = training_end_time
        else:""",
      """            trial_result.training_end_time = training_end_time
            return
        else:"""),
    E("busy set: discard instead of test and remove", _SIM,
      """        self._simulator_state.remove_events(trial_id)
        if trial_id in self._busy_trial_ids:
            self._busy_trial_ids.remove(trial_id)""",
      """        self._simulator_state.remove_events(trial_id)
        self._busy_trial_ids.discard(trial_id)"""),
]

_CP = "syne_tune/optimizer/schedulers/hyperband_cost_promotion.py"
VARIANTS["C04"] += [
    B("cost-aware scan: the threshold test is inverted", _CP,
      "                if sum_costs > cost_threshold:\n                    break  # Nothing to promote",
      "                if not sum_costs > cost_threshold:\n                    break  # Nothing to promote"),
    B("cost-aware scan: a rung with one entry promotes it", _CP,
      "        if len(rung) > 1:\n            cost_threshold",
      "        if len(rung) > 0:\n            cost_threshold"),
    E("cost-aware scan: threshold test written as continue-guard", _CP,
      "                if sum_costs > cost_threshold:\n                    break  # Nothing to promote\n                if self._is_promotable_trial(entry, rung.level):\n                    result = (entry.trial_id, pos)\n                    break",
      "                if sum_costs <= cost_threshold:\n                    if self._is_promotable_trial(entry, rung.level):\n                        result = (entry.trial_id, pos)\n                        break\n                else:\n                    break  # Nothing to promote"),
]

_HBB = "syne_tune/optimizer/schedulers/synchronous/hyperband_bracket.py"
VARIANTS["C05"] += [
    B("complete rung: hand-out position not reset", _HBB,
      "            self.current_rung += 1\n            self._first_free_pos = 0\n",
      "            self.current_rung += 1\n"),
    B("complete rung: index advanced only if the bracket goes on", _HBB,
      "            self.current_rung += 1\n            self._first_free_pos = 0\n            if not self.is_bracket_complete():\n                trials_not_promoted = self._promote_trials_at_rung_complete()",
      "            self._first_free_pos = 0\n            if self.current_rung + 1 < self.num_rungs:\n                self.current_rung += 1\n                trials_not_promoted = self._promote_trials_at_rung_complete()"),
    E("complete rung: reset before advance", _HBB,
      "            self.current_rung += 1\n            self._first_free_pos = 0\n",
      "            self._first_free_pos = 0\n            self.current_rung += 1\n"),
]

_SYH = "syne_tune/optimizer/schedulers/synchronous/hyperband.py"
VARIANTS["C05"] += [
    B("_suggest: promotion slot answered by a new trial (test inverted)", _SYH,
      "        if slot_in_rung.trial_id is not None:\n            # Paused trial to be resumed",
      "        if slot_in_rung.trial_id is None:\n            # Paused trial to be resumed"),
    B("_suggest: resumed trial not registered as pending", _SYH,
      "        if suggestion is not None:\n            assert trial_id not in self._trial_to_pending_slot, (",
      "        if suggestion is not None and suggestion.spawn_new_trial_id:\n            assert trial_id not in self._trial_to_pending_slot, ("),
    B("_suggest: new trial's id not written into the slot", _SYH,
      "                # Assign trial id to job descriptor\n                slot_in_rung.trial_id = trial_id\n",
      "                # Assign trial id to job descriptor\n"),
    B("_suggest: resumed trial is the id passed in", _SYH,
      "            # Paused trial to be resumed (``trial_id`` passed in is ignored)\n            trial_id = slot_in_rung.trial_id\n            _config = self._trial_to_config[trial_id]",
      "            # Paused trial to be resumed\n            _config = self._trial_to_config[slot_in_rung.trial_id]"),
    E("_suggest: slot id bound to a local first", _SYH,
      "        if slot_in_rung.trial_id is not None:\n            # Paused trial to be resumed",
      "        promoted_id = slot_in_rung.trial_id\n        if promoted_id is not None:\n            # Paused trial to be resumed"),
]

VARIANTS["C05"] += [
    B("DEHB: promoted trial not registered as pending", DE,
      "    ) -> TrialSuggestion:\n        # Register as pending\n        self._trial_to_pending_slot[trial_id] = ext_slot\n        # Modify entry to new milestone level",
      "    ) -> TrialSuggestion:\n        # Modify entry to new milestone level"),
    B("DEHB: promoted trial keeps the metric of the previous rung", DE,
      "        trial_info.level = ext_slot.level\n        trial_info.metric_val = None\n",
      "        trial_info.level = ext_slot.level\n"),
    B("DEHB: slot returned with the reporting trial's metric instead of the winner's", DE,
      "        ext_slot.metric_val = self._trial_info[winner_trial_id].metric_val",
      "        ext_slot.metric_val = metric_val if False else self._trial_info[ext_slot.trial_id or winner_trial_id].metric_val"),
    B("DEHB: resume whenever a trial was promoted, also without pause/resume support", DE,
      "            if self._support_pause_resume and promoted_from_trial_id is not None:",
      "            if promoted_from_trial_id is not None:"),
    E("DEHB: record updated before the pending entry is written", DE,
      "        # Register as pending\n        self._trial_to_pending_slot[trial_id] = ext_slot\n        # Modify entry to new milestone level\n        trial_info = self._trial_info.get(trial_id)",
      "        trial_info = self._trial_info.get(trial_id)\n        self._trial_to_pending_slot[trial_id] = ext_slot"),
]

VARIANTS["C10"] += [
    B("result events pushed only for results after the first", _SIM,
      "            self._simulator_state.push(\n                OnTrialResultEvent(trial_id=trial_id, result=result),\n                event_time=time_result,\n            )",
      "            if i > 0:\n                self._simulator_state.push(\n                    OnTrialResultEvent(trial_id=trial_id, result=result),\n                    event_time=time_result,\n                )"),
    B("result event stamped without the start time of the run", _SIM,
      "            _time_result = time_event + float(elapsed_time)\n            time_result = _time_result + self.simulator_config.delay_on_trial_result",
      "            _time_result = time_event + float(elapsed_time)\n            time_result = float(elapsed_time) + self.simulator_config.delay_on_trial_result"),
    B("completion event always reports 'completed'", _SIM,
      "            CompleteEvent(trial_id=trial_id, status=status), event_time=time_complete\n        )\n        self._debug_message(\n            \"CompleteEvent\", time=time_complete, trial_id=trial_id, pushed=True\n        )\n        self._busy_trial_ids.add(trial_id)",
      "            CompleteEvent(trial_id=trial_id, status=Status.completed), event_time=time_complete\n        )\n        self._debug_message(\n            \"CompleteEvent\", time=time_complete, trial_id=trial_id, pushed=True\n        )\n        self._busy_trial_ids.add(trial_id)"),
    B("result not stamped with its event time", _SIM,
      "        result[ST_TUNER_TIME] = time_event\n",
      "        result.setdefault(ST_TUNER_TIME, time_event)\n"),
    E("result event built first, then pushed", _SIM,
      "            self._simulator_state.push(\n                OnTrialResultEvent(trial_id=trial_id, result=result),\n                event_time=time_result,\n            )",
      "            ev = OnTrialResultEvent(trial_id=trial_id, result=result)\n            self._simulator_state.push(ev, event_time=time_result)"),
    E("result time in one expression", _SIM,
      "            _time_result = time_event + float(elapsed_time)\n            time_result = _time_result + self.simulator_config.delay_on_trial_result",
      "            _time_result = time_event + float(elapsed_time)\n            time_result = time_event + float(elapsed_time) + self.simulator_config.delay_on_trial_result"),
]

for _p in ("C02", "C10"):
    VARIANTS[_p] += [
        B("resumed run: elapsed times not counted from the resume point", TAB,
          "            for result in results:\n                result[self.elapsed_time_attr] -= elapsed_time_offset\n",
          "            pass\n"),
        B("resumed run: offset subtracted while it is still being searched", TAB,
          "                if resource > resource_paused:\n                    results.append(result)\n",
          "                if resource > resource_paused:\n                    result[self.elapsed_time_attr] -= elapsed_time_offset\n                    results.append(result)\n"),
        E("resumed run: offset subtraction written as an assignment", TAB,
          "                result[self.elapsed_time_attr] -= elapsed_time_offset\n",
          "                result[self.elapsed_time_attr] = result[self.elapsed_time_attr] - elapsed_time_offset\n"),
    ]

_SB = "syne_tune/optimizer/schedulers/searchers/searcher_base.py"
VARIANTS["C16"] += [
    B("restrict_configurations: key tested but its value not restored", _SB,
      "        if k in state:\n            self._restrict_configurations = state[k]\n            self._rc_returned_pos = set()",
      "        if k in state:\n            self._rc_returned_pos = set()"),
    E("restrict_configurations restored through get()", _SB,
      "        if k in state:\n            self._restrict_configurations = state[k]\n            self._rc_returned_pos = set()\n        else:\n            self._restrict_configurations = None\n            self._rc_returned_pos = None",
      "        self._restrict_configurations = state.get(k)\n        self._rc_returned_pos = set() if k in state else None"),
]

_CBL_OLD = """                for callback in self.callbacks:
                    callback.on_trial_result(
                        trial=trial,
                        status=status,
                        result=result,
                        decision=decision,
                    )
"""
VARIANTS["C17"] += [
    B("callbacks hear of a result only if the trial goes on", T, _CBL_OLD,
      """                if decision == SchedulerDecision.CONTINUE:
                    for callback in self.callbacks:
                        callback.on_trial_result(
                            trial=trial,
                            status=status,
                            result=result,
                            decision=decision,
                        )
"""),
    B("only the first callback hears of a result", T, _CBL_OLD,
      """                for callback in self.callbacks[:1]:
                    callback.on_trial_result(
                        trial=trial,
                        status=status,
                        result=result,
                        decision=decision,
                    )
"""),
    B("store_results writes only when no path is set", "syne_tune/results_callback.py",
      "        if self.csv_file is not None:\n            self.dataframe().to_csv(self.csv_file, index=False)",
      "        if self.csv_file is None:\n            self.dataframe().to_csv(self.csv_file, index=False)"),
    E("callback loop over an alias of the list", T, _CBL_OLD,
      """                cbs = self.callbacks
                for callback in cbs:
                    callback.on_trial_result(
                        trial=trial,
                        status=status,
                        result=result,
                        decision=decision,
                    )
"""),
]

VARIANTS["C19"] += [
    B("epsilon net: chosen position not put on the order list", ND,
      "        order.append(choice)\n        indices.remove(choice)",
      "        indices.remove(choice)"),
    B("epsilon net: seed item stays in the work set", ND,
      "    order = [initial_index]\n    indices.remove(initial_index)",
      "    order = [initial_index]"),
    E("epsilon net: removal before the append", ND,
      "        order.append(choice)\n        indices.remove(choice)",
      "        indices.remove(choice)\n        order.append(choice)"),
    E("epsilon net: loop on the size of the work set", ND,
      "    while indices:",
      "    while len(indices) > 0:"),
]

_BOA = "syne_tune/optimizer/schedulers/searchers/bayesopt/tuning_algorithms/bo_algorithm.py"
VARIANTS["C06"] += [
    B("greedy batch: candidates of a round excluded only after the last round", _BOA,
      "            if outer_iter < num_outer_iterations - 1 and len(inner_candidates) > 0:\n                just_added = True",
      "            if outer_iter >= num_outer_iterations - 1 and len(inner_candidates) > 0:\n                just_added = True"),
    B("greedy batch: only the first candidate of a round is excluded", _BOA,
      "                for cand in inner_candidates:\n                    self.exclusion_candidates.add(cand)",
      "                for cand in inner_candidates[:1]:\n                    self.exclusion_candidates.add(cand)"),
    E("greedy batch: exclusion loop over an alias", _BOA,
      "                for cand in inner_candidates:\n                    self.exclusion_candidates.add(cand)",
      "                picked = inner_candidates\n                for cand in picked:\n                    self.exclusion_candidates.add(cand)"),
]

_MBS = "syne_tune/optimizer/schedulers/searchers/model_based_searcher.py"
VARIANTS["C06"] += [
    B("batch: random picks not excluded within the batch", _MBS,
      "                        # duplicates in the same batch\n                        exclusion_candidates.add(config)\n",
      "                        # duplicates in the same batch\n"),
    B("batch: model-based part gets a fresh exclusion list", _MBS,
      "                    exclusion_candidates=exclusion_candidates,\n                    num_requested_candidates=num_requested_candidates,\n                    greedy_batch_selection=True,",
      "                    exclusion_candidates=self._get_exclusion_candidates(skip_observed=self._allow_duplicates),\n                    num_requested_candidates=num_requested_candidates,\n                    greedy_batch_selection=True,"),
]

VARIANTS["C10"] += [
    B("un-pickled backend: checkpointing flag not handed to the base constructor", TAB,
      "            support_checkpointing=state[\"support_checkpointing\"],\n            **state[\"simulatorbackend_kwargs\"],",
      "            **state[\"simulatorbackend_kwargs\"],"),
    B("un-pickled backend: seed restored under another attribute name", TAB,
      "            seed=state[\"seed\"],\n            support_checkpointing=state[\"support_checkpointing\"],",
      "            support_checkpointing=state[\"support_checkpointing\"],"),
    B("completion of a finished job delayed by the stop delay", _SIM,
      "            time_final_result + self.simulator_config.delay_complete_after_final_report",
      "            time_final_result + self.simulator_config.delay_complete_after_stop"),
    E("un-pickled backend: state entries bound to locals first", TAB,
      "        super().__init__(\n            elapsed_time_attr=state[\"elapsed_time_attr\"],",
      "        et_attr = state[\"elapsed_time_attr\"]\n        super().__init__(\n            elapsed_time_attr=et_attr,"),
]

_SCB = "syne_tune/backend/simulator_backend/simulator_callback.py"
VARIANTS["C12"] += [
    B("stopping criterion rewritten only for FIFO-type schedulers", _SCB,
      "        self._time_keeper.start_of_time()\n        self._tuner_sleep_time = backend.tuner_sleep_time\n        # Modify ``tuner.stop_criterion`` in case it depends on wallclock time\n        self._modify_stop_criterion(tuner)\n",
      "        self._time_keeper.start_of_time()\n        self._tuner_sleep_time = backend.tuner_sleep_time\n        if isinstance(scheduler, FIFOScheduler):\n            self._modify_stop_criterion(tuner)\n"),
    B("scheduler gets a time keeper of its own", _SCB,
      "            scheduler.set_time_keeper(self._time_keeper)",
      "            scheduler.set_time_keeper(SimulatedTimeKeeper())"),
    E("rewrite before the clock is started", _SCB,
      "        self._time_keeper.start_of_time()\n        self._tuner_sleep_time = backend.tuner_sleep_time\n        # Modify ``tuner.stop_criterion`` in case it depends on wallclock time\n        self._modify_stop_criterion(tuner)\n",
      "        self._modify_stop_criterion(tuner)\n        self._time_keeper.start_of_time()\n        self._tuner_sleep_time = backend.tuner_sleep_time\n"),
]

for _p in ("C13", "C14"):
    VARIANTS[_p] += [
        B("BO searcher: a failed trial keeps its pending evaluation", _MBS,
          "        # Remove pending evaluation\n        self.state_transformer.drop_pending_evaluation(trial_id)\n",
          "        # Remove pending evaluation\n"),
        B("multi-fidelity searcher: pending evaluations of a failed trial cleaned up only if it was observed", "syne_tune/optimizer/schedulers/searchers/gp_multifidelity_searcher.py",
          "        # Remove all pending evaluations for trial\n        self.cleanup_pending(trial_id)\n",
          "        # Remove all pending evaluations for trial\n        if self.state_transformer.state.is_labeled(trial_id):\n            self.cleanup_pending(trial_id)\n"),
    ]

VARIANTS["C13"] += [
    B("run ends when the number of failures reaches the limit", T,
      "            or self.tuning_status.num_trials_failed > self.max_failures\n        )",
      "            or self.tuning_status.num_trials_failed >= self.max_failures\n        )"),
    B("failure error raised although the limit was only reached", T,
      "            if self.tuning_status.num_trials_failed > self.max_failures:\n                self._handle_failure(",
      "            if self.tuning_status.num_trials_failed >= self.max_failures:\n                self._handle_failure("),
    E("failure limit written the other way round", T,
      "            or self.tuning_status.num_trials_failed > self.max_failures\n        )",
      "            or self.max_failures < self.tuning_status.num_trials_failed\n        )"),
]

_HB = "syne_tune/optimizer/schedulers/hyperband.py"
VARIANTS["C14"] += [
    B("'rungs' policy also updates at levels that are no rung levels", _HB,
      "            if resource in self.rung_levels or resource == self.max_t:\n                # Update searcher with intermediate result",
      "            if resource in self.rung_levels or resource <= self.max_t:\n                # Update searcher with intermediate result"),
    B("'rungs' policy: the final level max_t is left out", _HB,
      "            if resource in self.rung_levels or resource == self.max_t:\n                # Update searcher with intermediate result",
      "            if resource in self.rung_levels:\n                # Update searcher with intermediate result"),
    E("'rungs' policy: disjuncts exchanged", _HB,
      "            if resource in self.rung_levels or resource == self.max_t:\n                # Update searcher with intermediate result",
      "            if resource == self.max_t or resource in self.rung_levels:\n                # Update searcher with intermediate result"),
]

VARIANTS["C04"] += [
    B("a trial that may not continue is stopped although the rung system resumes trials", _HB,
      "                    if (not self.does_pause_resume()) or resource >= self.max_t:",
      "                    if self.does_pause_resume() or resource >= self.max_t:"),
    B("a trial is paused at max_t", _HB,
      "                    if (not self.does_pause_resume()) or resource >= self.max_t:",
      "                    if not self.does_pause_resume():"),
    B("record released only for stopped trials", _HB,
      "                    self._cleanup_trial(trial_id, trial_decision=trial_decision)\n                if debug_log is not None:",
      "                    if trial_decision == SchedulerDecision.STOP:\n                        self._cleanup_trial(trial_id, trial_decision=trial_decision)\n                if debug_log is not None:"),
    E("pause / stop arms exchanged", _HB,
      "                    if (not self.does_pause_resume()) or resource >= self.max_t:\n                        trial_decision = SchedulerDecision.STOP\n                        act_str = \"Terminating\"\n                    else:\n                        trial_decision = SchedulerDecision.PAUSE\n                        act_str = \"Pausing\"",
      "                    if self.does_pause_resume() and resource < self.max_t:\n                        trial_decision = SchedulerDecision.PAUSE\n                        act_str = \"Pausing\"\n                    else:\n                        trial_decision = SchedulerDecision.STOP\n                        act_str = \"Terminating\""),
]

VARIANTS["C03"] += [
    B("bracket recorded only for new trials", _HB,
      "        bracket_id = kwargs[\"bracket\"]\n        self._task_info[trial_id] = bracket_id\n",
      "        bracket_id = kwargs[\"bracket\"]\n        if kwargs.get(\"new_config\", True):\n            self._task_info[trial_id] = bracket_id\n"),
    B("trial added to the rung system of bracket 0", _HB,
      "        rung_sys, skip_rungs = self._get_rung_system_for_bracket_id(bracket_id)\n        rung_sys.on_task_add(trial_id, skip_rungs=skip_rungs, **kwargs)",
      "        rung_sys, skip_rungs = self._get_rung_system_for_bracket_id(0)\n        rung_sys.on_task_add(trial_id, skip_rungs=skip_rungs, **kwargs)"),
    E("bracket stored straight from the keyword arguments", _HB,
      "        bracket_id = kwargs[\"bracket\"]\n        self._task_info[trial_id] = bracket_id\n",
      "        self._task_info[trial_id] = kwargs[\"bracket\"]\n        bracket_id = self._task_info[trial_id]\n"),
]

_TAILS_OLD = """                    self.scheduler.on_trial_remove(trial=trial)
                    done_trials[trial_id] = (trial, status)
                    self.trials_scheduler_stopped.add(trial_id)

                elif decision == SchedulerDecision.PAUSE:
                    status = Status.paused
                    self.trial_backend.pause_trial(trial_id=trial_id, result=result)
                    self.scheduler.on_trial_remove(trial=trial)
                    done_trials[trial_id] = (trial, status)
"""
for _p in ("C01", "C02", "C13"):
    VARIANTS[_p] += [
        E("STOP and PAUSE share one tail (remove, record); the stopped-by-scheduler mark stays with STOP", T, _TAILS_OLD,
          """                    self.trials_scheduler_stopped.add(trial_id)

                elif decision == SchedulerDecision.PAUSE:
                    status = Status.paused
                    self.trial_backend.pause_trial(trial_id=trial_id, result=result)

                if decision != SchedulerDecision.CONTINUE:
                    self.scheduler.on_trial_remove(trial=trial)
                    done_trials[trial_id] = (trial, status)
"""),
    ]
for _p in ("C01", "C13"):
    VARIANTS[_p] += [
        B("shared tail also marks paused trials as stopped by the scheduler", T, _TAILS_OLD,
          """
                elif decision == SchedulerDecision.PAUSE:
                    status = Status.paused
                    self.trial_backend.pause_trial(trial_id=trial_id, result=result)

                if decision != SchedulerDecision.CONTINUE:
                    self.scheduler.on_trial_remove(trial=trial)
                    done_trials[trial_id] = (trial, status)
                    self.trials_scheduler_stopped.add(trial_id)
"""),
    ]
