"""Generic mutants of the functions a property's rules report on (thorough tier).

This measures the CHECKER, not the property: each mutant is a small syntactic change (negated test, shifted comparison,
deleted statement, ...) of one function the rules look at; it is analysed in memory (overlay), nothing is executed, and a
mutant counts as 'killed' when the rules report a new violation or refuse with an analysis error.  Many mutants are not
property-breaking at all (logging, messages, equivalent forms), so the kill ratio is only indicative; its use is the list of
functions in which NO mutant is noticed - places where the rules are thin.  It never changes the verdict.
"""
import ast
import copy
import os
import random
import warnings
from concurrent.futures import ProcessPoolExecutor

_REL = {ast.Lt: ast.LtE, ast.LtE: ast.Lt, ast.Gt: ast.GtE, ast.GtE: ast.Gt, ast.Eq: ast.NotEq, ast.NotEq: ast.Eq,
        ast.Is: ast.IsNot, ast.IsNot: ast.Is, ast.In: ast.NotIn, ast.NotIn: ast.In}


def _sites(fn):
    """[(kind, node)] mutation sites of one function (nested functions included)"""
    out = []
    for n in ast.walk(fn):
        if isinstance(n, (ast.If, ast.While)) :
            out.append(("negate-test", n))
        elif isinstance(n, ast.Compare) and len(n.ops) == 1 and type(n.ops[0]) in _REL:
            out.append(("shift-compare", n))
        elif isinstance(n, ast.BoolOp):
            out.append(("and-or", n))
        elif isinstance(n, ast.Expr) and isinstance(n.value, ast.Call) and not (
                isinstance(n.value.func, ast.Attribute) and isinstance(n.value.func.value, ast.Name) and n.value.func.value.id in ("logger", "logging"))\
                and not (isinstance(n.value.func, ast.Name) and n.value.func.id == "print"):
            out.append(("delete-call", n))
        elif isinstance(n, (ast.Assign, ast.AugAssign)) and any(isinstance(t, (ast.Attribute, ast.Subscript))
                                                                 for t in (n.targets if isinstance(n, ast.Assign) else [n.target])):
            out.append(("delete-store", n))
        elif isinstance(n, ast.Break):
            out.append(("break-continue", n))
        elif isinstance(n, ast.UnaryOp) and isinstance(n.op, ast.Not):
            out.append(("drop-not", n))
        elif isinstance(n, ast.Constant) and isinstance(n.value, bool):
            out.append(("flip-bool", n))
    return out


def _apply(kind, n):
    if kind == "negate-test":
        n.test = ast.UnaryOp(op=ast.Not(), operand=n.test)
    elif kind == "shift-compare":
        n.ops = [_REL[type(n.ops[0])]()]
    elif kind == "and-or":
        n.op = ast.Or() if isinstance(n.op, ast.And) else ast.And()
    elif kind in ("delete-call", "delete-store"):
        n.__class__ = ast.Pass
        n._fields = ()
    elif kind == "break-continue":
        n.__class__ = ast.Continue
    elif kind == "drop-not":
        n.__class__ = ast.BoolOp
        n.op, n.values = ast.And(), [n.operand, ast.Constant(value=True)]
        n._fields = ("op", "values")
    elif kind == "flip-bool":
        n.value = not n.value


def _mutants_of(src, qual_tail, lineno, cap, rng):
    """[(kind, line, text before, mutated module source)]"""
    tree = ast.parse(src)
    target = None
    for n in ast.walk(tree):
        if isinstance(n, (ast.FunctionDef, ast.AsyncFunctionDef)) and n.name == qual_tail and n.lineno == lineno:
            target = n
    if target is None:
        return []
    sites = _sites(target)
    idx = list(range(len(sites)))
    rng.shuffle(idx)
    out = []
    for i in sorted(idx[:cap]):
        t2 = copy.deepcopy(tree)
        tgt2 = [n for n in ast.walk(t2) if isinstance(n, (ast.FunctionDef, ast.AsyncFunctionDef)) and n.name == qual_tail and n.lineno == lineno][0]
        s2 = _sites(tgt2)
        kind, node = s2[i]
        before = ast.unparse(sites[i][1]).split("\n")[0][:70]
        line = getattr(sites[i][1], "lineno", lineno)
        try:
            _apply(kind, node)
            ast.fix_missing_locations(t2)
            out.append((kind, line, before, ast.unparse(t2) + "\n"))
        except Exception:
            continue
    return out


def _run(args):
    warnings.filterwarnings("ignore", category=SyntaxWarning)
    prop, root, rel, text, base = args
    from ..cli import run_check
    from ..core.model import AnchorError
    try:
        ast.parse(text)
        ctx, rep, mod = run_check(prop, "quick", root, overlay={rel: text})
        new = [i for i in rep.items if i.status == "violation" and i.key() not in base]
        return "violation" if new else None
    except AnchorError:
        return "refused"
    except SyntaxError:
        return "invalid"
    except Exception:
        return "refused"


def mutation_audit(prop, root="/repo", seed=0, per_function=6, total_cap=160, jobs=None, all_anchor_functions=False):
    from ..cli import run_check
    ctx, rep, mod = run_check(prop, "quick", root)
    base = {i.key() for i in rep.items if i.status == "violation"}
    rng = random.Random(seed * 7919 + sum(map(ord, prop)))
    work = []
    targets = dict(rep.touched)
    if all_anchor_functions:      # review aid: every top-level function / method of the files the property anchors in
        from ..rules.common import anchor_files
        files = set(anchor_files(prop))
        for f in ctx.P.functions.values():
            if f.module.relpath in files and f.parent is None:
                targets.setdefault(f.qualname, (f.module.relpath, f.node.lineno))
    for qual, (rel, line) in sorted(targets.items()):
        with open(os.path.join(root, rel), encoding="utf-8") as fh:
            src = fh.read()
        for kind, ln, before, text in _mutants_of(src, qual.split(".")[-1], line, per_function, rng):
            work.append((qual, rel, kind, ln, before, text))
    if len(work) > total_cap:
        rng.shuffle(work)
        work = sorted(work[:total_cap], key=lambda w: (w[0], w[3]))
    jobs = jobs or min(16, os.cpu_count() or 4, max(1, len(work)))
    with ProcessPoolExecutor(max_workers=jobs) as ex:
        res = list(ex.map(_run, [(prop, root, w[1], w[5], base) for w in work]))
    per = {}
    surv = []
    for w, r in zip(work, res):
        if r == "invalid":
            continue
        d = per.setdefault(w[0], {"mutants": 0, "noticed": 0})
        d["mutants"] += 1
        if r:
            d["noticed"] += 1
        else:
            surv.append({"function": w[0].split(".", 2)[-1] if w[0].startswith("syne_tune.") else w[0], "line": w[3], "operator": w[2], "site": w[4]})
    blind = sorted(q for q, d in per.items() if d["noticed"] == 0 and d["mutants"] >= 3)
    tot = sum(d["mutants"] for d in per.values())
    kil = sum(d["noticed"] for d in per.values())
    return {"mutation_audit": {
        "note": "generic syntactic mutants of the functions the rules report on; measures the checker (which changes it notices), "
                "not the property; many mutants are harmless, so survivors are candidates for reading, not defects",
        "functions": len(per), "mutants": tot, "noticed": kil,
        "functions_where_no_mutant_is_noticed": blind,
        "survivors_sample": surv[:4000],
    }}
