"""Sensitivity audit of the checker itself (thorough tier).

Every variant is an in-memory edit of today's sources (overlay path -> text); nothing is written to /repo.
* breaking variants must be flagged (a new violation, optionally of a named construct);
* equivalence variants (behaviour-preserving rewrites) must stay silent - no violation, no analysis error;
* the seeded defects kept under /verif/seeded/ are replayed as breaking variants (their patch is applied to a
  private copy of the touched files in a scratch directory that is removed at once).
A breaking variant that is not flagged, or an equivalence variant that is, is a *checker defect*: it is
reported in the evidence and on stdout, it does not change the property verdict.
"""
import json
import warnings
import os
import re
import shutil
import subprocess
import tempfile
import time
from concurrent.futures import ProcessPoolExecutor

HERE = os.path.dirname(os.path.dirname(os.path.dirname(os.path.abspath(__file__))))


def _baseline_keys(prop, root):
    from ..cli import run_check
    ctx, rep, mod = run_check(prop, "quick", root)
    return {i.key() for i in rep.items if i.status == "violation"}


def _run_one(args):
    warnings.filterwarnings("ignore", category=SyntaxWarning)
    prop, root, v, base = args
    from ..cli import run_check
    from ..core.model import AnchorError
    t0 = time.time()
    res = {"name": v["name"], "kind": v["kind"], "applicable": True, "flagged": False, "new": [], "error": None,
           "detectable": v.get("detectable", True)}
    try:
        overlay = v.get("overlay")
        if overlay is None and v.get("transform"):
            from .transforms import package_overlay
            overlay = package_overlay(root, v["transform"])
        if overlay is None:
            path = os.path.join(root, v["file"])
            with open(path, encoding="utf-8") as fh:
                src = fh.read()
            if src.count(v["old"]) != 1:
                res["applicable"] = False
                res["error"] = f"anchor text occurs {src.count(v['old'])} times"
                return res
            overlay = {v["file"]: src.replace(v["old"], v["new"])}
        import ast
        for rel, text in overlay.items():
            ast.parse(text)
        ctx, rep, mod = run_check(prop, "quick", root, overlay=overlay)
        new = [i for i in rep.items if i.status == "violation" and i.key() not in base]
        res["new"] = [f"{i.clause} {i.rule} {i.construct}" for i in new][:6]
        res["flagged"] = bool(new)
        if v.get("expect") and new:
            res["named"] = any(v["expect"] in s for s in res["new"])
    except AnchorError as e:
        res["error"] = "ANALYSIS-ERROR: " + str(e)[:200]
        # an analysis error on a breaking variant is a loud refusal (counts as detected, not as a verdict)
        res["flagged"] = v["kind"] == "break"
        res["refused"] = True
    except SyntaxError as e:
        res["applicable"] = False
        res["error"] = f"variant does not parse: {e}"
    except Exception as e:  # pragma: no cover
        res["error"] = f"{type(e).__name__}: {e}"[:200]
    res["wall_s"] = round(time.time() - t0, 2)
    return res


def seeded_variants(prop, root):
    """breaking variants from /verif/seeded/<name>/ whose meta names this property (or which touch it)."""
    out = []
    sd = os.path.join(HERE, "seeded")
    if not os.path.isdir(sd):
        return out
    for name in sorted(os.listdir(sd)):
        d = os.path.join(sd, name)
        meta_p = os.path.join(d, "meta.json")
        patch_p = os.path.join(d, "patch.diff")
        if not (os.path.exists(meta_p) and os.path.exists(patch_p)):
            continue
        with open(meta_p) as fh:
            meta = json.load(fh)
        props = {meta.get("property")} | set(meta.get("also_detected_by", []))
        if prop not in props:
            continue
        with open(patch_p) as fh:
            diff = fh.read()
        files = re.findall(r"^\+\+\+ b/(\S+)", diff, flags=re.M)
        tmp = tempfile.mkdtemp(prefix="stverif_seed_")
        try:
            for rel in files:
                os.makedirs(os.path.dirname(os.path.join(tmp, rel)), exist_ok=True)
                shutil.copy(os.path.join(root, rel), os.path.join(tmp, rel))
            r = subprocess.run(["patch", "-p1", "-s", "-d", tmp, "-i", patch_p], capture_output=True, text=True)
            if r.returncode != 0:
                out.append({"name": "seed:" + name, "kind": "break", "overlay": None, "file": files[0] if files else "", "old": "\0", "new": "",
                            "note": "patch no longer applies: " + (r.stdout + r.stderr)[:120]})
                continue
            overlay = {}
            for rel in files:
                with open(os.path.join(tmp, rel), encoding="utf-8") as fh:
                    overlay[rel] = fh.read()
            out.append({"name": "seed:" + name, "kind": "break", "overlay": overlay, "detectable": meta.get("detectable", True)})
        finally:
            shutil.rmtree(tmp, ignore_errors=True)
    return out


def refactoring_variants(prop, root, only_touching=None):
    """equivalence variants from /verif/refactorings/<name>/patch.diff: behaviour-preserving changes written by independent
    sub-agents (each verified by them with the repository's suite and a differential check); taken for a property when the
    patch touches a file that property's rules look at"""
    out = []
    rd = os.path.join(HERE, "refactorings")
    if not os.path.isdir(rd):
        return out
    for name in sorted(os.listdir(rd)):
        patch_p = os.path.join(rd, name, "patch.diff")
        if not os.path.exists(patch_p):
            continue
        with open(patch_p) as fh:
            diff = fh.read()
        files = re.findall(r"^\+\+\+ b/(\S+)", diff, flags=re.M)
        if only_touching is not None and not (set(files) & set(only_touching)):
            continue
        tmp = tempfile.mkdtemp(prefix="stverif_refac_")
        try:
            for rel in files:
                os.makedirs(os.path.dirname(os.path.join(tmp, rel)), exist_ok=True)
                if os.path.exists(os.path.join(root, rel)):
                    shutil.copy(os.path.join(root, rel), os.path.join(tmp, rel))
            r = subprocess.run(["patch", "-p1", "-s", "-d", tmp, "-i", patch_p], capture_output=True, text=True)
            if r.returncode != 0:
                continue        # the tree has moved on: not applicable any more
            overlay = {}
            for rel in files:
                with open(os.path.join(tmp, rel), encoding="utf-8") as fh:
                    overlay[rel] = fh.read()
            out.append({"name": "refactoring:" + name, "kind": "equiv", "overlay": overlay})
        finally:
            shutil.rmtree(tmp, ignore_errors=True)
    return out


# whole-package behaviour-preserving rewrites every property's rules must be silent on
GENERIC_EQUIV = [
    {"name": "whole package reformatted (ast.unparse: layout, comments, parentheses, quotes)", "kind": "equiv", "transform": "reformat"},
    {"name": "every function local renamed to an unrelated name (zqN_M) + reformatted", "kind": "equiv", "transform": "@"},
    {"name": "every if/else and conditional expression written with the negated test and exchanged arms", "kind": "equiv", "transform": "swapif"},
    {"name": "every single comparison written the other way round (a < b -> b > a, a == b -> b == a)", "kind": "equiv", "transform": "flipcmp"},
    {"name": "single-use temporaries folded into the statement that reads them", "kind": "equiv", "transform": "inline"},
    {"name": "first call-valued argument of every statement-level call given a name (_xtN = g(x); h(_xtN))", "kind": "equiv", "transform": "extract"},
    {"name": "statements after an `if` whose body ends in return/raise/continue/break moved into its else", "kind": "equiv", "transform": "nestelse"},
    {"name": "positional arguments of self.m(...) and of the package's own functions written as keyword arguments", "kind": "equiv", "transform": "kwargs"},
    {"name": "every `if a and b:` without else written as nested ifs", "kind": "equiv", "transform": "splitand"},
    {"name": "nested ifs without else merged into one conjunction", "kind": "equiv", "transform": "mergeif"},
]


def audit(prop, root="/repo", jobs=None, seed=0):
    from .variants import VARIANTS
    from ..rules.common import anchor_files, EXTRA_SWEPT_FILES
    vs = [dict(v) for v in VARIANTS.get(prop, [])] + seeded_variants(prop, root) + [dict(v) for v in GENERIC_EQUIV] + \
        refactoring_variants(prop, root, only_touching=set(anchor_files(prop)) | set(EXTRA_SWEPT_FILES.get(prop, [])))
    if not vs:
        return {"audit": {"variants": 0, "note": "no variants registered for this property"}}
    base = _baseline_keys(prop, root)
    jobs = jobs or min(16, os.cpu_count() or 4, len(vs))
    with ProcessPoolExecutor(max_workers=jobs) as ex:
        results = list(ex.map(_run_one, [(prop, root, v, base) for v in vs]))
    br = [r for r in results if r["kind"] == "break" and r["applicable"]]
    eq = [r for r in results if r["kind"] == "equiv" and r["applicable"]]
    known_miss = [r for r in br if not r["flagged"] and not r.get("detectable", True)]
    missed = [r for r in br if not r["flagged"] and r.get("detectable", True)]
    false_alarm = [r for r in eq if r["flagged"] or r["error"]]
    na = [r for r in results if not r["applicable"]]
    out = {
        "variants": len(results),
        "breaking": {"run": len(br), "flagged": len(br) - len(missed) - len(known_miss), "missed": [r["name"] for r in missed],
                     "known_not_detectable": [r["name"] for r in known_miss],
                     "refused_with_analysis_error": [r["name"] for r in br if r.get("refused")]},
        "equivalent": {"run": len(eq), "silent": len(eq) - len(false_alarm),
                       "false_alarms": [{"name": r["name"], "new": r["new"], "error": r["error"]} for r in false_alarm]},
        "not_applicable": [{"name": r["name"], "why": r["error"]} for r in na],
        "checker_defects": len(missed) + len(false_alarm),
        "details": [{k: r[k] for k in ("name", "kind", "flagged", "new") if k in r} for r in results],
    }
    return {"audit": out}
