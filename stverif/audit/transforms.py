"""Behaviour-preserving whole-package rewrites used to test the checker for false alarms.

* rewrite(src, suffix)   every local variable of every function is renamed (suffix, or "@" = scrambled names that
                          share nothing with the old ones); comments dropped, layout normalised (ast.unparse)
* reformat(src)          layout only
Both were validated once against the repository's own test suite on a scratch worktree (382/382 stable passes).
"""
import ast
import os


class Renamer(ast.NodeTransformer):
    def __init__(self, suffix):
        self.suffix = suffix
        self.stack = []

    def _locals_of(self, fn):
        params = {a.arg for a in fn.args.posonlyargs + fn.args.args + fn.args.kwonlyargs}
        if fn.args.vararg:
            params.add(fn.args.vararg.arg)
        if fn.args.kwarg:
            params.add(fn.args.kwarg.arg)
        assigned, banned = set(), set(params)
        todo = list(fn.body)
        while todo:
            n = todo.pop()
            if isinstance(n, (ast.FunctionDef, ast.AsyncFunctionDef, ast.ClassDef)):
                banned.add(n.name)
                # names a nested scope binds itself must not be renamed from outside
                if not isinstance(n, ast.ClassDef):
                    for a in n.args.posonlyargs + n.args.args + n.args.kwonlyargs:
                        banned.add(a.arg)
                    if n.args.vararg:
                        banned.add(n.args.vararg.arg)
                    if n.args.kwarg:
                        banned.add(n.args.kwarg.arg)
                    for m in ast.walk(n):
                        if isinstance(m, ast.Name) and isinstance(m.ctx, ast.Store):
                            banned.add(m.id)
                else:
                    for m in ast.walk(n):
                        if isinstance(m, ast.Name):
                            banned.add(m.id)
                continue
            if isinstance(n, ast.Lambda):
                for a in n.args.posonlyargs + n.args.args + n.args.kwonlyargs:
                    banned.add(a.arg)
            if isinstance(n, (ast.Global, ast.Nonlocal)):
                banned.update(n.names)
            if isinstance(n, ast.Name) and isinstance(n.ctx, (ast.Store, ast.Del)):
                assigned.add(n.id)
            if isinstance(n, ast.ExceptHandler) and n.name:
                banned.add(n.name)
            if isinstance(n, (ast.Import, ast.ImportFrom)):
                for a in n.names:
                    banned.add((a.asname or a.name).split(".")[0])
            todo.extend(ast.iter_child_nodes(n))
        return {x for x in assigned - banned if not x.startswith("__")}

    def visit_FunctionDef(self, fn):
        loc = self._locals_of(fn)
        if self.suffix == "@":
            # scramble: the new name shares nothing with the old one
            self.depth = getattr(self, "depth", 0) + 1
            loc = {n: f"zq{self.depth}_{i}" for i, n in enumerate(sorted(loc))}
        else:
            loc = {n: n + self.suffix for n in loc}
        self.stack.append(loc)
        fn.body = [self.visit(s) for s in fn.body]
        self.stack.pop()
        if self.suffix == "@":
            self.depth -= 1
        return fn

    visit_AsyncFunctionDef = visit_FunctionDef

    def visit_Name(self, n):
        for loc in reversed(self.stack):
            if n.id in loc:
                return ast.copy_location(ast.Name(id=loc[n.id], ctx=n.ctx), n)
        return n

    def visit_ClassDef(self, c):
        # class bodies inside functions: do not touch names (handled as banned)
        saved, self.stack = self.stack, []
        self.generic_visit(c)
        self.stack = saved
        return c


def rewrite(src, suffix="_r"):
    tree = ast.parse(src)
    tree = Renamer(suffix).visit(tree)
    ast.fix_missing_locations(tree)
    return ast.unparse(tree) + "\n"




def reformat(src):
    return ast.unparse(ast.parse(src)) + "\n"


def package_overlay(root, how, package="syne_tune"):
    """{relative path: rewritten text} for every module of the package under root."""
    out = {}
    for d, _, fs in os.walk(os.path.join(root, package)):
        for f in fs:
            if f.endswith(".py"):
                p = os.path.join(d, f)
                with open(p, encoding="utf-8") as fh:
                    src = fh.read()
                fn = {"reformat": reformat, "swapif": swap_if, "flipcmp": flip_cmp}.get(how)
                out[os.path.relpath(p, root)] = fn(src) if fn else rewrite(src, how)
    return out


class _SwapIf(ast.NodeTransformer):
    """`if c: A else: B`  ->  `if not c: B else: A` (statements and conditional expressions)."""

    @staticmethod
    def _neg(c):
        if isinstance(c, ast.UnaryOp) and isinstance(c.op, ast.Not):
            return c.operand
        return ast.UnaryOp(op=ast.Not(), operand=c)

    def visit_If(self, n):
        self.generic_visit(n)
        if n.orelse and not (len(n.orelse) == 1 and isinstance(n.orelse[0], ast.If)):
            n.test, n.body, n.orelse = self._neg(n.test), n.orelse, n.body
        return n

    def visit_IfExp(self, n):
        self.generic_visit(n)
        n.test, n.body, n.orelse = self._neg(n.test), n.orelse, n.body
        return n


_MIRROR = {ast.Lt: ast.Gt, ast.Gt: ast.Lt, ast.LtE: ast.GtE, ast.GtE: ast.LtE, ast.Eq: ast.Eq, ast.NotEq: ast.NotEq}


class _FlipCmp(ast.NodeTransformer):
    """`a < b` -> `b > a`, `a == b` -> `b == a` (single comparisons; not when both operands contain a call, whose
    evaluation order would change)."""

    def visit_Compare(self, n):
        self.generic_visit(n)
        if len(n.ops) == 1 and type(n.ops[0]) in _MIRROR:
            l, r = n.left, n.comparators[0]
            has_call = [any(isinstance(y, (ast.Call, ast.Await, ast.Yield, ast.NamedExpr)) for y in ast.walk(x)) for x in (l, r)]
            if not all(has_call):
                return ast.copy_location(ast.Compare(left=r, ops=[_MIRROR[type(n.ops[0])]()], comparators=[l]), n)
        return n


def swap_if(src):
    t = _SwapIf().visit(ast.parse(src))
    ast.fix_missing_locations(t)
    return ast.unparse(t) + "\n"


def flip_cmp(src):
    t = _FlipCmp().visit(ast.parse(src))
    ast.fix_missing_locations(t)
    return ast.unparse(t) + "\n"
