"""Behaviour-preserving whole-package rewrites used to test the checker for false alarms.

* rewrite(src, suffix)   every local variable of every function is renamed (suffix, or "@" = scrambled names that
                          share nothing with the old ones); comments dropped, layout normalised (ast.unparse)
* reformat(src)          layout only
Both were validated once against the repository's own test suite on a scratch worktree (382/382 stable passes).
"""
import ast
import os


class Renamer(ast.NodeTransformer):
    def __init__(self, suffix):
        self.suffix = suffix
        self.stack = []

    def _locals_of(self, fn):
        params = {a.arg for a in fn.args.posonlyargs + fn.args.args + fn.args.kwonlyargs}
        if fn.args.vararg:
            params.add(fn.args.vararg.arg)
        if fn.args.kwarg:
            params.add(fn.args.kwarg.arg)
        assigned, banned = set(), set(params)
        todo = list(fn.body)
        while todo:
            n = todo.pop()
            if isinstance(n, (ast.FunctionDef, ast.AsyncFunctionDef, ast.ClassDef)):
                banned.add(n.name)
                # names a nested scope binds itself must not be renamed from outside
                if not isinstance(n, ast.ClassDef):
                    for a in n.args.posonlyargs + n.args.args + n.args.kwonlyargs:
                        banned.add(a.arg)
                    if n.args.vararg:
                        banned.add(n.args.vararg.arg)
                    if n.args.kwarg:
                        banned.add(n.args.kwarg.arg)
                    for m in ast.walk(n):
                        if isinstance(m, ast.Name) and isinstance(m.ctx, ast.Store):
                            banned.add(m.id)
                else:
                    for m in ast.walk(n):
                        if isinstance(m, ast.Name):
                            banned.add(m.id)
                continue
            if isinstance(n, ast.Lambda):
                for a in n.args.posonlyargs + n.args.args + n.args.kwonlyargs:
                    banned.add(a.arg)
            if isinstance(n, (ast.Global, ast.Nonlocal)):
                banned.update(n.names)
            if isinstance(n, ast.Name) and isinstance(n.ctx, (ast.Store, ast.Del)):
                assigned.add(n.id)
            if isinstance(n, ast.ExceptHandler) and n.name:
                banned.add(n.name)
            if isinstance(n, (ast.Import, ast.ImportFrom)):
                for a in n.names:
                    banned.add((a.asname or a.name).split(".")[0])
            todo.extend(ast.iter_child_nodes(n))
        return {x for x in assigned - banned if not x.startswith("__")}

    def visit_FunctionDef(self, fn):
        loc = self._locals_of(fn)
        if self.suffix == "@":
            # scramble: the new name shares nothing with the old one
            self.depth = getattr(self, "depth", 0) + 1
            loc = {n: f"zq{self.depth}_{i}" for i, n in enumerate(sorted(loc))}
        else:
            loc = {n: n + self.suffix for n in loc}
        self.stack.append(loc)
        fn.body = [self.visit(s) for s in fn.body]
        self.stack.pop()
        if self.suffix == "@":
            self.depth -= 1
        return fn

    visit_AsyncFunctionDef = visit_FunctionDef

    def visit_Name(self, n):
        for loc in reversed(self.stack):
            if n.id in loc:
                return ast.copy_location(ast.Name(id=loc[n.id], ctx=n.ctx), n)
        return n

    def visit_ClassDef(self, c):
        # class bodies inside functions: do not touch names (handled as banned)
        saved, self.stack = self.stack, []
        self.generic_visit(c)
        self.stack = saved
        return c


def rewrite(src, suffix="_r"):
    tree = ast.parse(src)
    tree = Renamer(suffix).visit(tree)
    ast.fix_missing_locations(tree)
    return ast.unparse(tree) + "\n"




def reformat(src):
    return ast.unparse(ast.parse(src)) + "\n"


def package_overlay(root, how, package="syne_tune"):
    """{relative path: rewritten text} for every module of the package under root."""
    out = {}
    if how == "kwargs":
        srcs = {}
        for d, _, fs in os.walk(os.path.join(root, package)):
            for f in fs:
                if f.endswith(".py"):
                    p = os.path.join(d, f)
                    with open(p, encoding="utf-8") as fh:
                        srcs[os.path.relpath(p, root)] = fh.read()
        return keywordise_package(srcs, package)
    for d, _, fs in os.walk(os.path.join(root, package)):
        for f in fs:
            if f.endswith(".py"):
                p = os.path.join(d, f)
                with open(p, encoding="utf-8") as fh:
                    src = fh.read()
                fn = {"reformat": reformat, "swapif": swap_if, "flipcmp": flip_cmp, "inline": inline_temps, "extract": extract_args, "nestelse": nest_else, "splitand": split_and, "mergeif": merge_if}.get(how)
                out[os.path.relpath(p, root)] = fn(src) if fn else rewrite(src, how)
    return out


class _SwapIf(ast.NodeTransformer):
    """`if c: A else: B`  ->  `if not c: B else: A` (statements and conditional expressions)."""

    @staticmethod
    def _neg(c):
        if isinstance(c, ast.UnaryOp) and isinstance(c.op, ast.Not):
            return c.operand
        return ast.UnaryOp(op=ast.Not(), operand=c)

    def visit_If(self, n):
        self.generic_visit(n)
        if n.orelse and not (len(n.orelse) == 1 and isinstance(n.orelse[0], ast.If)):
            n.test, n.body, n.orelse = self._neg(n.test), n.orelse, n.body
        return n

    def visit_IfExp(self, n):
        self.generic_visit(n)
        n.test, n.body, n.orelse = self._neg(n.test), n.orelse, n.body
        return n


_MIRROR = {ast.Lt: ast.Gt, ast.Gt: ast.Lt, ast.LtE: ast.GtE, ast.GtE: ast.LtE, ast.Eq: ast.Eq, ast.NotEq: ast.NotEq}


class _FlipCmp(ast.NodeTransformer):
    """`a < b` -> `b > a`, `a == b` -> `b == a` (single comparisons; not when both operands contain a call, whose
    evaluation order would change)."""

    def visit_Compare(self, n):
        self.generic_visit(n)
        if len(n.ops) == 1 and type(n.ops[0]) in _MIRROR:
            l, r = n.left, n.comparators[0]
            has_call = [any(isinstance(y, (ast.Call, ast.Await, ast.Yield, ast.NamedExpr)) for y in ast.walk(x)) for x in (l, r)]
            if not all(has_call):
                return ast.copy_location(ast.Compare(left=r, ops=[_MIRROR[type(n.ops[0])]()], comparators=[l]), n)
        return n


def swap_if(src):
    t = _SwapIf().visit(ast.parse(src))
    ast.fix_missing_locations(t)
    return ast.unparse(t) + "\n"


def flip_cmp(src):
    t = _FlipCmp().visit(ast.parse(src))
    ast.fix_missing_locations(t)
    return ast.unparse(t) + "\n"


class _InlineTemps(ast.NodeTransformer):
    """`t = <call-free expression>` immediately followed by a simple statement that reads `t` exactly once, `t` not
    used anywhere else in the function: the temporary is inlined.  With headers=True also into the iterable of a `for` and
    the test of an `if` that directly follows."""
    headers = False

    def _inline_in(self, fn):
        counts = {}
        for n in ast.walk(fn):
            if isinstance(n, ast.Name):
                counts.setdefault(n.id, [0, 0])[0 if isinstance(n.ctx, ast.Load) else 1] += 1
        nonlocal_names = {x for n in ast.walk(fn) if isinstance(n, (ast.Global, ast.Nonlocal)) for x in n.names}
        nested_uses = set()
        for n in ast.walk(fn):
            if n is not fn and isinstance(n, (ast.FunctionDef, ast.AsyncFunctionDef, ast.Lambda, ast.ClassDef,
                                              ast.ListComp, ast.SetComp, ast.DictComp, ast.GeneratorExp)):
                for m in ast.walk(n):
                    if isinstance(m, ast.Name):
                        nested_uses.add(m.id)

        def process(body):
            i = 0
            while i + 1 < len(body):
                a, b = body[i], body[i + 1]
                holder = None
                if self.headers and isinstance(b, (ast.For, ast.If)):
                    # the iterable of a `for` / the test of an `if` is evaluated once, first: a pseudo statement stands for it
                    holder = b
                    b = ast.Expr(value=b.iter if isinstance(b, ast.For) else b.test)
                    rest = (holder.body + holder.orelse) + ([holder.target] if isinstance(holder, ast.For) else [])
                    if isinstance(a, ast.Assign) and len(a.targets) == 1 and isinstance(a.targets[0], ast.Name) and any(
                            isinstance(y, ast.Name) and y.id == a.targets[0].id for s in rest for y in ast.walk(s)):
                        b, holder = body[i + 1], None       # used inside the block: not a header-only use
                if isinstance(a, ast.Assign) and len(a.targets) == 1 and isinstance(a.targets[0], ast.Name) \
                        and isinstance(b, (ast.Assign, ast.Expr, ast.Return, ast.AugAssign)):
                    t = a.targets[0].id
                    if counts.get(t) == [1, 1] and t not in nonlocal_names and t not in nested_uses \
                            and not any(isinstance(y, (ast.Await, ast.Yield, ast.YieldFrom, ast.NamedExpr, ast.Lambda,
                                                       ast.ListComp, ast.SetComp, ast.DictComp, ast.GeneratorExp, ast.IfExp, ast.BoolOp))
                                        for y in ast.walk(a.value)):
                        uses = [y for y in ast.walk(b) if isinstance(y, ast.Name) and y.id == t and isinstance(y.ctx, ast.Load)]
                        if len(uses) == 1 and any(isinstance(y, ast.Call) for y in ast.walk(a.value)):
                            # the value has a call: every call of b must enclose the use (arguments are evaluated first),
                            # and b must not be short-circuiting around it
                            anc = set()
                            for y in ast.walk(b):
                                for z in ast.iter_child_nodes(y):
                                    if not isinstance(z, (ast.expr_context, ast.operator, ast.cmpop, ast.boolop, ast.unaryop)):
                                        z._p = y        # (context / operator nodes are shared singletons: never annotated)
                            y = uses[0]
                            while getattr(y, "_p", None) is not None:
                                y = y._p
                                anc.add(id(y))
                            for y in ast.walk(b):
                                if hasattr(y, "_p"):
                                    del y._p
                            if any(isinstance(y, (ast.Call, ast.Await)) and id(y) not in anc for y in ast.walk(b)) or \
                                    any(isinstance(y, (ast.BoolOp, ast.IfExp, ast.Lambda, ast.ListComp, ast.SetComp, ast.DictComp, ast.GeneratorExp))
                                        for y in ast.walk(b)):
                                uses = []
                        stores_in_b = {y.id for y in ast.walk(b) if isinstance(y, ast.Name) and isinstance(y.ctx, ast.Store)}
                        reads_of_a = {y.id for y in ast.walk(a.value) if isinstance(y, ast.Name)}
                        if len(uses) == 1 and not (stores_in_b & reads_of_a) and not isinstance(b, ast.AugAssign):
                            class R(ast.NodeTransformer):
                                def visit_Name(self, n):
                                    if n.id == t and isinstance(n.ctx, ast.Load):
                                        return a.value
                                    return n
                            nb = R().visit(b)
                            if holder is None:
                                body[i + 1] = nb
                            elif isinstance(holder, ast.For):
                                holder.iter = nb.value
                            else:
                                holder.test = nb.value
                            del body[i]
                            continue
                i += 1
            for st in body:
                for fld in ("body", "orelse", "finalbody"):
                    sub = getattr(st, fld, None)
                    if isinstance(sub, list) and sub and isinstance(sub[0], ast.stmt) and not isinstance(st, (ast.FunctionDef, ast.AsyncFunctionDef, ast.ClassDef)):
                        process(sub)
                for h in getattr(st, "handlers", []) or []:
                    process(h.body)
        process(fn.body)

    def visit_FunctionDef(self, fn):
        self.generic_visit(fn)
        self._inline_in(fn)
        return fn

    visit_AsyncFunctionDef = visit_FunctionDef


def inline_temps(src):
    t = _InlineTemps().visit(ast.parse(src))
    ast.fix_missing_locations(t)
    return ast.unparse(t) + "\n"


class _ExtractArgs(ast.NodeTransformer):
    """`y = h(a, g(x))` -> `_xt1 = g(x); y = h(a, _xt1)`: the first call-valued argument of a statement-level call is
    given a name (only when everything evaluated before it is call-free, so the evaluation order is unchanged)."""

    def __init__(self):
        self.n = 0

    @staticmethod
    def _callfree(e):
        return not any(isinstance(y, (ast.Call, ast.Await, ast.Yield, ast.YieldFrom, ast.NamedExpr)) for y in ast.walk(e))

    def _process(self, body):
        out = []
        for st in body:
            for fld in ("body", "orelse", "finalbody"):
                sub = getattr(st, fld, None)
                if isinstance(sub, list) and sub and isinstance(sub[0], ast.stmt) and not isinstance(st, (ast.ClassDef,)):
                    setattr(st, fld, self._process(sub))
            for h in getattr(st, "handlers", []) or []:
                h.body = self._process(h.body)
            call = None
            if isinstance(st, (ast.Assign, ast.Return, ast.Expr)) and isinstance(st.value, ast.Call):
                call = st.value
            if call is not None and self._callfree(call.func) and not any(isinstance(a, ast.Starred) for a in call.args):
                if isinstance(st, ast.Assign) and not all(isinstance(t, ast.Name) for t in st.targets):
                    call = None     # a subscript / attribute target is evaluated after the value: fine, but keep it simple
            else:
                call = None
            if call is not None:
                items = [("a", i, a) for i, a in enumerate(call.args)] + [("k", i, k.value) for i, k in enumerate(call.keywords) if k.arg]
                for kind, i, a in items:
                    if self._callfree(a):
                        continue
                    if isinstance(a, ast.Call) and not any(isinstance(y, (ast.Lambda, ast.GeneratorExp, ast.ListComp, ast.SetComp, ast.DictComp,
                                                                          ast.Starred)) for y in ast.walk(a)):
                        self.n += 1
                        nm = f"_xt{self.n}"
                        out.append(ast.Assign(targets=[ast.Name(id=nm, ctx=ast.Store())], value=a))
                        if kind == "a":
                            call.args[i] = ast.Name(id=nm, ctx=ast.Load())
                        else:
                            call.keywords[i].value = ast.Name(id=nm, ctx=ast.Load())
                    break       # only the first call-valued argument
            out.append(st)
        return out

    def visit_FunctionDef(self, fn):
        self.generic_visit(fn)
        saved, self.n = self.n, 0
        fn.body = self._process(fn.body)
        self.n = saved
        return fn

    visit_AsyncFunctionDef = visit_FunctionDef


def extract_args(src):
    t = _ExtractArgs().visit(ast.parse(src))
    ast.fix_missing_locations(t)
    return ast.unparse(t) + "\n"


class _NestElse(ast.NodeTransformer):
    """`if c: ...; return x` followed by more statements  ->  `if c: ...; return x  else: <the rest>` (and the reverse
    direction for an existing else after a terminating body is NOT applied - one direction is enough to exercise rules
    that walk statement lists)."""

    @staticmethod
    def _terminates(body):
        return bool(body) and isinstance(body[-1], (ast.Return, ast.Raise, ast.Continue, ast.Break))

    def _process(self, body):
        out = []
        i = 0
        while i < len(body):
            st = body[i]
            for fld in ("body", "orelse", "finalbody"):
                sub = getattr(st, fld, None)
                if isinstance(sub, list) and sub and isinstance(sub[0], ast.stmt) and not isinstance(st, (ast.FunctionDef, ast.AsyncFunctionDef, ast.ClassDef)):
                    setattr(st, fld, self._process(sub))
            for h in getattr(st, "handlers", []) or []:
                h.body = self._process(h.body)
            rest = body[i + 1:]
            if isinstance(st, ast.If) and not st.orelse and self._terminates(st.body) and rest \
                    and not any(isinstance(r, (ast.FunctionDef, ast.AsyncFunctionDef, ast.ClassDef)) for r in rest):
                st.orelse = self._process(rest)
                out.append(st)
                return out
            out.append(st)
            i += 1
        return out

    def visit_FunctionDef(self, fn):
        self.generic_visit(fn)
        fn.body = self._process(fn.body)
        return fn

    visit_AsyncFunctionDef = visit_FunctionDef


def nest_else(src):
    t = _NestElse().visit(ast.parse(src))
    ast.fix_missing_locations(t)
    return ast.unparse(t) + "\n"


# ------------------------------------------------------------------ positional arguments written as keyword arguments
def _signature_index(trees):
    """name -> set of parameter tuples, for plain module-level functions ("f", name) and undecorated methods ("m", name) of
    the package; a name qualifies for rewriting only if all its definitions agree"""
    idx = {}

    def add(kind, fn, drop_self):
        a = fn.args
        ok = not a.posonlyargs and a.vararg is None and not fn.decorator_list
        ps = tuple(x.arg for x in a.args)
        if drop_self:
            ok = ok and bool(ps) and ps[0] == "self"
            ps = ps[1:]
        idx.setdefault((kind, fn.name), set()).add(ps if ok else None)
    for t in trees.values():
        for n in t.body:
            if isinstance(n, (ast.FunctionDef, ast.AsyncFunctionDef)):
                add("f", n, False)
            elif isinstance(n, ast.ClassDef):
                for m in ast.walk(n):
                    if isinstance(m, (ast.FunctionDef, ast.AsyncFunctionDef)):
                        add("m", m, True)
                    if isinstance(m, ast.Assign):          # an attribute of the same name may hold any callable
                        for tg in m.targets:
                            if isinstance(tg, ast.Attribute):
                                idx.setdefault(("m", tg.attr), set()).add(None)
        for n in ast.walk(t):                              # nested functions / classes shadow module-level names
            if isinstance(n, (ast.FunctionDef, ast.AsyncFunctionDef, ast.ClassDef)) and n not in t.body:
                if not any(n in getattr(c, "body", []) for c in t.body if isinstance(c, ast.ClassDef)):
                    idx.setdefault(("f", n.name), set()).add(None)
            if isinstance(n, ast.Attribute) and isinstance(n.ctx, ast.Store):
                idx.setdefault(("m", n.attr), set()).add(None)
    return {k: next(iter(v)) for k, v in idx.items() if len(v) == 1 and None not in v}


class _Keywordise(ast.NodeTransformer):
    def __init__(self, idx, module_funcs):
        self.idx = idx
        self.module_funcs = module_funcs     # names bound at module level to package functions (defined or imported from the package)
        self.shadow = [set()]

    def visit_FunctionDef(self, fn):
        a = fn.args
        names = {x.arg for x in a.posonlyargs + a.args + a.kwonlyargs}
        for x in (a.vararg, a.kwarg):
            if x:
                names.add(x.arg)
        for n in ast.walk(fn):
            if isinstance(n, ast.Name) and isinstance(n.ctx, ast.Store):
                names.add(n.id)
        self.shadow.append(names)
        self.generic_visit(fn)
        self.shadow.pop()
        return fn
    visit_AsyncFunctionDef = visit_FunctionDef

    def visit_Lambda(self, n):
        self.shadow.append({x.arg for x in n.args.args})
        self.generic_visit(n)
        self.shadow.pop()
        return n

    def visit_Call(self, c):
        self.generic_visit(c)
        if not c.args or any(isinstance(x, ast.Starred) for x in c.args) or any(k.arg is None for k in c.keywords):
            return c
        ps = None
        if isinstance(c.func, ast.Attribute) and isinstance(c.func.value, ast.Name) and c.func.value.id == "self":
            ps = self.idx.get(("m", c.func.attr))
        elif isinstance(c.func, ast.Name) and c.func.id in self.module_funcs and not any(c.func.id in s for s in self.shadow):
            ps = self.idx.get(("f", c.func.id))
        if ps is None or len(c.args) > len(ps) or any(k.arg in ps[:len(c.args)] for k in c.keywords):
            return c
        c.keywords = [ast.keyword(arg=p, value=v) for p, v in zip(ps, c.args)] + c.keywords
        c.args = []
        return c


def keywordise_package(sources, package="syne_tune"):
    """{path: text} -> {path: text} with the positional arguments of `self.m(...)` and of calls of the package's own
    module-level functions written as keyword arguments (only where every definition of that name in the package has
    the same parameter list, no *args, no positional-only parameters, no decorator)"""
    trees = {p: ast.parse(s) for p, s in sources.items()}
    idx = _signature_index(trees)
    out = {}
    for p, t in trees.items():
        mf = {n.name for n in t.body if isinstance(n, (ast.FunctionDef, ast.AsyncFunctionDef))}
        rebound = set()
        for n in t.body:
            if isinstance(n, ast.ImportFrom) and (n.level > 0 or (n.module or "").split(".")[0] == package):
                for a in n.names:
                    if a.asname is None or a.asname == a.name:
                        mf.add(a.name)
            elif isinstance(n, (ast.Import, ast.ImportFrom)):
                for a in n.names:
                    rebound.add((a.asname or a.name).split(".")[0])
            elif isinstance(n, (ast.Assign, ast.AnnAssign, ast.AugAssign)):
                for x in ast.walk(n):
                    if isinstance(x, ast.Name) and isinstance(x.ctx, ast.Store):
                        rebound.add(x.id)
        t2 = _Keywordise(idx, mf - rebound).visit(t)
        ast.fix_missing_locations(t2)
        out[p] = ast.unparse(t2) + "\n"
    return out


# ------------------------------------------------------------------ nested ifs <-> conjunctions
class _SplitAnd(ast.NodeTransformer):
    """`if a and b: X` (no else)  ->  `if a:` / `    if b: X`"""

    def visit_If(self, n):
        self.generic_visit(n)
        if not n.orelse and isinstance(n.test, ast.BoolOp) and isinstance(n.test.op, ast.And):
            inner = ast.If(test=n.test.values[-1], body=n.body, orelse=[])
            for v in reversed(n.test.values[:-1]):
                inner = ast.If(test=v, body=[inner], orelse=[])
            return ast.copy_location(inner, n)
        return n


class _MergeIf(ast.NodeTransformer):
    """`if a:` / `    if b: X` (neither has an else, nothing else in the outer body)  ->  `if a and b: X`"""

    def visit_If(self, n):
        self.generic_visit(n)
        if not n.orelse and len(n.body) == 1 and isinstance(n.body[0], ast.If) and not n.body[0].orelse:
            inner = n.body[0]
            vals = (n.test.values if isinstance(n.test, ast.BoolOp) and isinstance(n.test.op, ast.And) else [n.test]) + \
                   (inner.test.values if isinstance(inner.test, ast.BoolOp) and isinstance(inner.test.op, ast.And) else [inner.test])
            return ast.copy_location(ast.If(test=ast.BoolOp(op=ast.And(), values=list(vals)), body=inner.body, orelse=[]), n)
        return n


def split_and(src):
    t = _SplitAnd().visit(ast.parse(src))
    ast.fix_missing_locations(t)
    return ast.unparse(t) + "\n"


def merge_if(src):
    t = _MergeIf().visit(ast.parse(src))
    ast.fix_missing_locations(t)
    return ast.unparse(t) + "\n"
