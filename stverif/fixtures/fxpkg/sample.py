"""Tiny positive/negative examples the engine must classify on every run (never imported)."""
import numpy as np


class Box:
    def __init__(self):
        self.items = []
        self._seen = set()

    def keep(self, pred):
        self.items = list(filter(pred, self.items))

    def good_remove(self, key):
        self.keep(lambda x: x.key != key)

    def bad_remove(self, key):
        def pred(x):
            return x.key == key

        self.keep(pred)

    def add_then_check(self, x):
        self._seen.add(x)
        return self.check(x)

    def check_then_add(self, x):
        r = self.check(x)
        self._seen.add(x)
        return r

    def check(self, x):
        return x in self._seen

    def guarded(self, x):
        if x not in self._seen:
            self.items.append(x)

    def guarded_inverted(self, x):
        if x in self._seen:
            return
        self.items.append(x)

    def unguarded(self, x):
        if x in self._seen:
            pass
        self.items.append(x)

    def with_finally(self, x):
        try:
            self.check(x)
        finally:
            self.items.clear()

    def global_draw(self):
        return np.random.rand()


class SubBox(Box):
    def check(self, x):
        return super().check(x) and True
