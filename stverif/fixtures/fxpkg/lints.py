"""Positive / negative examples for the generic lints and value helpers (used by selftest only)."""
from typing import Optional


def falsy_default(bound: Optional[int] = None, lower: int = 1):
    return int(bound or lower)


def none_default(bound: Optional[int] = None, lower: int = 1):
    return lower if bound is None else int(bound)


def delete_ascending(items, bad):
    pos = [i for i, x in enumerate(items) if x in bad]
    for i in pos:
        del items[i]


def delete_descending(items, bad):
    pos = [i for i, x in enumerate(items) if x in bad]
    for i in reversed(pos):
        del items[i]


def g(x):
    return x + 1


def h(x):
    return x * 2


def nested(a):
    return h(g(a))


def with_temporary(a):
    t = g(a)
    return h(t)


def grows(src):
    out = []
    out.extend(src)
    return set(out)


class Keeper:
    def __init__(self):
        self.items = []

    def mutate_while_iterating(self, bad):
        for x in self.items:
            if x in bad:
                self.items.remove(x)

    def mutate_copy(self, bad):
        for x in list(self.items):
            if x in bad:
                self.items.remove(x)


class Record:
    def with_status(self, status):
        r = Record()
        r.status = status
        return r


class Table:
    def __init__(self):
        self.rows = {}
        self.low = {}

    def lost_update(self, key, status):
        row = self.rows[key]
        if not isinstance(row, Record):
            row = row.with_status(status)
        row.status = status

    def stored_update(self, key, status):
        row = self.rows[key]
        if not isinstance(row, Record):
            row = row.with_status(status)
            self.rows[key] = row
        row.status = status

    def zero_is_missing(self, key, value):
        self.low[key] = min(self.low.get(key) or value, value)

    def absent_is_missing(self, key, value):
        self.low[key] = min(self.low.get(key, value), value)


def make_rung(metric, mode, level):
    return (metric, mode, level)


def swapped_keyword(metric, mode):
    return make_rung(metric=metric, mode=metric, level=1)


def swapped_positional(metric, mode):
    return make_rung(mode, metric, 1)


def straight(metric, mode):
    return make_rung(metric, mode, level=1)


class Base:
    def __init__(self, mode="min"):
        self._mode = mode
        self._flag = True

    def hook(self, x):
        self.seen = x

    def uses(self):
        return self._flag, self._mode, self.seen


class Decider:
    def __init__(self, count, mode="min"):
        self.count = count
        self.mode = mode


class GoodChild(Base):
    def __init__(self, mode, options=None, **kwargs):
        super().__init__(mode)
        opts = dict(options) if options is not None else dict()
        opts["mode"] = mode
        self.decider = Decider(3, mode=mode)
        self.inner = Decider(**kwargs)

    def hook(self, x):
        super().hook(x)
        self.extra = x

    def read(self):
        return self.extra, self.decider, self.inner


class BadChild(Base):
    def __init__(self, mode, unused, options=None, **kwargs):
        super().__init__(mode)
        options["mode"] = mode
        self.flag = False
        self.decider = Decider(3)
        kwargs.pop("count")
        self.inner = Decider(**kwargs)

    def hook(self, x):
        if x is None:
            return
        super().hook(x)

    def read(self):
        return self.decider, self.inner
