"""Canonical form of a module's syntax tree, applied by the loader before anything is analysed.

Every pass is a behaviour-preserving rewrite (the same rewrites are used, in the other direction or as they are, as
equivalence variants of the sensitivity audit, where they were validated against the repository's own test suite).  Analysing
the canonical form instead of the text as written means that two programs which differ only in how they spell the same control
flow get the same verdict for the same reason:

* expand      `s.discard(k)`            -> `if k in s: s.remove(k)`
              `d.pop(k, None)` (stmt)   -> `if k in d: del d[k]`;   `x = d.pop(k, None)` -> `x = d.get(k)` / `if k in d: del d[k]`
              `d.setdefault(k, []).append(v)` (stmt) -> `if k in d: d[k].append(v)` / `else: d[k] = [v]`
* nest        statements after an `if` whose body ends in return / raise / continue / break move into its `else`
* orient      `if not c: A else: B`     -> `if c: B else: A`     (statements and conditional expressions)
* merge       `if a:` / `    if b: X` (no else anywhere, nothing else in the outer body) -> `if a and b: X`
* compare     `b > a` -> `a < b`, `b >= a` -> `a <= b`; `None == x` / `CONST is x` -> constant on the right
* comprehend  `x = []` + `for t in it: [if c:] x.append(e)` -> `x = [e for t in it if c]`; same for dict / set
* alias       `t = E` + `X = t` / `return t` (t used nowhere else) -> `X = E` / `return E`
Locations of the original nodes are kept (new nodes take the location of the node they replace), so reports still point at
the source line.
"""
import ast
import copy


def _terminates(body):
    return bool(body) and isinstance(body[-1], (ast.Return, ast.Raise, ast.Continue, ast.Break))


def _simple(e):
    """an expression without side effects that can be evaluated twice"""
    return not any(isinstance(y, (ast.Call, ast.Await, ast.Yield, ast.YieldFrom, ast.NamedExpr, ast.Lambda, ast.GeneratorExp,
                                  ast.ListComp, ast.SetComp, ast.DictComp)) for y in ast.walk(e))


def _same(a, b):
    return ast.dump(a) == ast.dump(b)


def _loc(new, old):
    ast.copy_location(new, old)
    for n in ast.walk(new):
        if not hasattr(n, "lineno") and isinstance(n, (ast.expr, ast.stmt)):
            ast.copy_location(n, old)
    return new


class _Bodies(ast.NodeTransformer):
    """helper: apply `self.process(list of statements) -> list of statements` to every statement list"""

    def process(self, body):
        return body

    def _do(self, node):
        self.generic_visit(node)
        for fld in ("body", "orelse", "finalbody"):
            sub = getattr(node, fld, None)
            if isinstance(sub, list) and sub and isinstance(sub[0], ast.stmt):
                new = self.process(sub)
                setattr(node, fld, new if new or fld != "body" else [ast.Pass()])
        return node

    visit_FunctionDef = visit_AsyncFunctionDef = visit_If = visit_For = visit_While = visit_With = visit_Try = visit_ExceptHandler = _do
    visit_Module = visit_ClassDef = visit_AsyncFor = visit_AsyncWith = _do


class Expand(_Bodies):
    def process(self, body):
        out = []
        for st in body:
            rep = None
            # try: x = d[k]  except KeyError: A  [else: B]      ->      if k in d: x = d[k]; B  else: A
            # (the only thing in the try body that can raise KeyError is the look-up of the simple key k in the simple container d)
            if isinstance(st, ast.Try) and len(st.handlers) == 1 and not st.finalbody and len(st.body) == 1 \
                    and isinstance(st.handlers[0].type, ast.Name) and st.handlers[0].type.id == "KeyError" and st.handlers[0].name is None \
                    and isinstance(st.body[0], (ast.Assign, ast.Expr)):
                val = st.body[0].value
                subs = [y for y in ast.walk(val) if isinstance(y, ast.Subscript)]
                calls = [y for y in ast.walk(st.body[0]) if isinstance(y, (ast.Call, ast.Await, ast.Yield, ast.YieldFrom))]
                tg_ok = not isinstance(st.body[0], ast.Assign) or all(isinstance(y, (ast.Name, ast.Tuple, ast.List, ast.Store)) or isinstance(y, ast.expr_context)
                                                                       for t_ in st.body[0].targets for y in ast.walk(t_))
                if len(subs) == 1 and val is subs[0] and not calls and tg_ok and _simple(subs[0].value) and _simple(subs[0].slice):
                    d, k = subs[0].value, subs[0].slice
                    out.append(_loc(ast.If(test=ast.Compare(left=copy.deepcopy(k), ops=[ast.In()], comparators=[copy.deepcopy(d)]),
                                           body=[st.body[0]] + list(st.orelse), orelse=list(st.handlers[0].body)), st))
                    continue
            if isinstance(st, ast.Expr) and isinstance(st.value, ast.Call) and isinstance(st.value.func, ast.Attribute) and not st.value.keywords:
                c = st.value
                recv = c.func.value
                if c.func.attr == "discard" and len(c.args) == 1 and _simple(recv) and _simple(c.args[0]):
                    k = c.args[0]
                    rep = ast.If(test=ast.Compare(left=copy.deepcopy(k), ops=[ast.In()], comparators=[copy.deepcopy(recv)]),
                                 body=[ast.Expr(value=ast.Call(func=ast.Attribute(value=copy.deepcopy(recv), attr="remove", ctx=ast.Load()),
                                                               args=[copy.deepcopy(k)], keywords=[]))], orelse=[])
                elif c.func.attr == "pop" and len(c.args) == 2 and isinstance(c.args[1], ast.Constant) and c.args[1].value is None \
                        and _simple(recv) and _simple(c.args[0]):
                    k = c.args[0]
                    rep = ast.If(test=ast.Compare(left=copy.deepcopy(k), ops=[ast.In()], comparators=[copy.deepcopy(recv)]),
                                 body=[ast.Delete(targets=[ast.Subscript(value=copy.deepcopy(recv), slice=copy.deepcopy(k), ctx=ast.Del())])], orelse=[])
                elif c.func.attr == "append" and len(c.args) == 1 and isinstance(recv, ast.Call) and isinstance(recv.func, ast.Attribute) \
                        and recv.func.attr == "setdefault" and len(recv.args) == 2 and isinstance(recv.args[1], ast.List) and not recv.args[1].elts \
                        and _simple(recv.func.value) and _simple(recv.args[0]):
                    d, k, v = recv.func.value, recv.args[0], c.args[0]
                    sub = lambda ctx: ast.Subscript(value=copy.deepcopy(d), slice=copy.deepcopy(k), ctx=ctx)
                    rep = ast.If(test=ast.Compare(left=copy.deepcopy(k), ops=[ast.In()], comparators=[copy.deepcopy(d)]),
                                 body=[ast.Expr(value=ast.Call(func=ast.Attribute(value=sub(ast.Load()), attr="append", ctx=ast.Load()), args=[v], keywords=[]))],
                                 orelse=[ast.Assign(targets=[sub(ast.Store())], value=ast.List(elts=[copy.deepcopy(v)], ctx=ast.Load()))])
            if rep is None and isinstance(st, ast.Expr) and isinstance(st.value, ast.Call) and isinstance(st.value.func, ast.Attribute) \
                    and st.value.func.attr == "setdefault" and len(st.value.args) == 2 and not st.value.keywords \
                    and _simple(st.value.func.value) and _simple(st.value.args[1]):
                # d.setdefault(k, v) as a statement  ->  [t = k;] if k not in d: d[k] = v        (v simple: evaluating it is no effect)
                d, k, v = st.value.func.value, st.value.args[0], st.value.args[1]
                if not _simple(k):
                    tmp = ast.Name(id=f"_sd_key_{getattr(st, 'lineno', 0)}", ctx=ast.Load())
                    out.append(_loc(ast.Assign(targets=[ast.Name(id=tmp.id, ctx=ast.Store())], value=k), st))
                    k = tmp
                rep = ast.If(test=ast.Compare(left=copy.deepcopy(k), ops=[ast.NotIn()], comparators=[copy.deepcopy(d)]),
                             body=[ast.Assign(targets=[ast.Subscript(value=copy.deepcopy(d), slice=copy.deepcopy(k), ctx=ast.Store())], value=v)], orelse=[])
            if rep is None and isinstance(st, ast.Assign) and len(st.targets) == 1 and isinstance(st.targets[0], ast.Name) and isinstance(st.value, ast.Call) \
                    and isinstance(st.value.func, ast.Attribute) and st.value.func.attr == "pop" and len(st.value.args) == 2 and not st.value.keywords \
                    and isinstance(st.value.args[1], ast.Constant) and st.value.args[1].value is None and _simple(st.value.func.value) and _simple(st.value.args[0]):
                # x = d.pop(k, None)  ->  x = d.get(k) ; if k in d: del d[k]
                d, k = st.value.func.value, st.value.args[0]
                get = ast.Assign(targets=st.targets, value=ast.Call(func=ast.Attribute(value=copy.deepcopy(d), attr="get", ctx=ast.Load()), args=[copy.deepcopy(k)], keywords=[]))
                rm = ast.If(test=ast.Compare(left=copy.deepcopy(k), ops=[ast.In()], comparators=[copy.deepcopy(d)]),
                            body=[ast.Delete(targets=[ast.Subscript(value=copy.deepcopy(d), slice=copy.deepcopy(k), ctx=ast.Del())])], orelse=[])
                out.append(_loc(get, st))
                out.append(_loc(rm, st))
                continue
            out.append(_loc(rep, st) if rep is not None else st)
        return out


class Nest(_Bodies):
    def process(self, body):
        for i, st in enumerate(body):
            if isinstance(st, ast.If) and i + 1 < len(body):
                rest = body[i + 1:]
                if _terminates(st.body) and not st.orelse:
                    st.orelse = self.process(rest)
                    return body[:i + 1]
        return body


class Default(_Bodies):
    """`x = A` (A call-free) followed - other such defaults in between - by `if c: ...; x = B; ...` without else, where c does not
    read x and the branch assigns x at its top level before mentioning it otherwise: the default moves into an else branch
    (`if c: ... else: x = A`), which is how the two-armed form is written"""

    @staticmethod
    def _callfree(e):
        return not any(isinstance(y, (ast.Call, ast.Await, ast.Yield, ast.YieldFrom, ast.NamedExpr, ast.Lambda, ast.ListComp, ast.SetComp,
                                      ast.DictComp, ast.GeneratorExp)) for y in ast.walk(e))

    @staticmethod
    def _mentions(node, name):
        return any(isinstance(y, ast.Name) and y.id == name for y in ast.walk(node))

    def process(self, body):
        body = list(body)
        i = 0
        while i < len(body):
            st = body[i]
            if isinstance(st, ast.If) and not st.orelse:
                moved = []
                j = i - 1
                while j >= 0:
                    d = body[j]
                    if not (isinstance(d, ast.Assign) and len(d.targets) == 1 and isinstance(d.targets[0], ast.Name) and self._callfree(d.value)):
                        break
                    x = d.targets[0].id
                    # overwritten at the top level of the branch before any other mention there; not read by the test, nor by
                    # the defaults already taken (they stand after it)
                    first = next((k for k, s in enumerate(st.body) if self._mentions(s, x)), None)
                    # (nothing in front of that assignment leaves the branch for the code after the `if`: a break / continue there would reach
                    # a later use with the default)
                    early = first is not None and any(isinstance(y, (ast.Break, ast.Continue)) for s in st.body[:first] for y in ast.walk(s))
                    ok = first is not None and not early and isinstance(st.body[first], ast.Assign) and len(st.body[first].targets) == 1 \
                        and isinstance(st.body[first].targets[0], ast.Name) and st.body[first].targets[0].id == x \
                        and not self._mentions(st.body[first].value, x) and not self._mentions(st.test, x) \
                        and not any(self._mentions(m, x) for m in moved) \
                        and not any(self._mentions(d.value, m.targets[0].id) for m in moved)
                    if not ok:
                        break
                    moved.insert(0, d)
                    j -= 1
                if moved:
                    st.orelse = moved
                    del body[j + 1:i]
                    i = j + 1
            i += 1
        return body


class Ternary(ast.NodeTransformer):
    """`if c: d[k] = A else: d[k] = B` (the same subscript target in both arms, nothing else in them) is the store
    `d[k] = A if c else B`: evaluation order is the same (test, chosen value, then the target).  Only stores into a container are
    rewritten - assignments to plain names keep their statement form, which the path rules read conditions from."""

    def visit_If(self, n):
        self.generic_visit(n)
        if len(n.body) == 1 and len(n.orelse) == 1 and isinstance(n.body[0], ast.Assign) and isinstance(n.orelse[0], ast.Assign):
            a, b = n.body[0], n.orelse[0]
            if len(a.targets) == 1 and len(b.targets) == 1 and isinstance(a.targets[0], ast.Subscript) \
                    and ast.dump(a.targets[0]) == ast.dump(b.targets[0]):
                return _loc(ast.Assign(targets=a.targets, value=_loc(ast.IfExp(test=n.test, body=a.value, orelse=b.value), n)), n)
        return n


_POSITIVE = {ast.NotIn: ast.In, ast.IsNot: ast.Is, ast.NotEq: ast.Eq}


class Orient(ast.NodeTransformer):
    """two-armed conditionals are written with the positive test: `not c`, `a not in b`, `a is not b`, `a != b` swap the arms"""

    @staticmethod
    def _negative(t):
        if isinstance(t, ast.UnaryOp) and isinstance(t.op, ast.Not):
            return t.operand
        if isinstance(t, ast.Compare) and len(t.ops) == 1 and type(t.ops[0]) in _POSITIVE:
            return ast.copy_location(ast.Compare(left=t.left, ops=[_POSITIVE[type(t.ops[0])]()], comparators=t.comparators), t)
        return None

    def visit_If(self, n):
        self.generic_visit(n)
        while n.orelse and not (len(n.orelse) == 1 and isinstance(n.orelse[0], ast.If)) and self._negative(n.test) is not None:
            n.test, n.body, n.orelse = self._negative(n.test), n.orelse, n.body
        return n

    def visit_IfExp(self, n):
        self.generic_visit(n)
        while self._negative(n.test) is not None:
            n.test, n.body, n.orelse = self._negative(n.test), n.orelse, n.body
        return n


class Merge(ast.NodeTransformer):
    def visit_If(self, n):
        self.generic_visit(n)
        if not n.orelse and len(n.body) == 1 and isinstance(n.body[0], ast.If) and not n.body[0].orelse:
            inner = n.body[0]
            vals = (n.test.values if isinstance(n.test, ast.BoolOp) and isinstance(n.test.op, ast.And) else [n.test]) + \
                   (inner.test.values if isinstance(inner.test, ast.BoolOp) and isinstance(inner.test.op, ast.And) else [inner.test])
            n.test = _loc(ast.BoolOp(op=ast.And(), values=list(vals)), n.test)
            n.body = inner.body
        return n


_MIRROR = {ast.Gt: ast.Lt, ast.GtE: ast.LtE}
_SYM = (ast.Eq, ast.NotEq, ast.Is, ast.IsNot)


def _constantish(e):
    if isinstance(e, ast.Constant):
        return True
    if isinstance(e, ast.UnaryOp) and isinstance(e.operand, ast.Constant):
        return True
    if isinstance(e, ast.Attribute) and isinstance(e.value, ast.Name) and e.value.id[:1].isupper():
        return True     # Status.paused, SchedulerDecision.STOP
    return False


class Compare(ast.NodeTransformer):
    def visit_Compare(self, n):
        self.generic_visit(n)
        if len(n.ops) != 1:
            return n
        l, r = n.left, n.comparators[0]
        both_calls = all(any(isinstance(y, (ast.Call, ast.Await, ast.Yield, ast.NamedExpr)) for y in ast.walk(x)) for x in (l, r))
        if both_calls:
            return n
        if type(n.ops[0]) in _MIRROR:
            n.left, n.comparators, n.ops = r, [l], [_MIRROR[type(n.ops[0])]()]
        elif isinstance(n.ops[0], _SYM) and _constantish(l) and not _constantish(r):
            n.left, n.comparators = r, [l]
        return n


class Comprehend(_Bodies):
    """accumulation loops that only append / add / assign become comprehensions (only if the loop variables are used nowhere else
    in the function: a comprehension does not leak them)"""

    def __init__(self):
        self.fn = []

    def visit_FunctionDef(self, node):
        self.fn.append(node)
        try:
            return self._do(node)
        finally:
            self.fn.pop()

    visit_AsyncFunctionDef = visit_FunctionDef

    def _leaks(self, loop):
        names = {y.id for y in ast.walk(loop.target) if isinstance(y, ast.Name)}
        inside = {id(y) for y in ast.walk(loop)}
        scope = self.fn[-1] if self.fn else None
        if scope is None:
            return True
        # occurrences inside another loop / comprehension that binds the name itself (and is not nested with this loop) are
        # that loop's own variable, not a use of what this loop leaves behind
        own = set()         # (name, id of occurrence) pairs that belong to another binder of that name
        for other in ast.walk(scope):
            if other is loop or id(other) in inside:
                continue
            if isinstance(other, ast.For) and not any(z is loop for z in ast.walk(other)):
                tn = {y.id for y in ast.walk(other.target) if isinstance(y, ast.Name)}
                for part in [other.target] + other.body:
                    for y in ast.walk(part):
                        if isinstance(y, ast.Name) and y.id in tn:
                            own.add(id(y))
            elif isinstance(other, (ast.ListComp, ast.SetComp, ast.DictComp, ast.GeneratorExp)):
                tn = {y.id for g in other.generators for y in ast.walk(g.target) if isinstance(y, ast.Name)}
                first_iter = {id(y) for y in ast.walk(other.generators[0].iter)}
                for y in ast.walk(other):
                    if isinstance(y, ast.Name) and y.id in tn and id(y) not in first_iter:
                        own.add(id(y))
        return any(isinstance(y, ast.Name) and y.id in names and id(y) not in inside and id(y) not in own for y in ast.walk(scope))

    @staticmethod
    def _empty(v):
        if isinstance(v, ast.List) and not v.elts:
            return "list"
        if isinstance(v, ast.Dict) and not v.keys:
            return "dict"
        if isinstance(v, ast.Call) and isinstance(v.func, ast.Name) and not v.args and not v.keywords and v.func.id in ("list", "dict", "set"):
            return v.func.id
        return None

    def _sink(self, body):
        """`x = []` (or {} / set() / 0) separated from the loop that fills x by simple statements that do not mention x is moved down
        to stand directly before that loop"""
        body = list(body)
        i = 0
        while i < len(body):
            st = body[i]
            if isinstance(st, ast.Assign) and len(st.targets) == 1 and isinstance(st.targets[0], ast.Name) and (
                    self._empty(st.value) or (isinstance(st.value, ast.Constant) and st.value.value == 0 and type(st.value.value) is int)):
                name = st.targets[0].id
                mentions = lambda s: any(isinstance(y, ast.Name) and y.id == name for y in ast.walk(s))
                j = i + 1
                while j < len(body) and isinstance(body[j], (ast.Assign, ast.AnnAssign, ast.AugAssign, ast.Expr, ast.Assert)) and not mentions(body[j]):
                    j += 1
                is_init = lambda s: isinstance(s, ast.Assign) and len(s.targets) == 1 and isinstance(s.targets[0], ast.Name) and (
                    self._empty(s.value) or (isinstance(s.value, ast.Constant) and s.value.value == 0 and type(s.value.value) is int))
                if j > i + 1 and j < len(body) and isinstance(body[j], ast.For) and mentions(body[j]) and not mentions(body[j].iter) \
                        and not all(is_init(s) for s in body[i + 1:j]):
                    body.insert(j - 1, body.pop(i))
                    continue        # the statement now at i is examined next
            i += 1
        return body

    def process(self, body):
        body = self._sink(body)
        out = []
        i = 0
        while i < len(body):
            st = body[i]
            nxt = body[i + 1] if i + 1 < len(body) else None
            done = False
            # the container that is filled: a local, or an attribute of self (then nothing in the loop may call a method of self, which
            # could look at the half-filled attribute)
            tgt0 = st.targets[0] if isinstance(st, ast.Assign) and len(st.targets) == 1 else None
            is_attr = isinstance(tgt0, ast.Attribute) and isinstance(tgt0.value, ast.Name) and tgt0.value.id == "self"
            if (isinstance(tgt0, ast.Name) or is_attr) and self._empty(st.value) \
                    and isinstance(nxt, ast.For) and not nxt.orelse and len(nxt.body) == 1:
                kind, name = self._empty(st.value), ast.unparse(tgt0)
                inner, conds = nxt.body[0], []
                while isinstance(inner, ast.If) and not inner.orelse and len(inner.body) == 1:
                    conds.append(inner.test)
                    inner = inner.body[0]
                is_it = lambda y: isinstance(y, (ast.Name, ast.Attribute)) and ast.unparse(y) == name
                uses_self = lambda e: any(is_it(y) for y in ast.walk(e))
                calls_self = is_attr and any(isinstance(y, ast.Call) and isinstance(y.func, ast.Attribute) and isinstance(y.func.value, ast.Name)
                                             and y.func.value.id == "self" for y in ast.walk(nxt))
                gen = lambda: [ast.comprehension(target=nxt.target, iter=nxt.iter, ifs=conds, is_async=0)]
                new = None
                if not uses_self(nxt.iter) and not any(uses_self(c) for c in conds) and not self._leaks(nxt) and not calls_self:
                    if kind == "list" and isinstance(inner, ast.Expr) and isinstance(inner.value, ast.Call) and isinstance(inner.value.func, ast.Attribute) \
                            and inner.value.func.attr == "append" and is_it(inner.value.func.value) \
                            and len(inner.value.args) == 1 and not inner.value.keywords and not uses_self(inner.value.args[0]):
                        new = ast.ListComp(elt=inner.value.args[0], generators=gen())
                    elif kind == "set" and isinstance(inner, ast.Expr) and isinstance(inner.value, ast.Call) and isinstance(inner.value.func, ast.Attribute) \
                            and inner.value.func.attr == "add" and is_it(inner.value.func.value) \
                            and len(inner.value.args) == 1 and not uses_self(inner.value.args[0]):
                        new = ast.SetComp(elt=inner.value.args[0], generators=gen())
                    elif kind == "dict" and isinstance(inner, ast.Assign) and len(inner.targets) == 1 and isinstance(inner.targets[0], ast.Subscript) \
                            and is_it(inner.targets[0].value) \
                            and not uses_self(inner.value) and not uses_self(inner.targets[0].slice):
                        new = ast.DictComp(key=inner.targets[0].slice, value=inner.value, generators=gen())
                if new is not None:
                    st.value = _loc(new, nxt)
                    out.append(st)
                    i += 2
                    done = True
            # n = 0; for x in it: [if c:] n += e      ->      n = sum(e for x in it [if c])
            if not done and isinstance(st, ast.Assign) and len(st.targets) == 1 and isinstance(st.targets[0], ast.Name) \
                    and isinstance(st.value, ast.Constant) and st.value.value == 0 and type(st.value.value) is int \
                    and isinstance(nxt, ast.For) and not nxt.orelse and len(nxt.body) == 1:
                name = st.targets[0].id
                inner, conds = nxt.body[0], []
                while isinstance(inner, ast.If) and not inner.orelse and len(inner.body) == 1:
                    conds.append(inner.test)
                    inner = inner.body[0]
                uses_self = lambda e: any(isinstance(y, ast.Name) and y.id == name for y in ast.walk(e))
                if isinstance(inner, ast.AugAssign) and isinstance(inner.op, ast.Add) and isinstance(inner.target, ast.Name) and inner.target.id == name \
                        and not uses_self(inner.value) and not uses_self(nxt.iter) and not any(uses_self(c) for c in conds) and not self._leaks(nxt):
                    gen = ast.GeneratorExp(elt=inner.value, generators=[ast.comprehension(target=nxt.target, iter=nxt.iter, ifs=conds, is_async=0)])
                    st.value = _loc(ast.Call(func=ast.Name(id="sum", ctx=ast.Load()), args=[gen], keywords=[]), nxt)
                    out.append(st)
                    i += 2
                    done = True
            if not done:
                out.append(st)
                i += 1
        return out


class Alias(_Bodies):
    """`t = E` immediately followed by `X = t` / `return t` (t read nowhere else in the function) -> `X = E` / `return E`"""

    def __init__(self):
        self.fn = []

    def visit_FunctionDef(self, node):
        self.fn.append(node)
        try:
            return self._do(node)
        finally:
            self.fn.pop()

    visit_AsyncFunctionDef = visit_FunctionDef

    def process(self, body):
        if not self.fn:
            return body
        i = 0
        while i + 1 < len(body):
            a, b = body[i], body[i + 1]
            if isinstance(a, ast.Assign) and len(a.targets) == 1 and isinstance(a.targets[0], ast.Name) and isinstance(b, (ast.Assign, ast.Return)) \
                    and isinstance(b.value, ast.Name) and b.value.id == a.targets[0].id:
                t = a.targets[0].id
                uses = [y for y in ast.walk(self.fn[-1]) if isinstance(y, ast.Name) and y.id == t]
                if len(uses) == 2 and not any(isinstance(y, (ast.Global, ast.Nonlocal)) and t in y.names for y in ast.walk(self.fn[-1])):
                    b.value = a.value
                    del body[i]
                    continue
            i += 1
        return body


class FirstMatch(_Bodies):
    """`x = next((E for v in it if c), D)` (D a constant or a name) is the first-match loop
    `x = D; for v in it: if c: x = E; break` - when v is used nowhere else in the function (the generator does not leak it)"""

    def __init__(self):
        self.fn = []
        self.loops = 0

    def visit_FunctionDef(self, node):
        self.fn.append(node)
        saved, self.loops = self.loops, 0
        try:
            return self._do(node)
        finally:
            self.fn.pop()
            self.loops = saved

    visit_AsyncFunctionDef = visit_FunctionDef

    def visit_For(self, node):
        self.loops += 1
        try:
            return self._do(node)
        finally:
            self.loops -= 1

    visit_While = visit_AsyncFor = visit_For

    def process(self, body):
        out = []
        # a generator expression held in a local that is used once, as the first argument of next(): written in place
        body = list(body)
        for i_, st in enumerate(body):
            v = st.value if isinstance(st, ast.Assign) and len(st.targets) == 1 and isinstance(st.targets[0], ast.Name) else None
            if self.fn and isinstance(v, ast.Call) and isinstance(v.func, ast.Name) and v.func.id == "next" and len(v.args) == 2 and isinstance(v.args[0], ast.Name):
                g_ = v.args[0].id
                uses = [y for y in ast.walk(self.fn[-1]) if isinstance(y, ast.Name) and y.id == g_]
                defs = [(j_, s_) for j_, s_ in enumerate(body[:i_]) if isinstance(s_, ast.Assign) and len(s_.targets) == 1
                        and isinstance(s_.targets[0], ast.Name) and s_.targets[0].id == g_ and isinstance(s_.value, ast.GeneratorExp)]
                between_ok = defs and all(isinstance(s_, ast.Assign) and not any(isinstance(y, ast.Call) and not (
                    isinstance(y.func, ast.Name) and y.func.id == "object") for y in ast.walk(s_.value)) for s_ in body[defs[-1][0] + 1:i_])
                if len(uses) == 2 and len(defs) == 1 and between_ok:
                    v.args[0] = defs[0][1].value
                    body[defs[0][0]] = None
        body = [s_ for s_ in body if s_ is not None]
        for st in body:
            v = st.value if isinstance(st, ast.Assign) and len(st.targets) == 1 and isinstance(st.targets[0], ast.Name) else None
            if self.fn and isinstance(v, ast.Call) and isinstance(v.func, ast.Name) and v.func.id == "next" and len(v.args) == 2 and not v.keywords \
                    and isinstance(v.args[0], ast.GeneratorExp) and len(v.args[0].generators) == 1 \
                    and st.targets[0].id in {y.id for y in ast.walk(v.args[0].generators[0].target) if isinstance(y, ast.Name)} \
                    and not any(isinstance(y, ast.Name) and y.id == st.targets[0].id for y in ast.walk(v.args[0].generators[0].iter)):
                # x = next((.. for x in ..), d): the generator's own x is another variable - it gets another name
                tn_ = st.targets[0].id
                for y in ast.walk(v.args[0]):
                    if isinstance(y, ast.Name) and y.id == tn_:
                        y.id = "_fm_" + tn_
            if self.fn and isinstance(v, ast.Call) and isinstance(v.func, ast.Name) and v.func.id == "next" and len(v.args) == 2 and not v.keywords \
                    and isinstance(v.args[0], ast.GeneratorExp) and len(v.args[0].generators) == 1 and not v.args[0].generators[0].is_async \
                    and isinstance(v.args[1], (ast.Constant, ast.Name)):
                ge, gen, tname = v.args[0], v.args[0].generators[0], st.targets[0].id
                bound = {y.id for y in ast.walk(gen.target) if isinstance(y, ast.Name)}
                inside = {id(y) for y in ast.walk(ge)}
                outside = [y for y in ast.walk(self.fn[-1]) if isinstance(y, ast.Name) and y.id in bound and id(y) not in inside]
                leaks = bool(outside)
                if leaks and not self.loops:
                    # the function has variables of the same names, but (outside any loop) they are all assigned after this
                    # statement before they are read: what the unrolled loop leaves in them is never seen
                    after = all((y.lineno, y.col_offset) > (st.end_lineno, st.end_col_offset) for y in outside)
                    first = {}
                    for y in sorted(outside, key=lambda y: (y.lineno, y.col_offset)):
                        first.setdefault(y.id, y)
                    leaks = not (after and all(isinstance(y.ctx, ast.Store) for y in first.values()))
                mentions = any(isinstance(y, ast.Name) and y.id == tname for y in ast.walk(ge))
                if not leaks and not mentions and tname not in bound:
                    hit = [_loc(ast.Assign(targets=[ast.Name(id=tname, ctx=ast.Store())], value=ge.elt), st), _loc(ast.Break(), st)]
                    inner = hit
                    if gen.ifs:
                        test = gen.ifs[0] if len(gen.ifs) == 1 else _loc(ast.BoolOp(op=ast.And(), values=list(gen.ifs)), gen.ifs[0])
                        inner = [_loc(ast.If(test=test, body=hit, orelse=[]), st)]
                    out.append(_loc(ast.Assign(targets=[ast.Name(id=tname, ctx=ast.Store())], value=v.args[1]), st))
                    out.append(_loc(ast.For(target=gen.target, iter=gen.iter, body=inner, orelse=[], type_comment=None), st))
                    for y in ast.walk(gen.target):
                        if isinstance(y, ast.Name):
                            y.ctx = ast.Store()
                    continue
            # i = 0; while i < N: i += 1; body     ->     for i in range(N): body       (i counts the rounds and nothing else: not read in the
            # body or after the loop, incremented once at the top level - first, or last with no `continue` - and N is a name or constant the
            # body does not assign)
            tst = st.test if isinstance(st, ast.While) else None
            if isinstance(tst, ast.Compare) and len(tst.ops) == 1 and isinstance(tst.ops[0], ast.Gt) and isinstance(tst.comparators[0], ast.Name):
                tst = ast.Compare(left=tst.comparators[0], ops=[ast.Lt()], comparators=[tst.left])        # N > i read as i < N
            if self.fn and isinstance(st, ast.While) and not st.orelse and out and isinstance(tst, ast.Compare) and len(tst.ops) == 1 \
                    and isinstance(tst.ops[0], ast.Lt) and isinstance(tst.left, ast.Name) \
                    and isinstance(tst.comparators[0], (ast.Name, ast.Constant)):
                iv, bound_e = tst.left.id, tst.comparators[0]
                prev = out[-1]
                init = isinstance(prev, ast.Assign) and len(prev.targets) == 1 and isinstance(prev.targets[0], ast.Name) and prev.targets[0].id == iv \
                    and isinstance(prev.value, ast.Constant) and prev.value.value == 0 and type(prev.value.value) is int
                is_inc = lambda s: (isinstance(s, ast.AugAssign) and isinstance(s.op, ast.Add) and isinstance(s.target, ast.Name) and s.target.id == iv
                                    and isinstance(s.value, ast.Constant) and s.value.value == 1) or \
                    (isinstance(s, ast.Assign) and len(s.targets) == 1 and isinstance(s.targets[0], ast.Name) and s.targets[0].id == iv
                     and ast.unparse(s.value).replace(" ", "") in (f"{iv}+1", f"1+{iv}"))
                incs = [k for k, s in enumerate(st.body) if is_inc(s)]
                rest = [s for k, s in enumerate(st.body) if k not in incs]
                mentions = lambda nodes, nm: any(isinstance(y, ast.Name) and y.id == nm for s in nodes for y in ast.walk(s))
                has_continue = any(isinstance(y, ast.Continue) for s in rest for y in ast.walk(s))
                inside = {id(y) for y in ast.walk(st)} | {id(y) for y in ast.walk(prev)}
                used_elsewhere = any(isinstance(y, ast.Name) and y.id == iv and id(y) not in inside for y in ast.walk(self.fn[-1]))
                bound_ok = isinstance(bound_e, ast.Constant) or not any(isinstance(y, ast.Name) and y.id == bound_e.id and isinstance(y.ctx, ast.Store)
                                                                       for s in st.body for y in ast.walk(s))
                stores_iv = any(isinstance(y, ast.Name) and y.id == iv and isinstance(y.ctx, (ast.Store, ast.Del)) for s in rest for y in ast.walk(s))
                last_inc = len(incs) == 1 and incs[0] == len(st.body) - 1 and not has_continue
                if init and len(incs) == 1 and rest and not used_elsewhere and bound_ok and not stores_iv and \
                        ((incs[0] == 0 and not mentions(rest, iv)) or last_inc):     # incremented last: the body sees the loop value
                    out.pop()
                    rng = ast.Call(func=ast.Name(id="range", ctx=ast.Load()), args=[bound_e], keywords=[])
                    out.append(_loc(ast.For(target=ast.Name(id=iv, ctx=ast.Store()), iter=rng, body=rest, orelse=[], type_comment=None), st))
                    continue
            # k = E; while 0 <= k: body(k); k -= 1      ->     for k in range(E, -1, -1): body(k)
            tst = st.test if isinstance(st, ast.While) else None
            if isinstance(tst, ast.Compare) and len(tst.ops) == 1 and isinstance(tst.ops[0], ast.GtE) and isinstance(tst.left, ast.Name):
                tst = ast.Compare(left=tst.comparators[0], ops=[ast.LtE()], comparators=[tst.left])        # k >= 0 read as 0 <= k
            if self.fn and isinstance(st, ast.While) and not st.orelse and out and isinstance(tst, ast.Compare) and len(tst.ops) == 1 \
                    and isinstance(tst.ops[0], ast.LtE) and isinstance(tst.left, ast.Constant) and tst.left.value == 0 \
                    and isinstance(tst.comparators[0], ast.Name) and len(st.body) >= 2:
                kv = tst.comparators[0].id
                prev = out[-1]
                init = isinstance(prev, ast.Assign) and len(prev.targets) == 1 and isinstance(prev.targets[0], ast.Name) and prev.targets[0].id == kv
                lastst = st.body[-1]
                is_dec = isinstance(lastst, ast.AugAssign) and isinstance(lastst.op, ast.Sub) and isinstance(lastst.target, ast.Name) and lastst.target.id == kv \
                    and isinstance(lastst.value, ast.Constant) and lastst.value.value == 1
                rest = st.body[:-1]
                stores = any(isinstance(y, ast.Name) and y.id == kv and isinstance(y.ctx, (ast.Store, ast.Del)) for s in rest for y in ast.walk(s))
                has_continue = any(isinstance(y, ast.Continue) for s in rest for y in ast.walk(s))
                inside = {id(y) for y in ast.walk(st)} | {id(y) for y in ast.walk(prev)}
                used_elsewhere = any(isinstance(y, ast.Name) and y.id == kv and id(y) not in inside for y in ast.walk(self.fn[-1]))
                if init and is_dec and not stores and not has_continue and not used_elsewhere:
                    out.pop()
                    rng = ast.Call(func=ast.Name(id="range", ctx=ast.Load()),
                                   args=[prev.value, ast.UnaryOp(op=ast.USub(), operand=ast.Constant(value=1)), ast.UnaryOp(op=ast.USub(), operand=ast.Constant(value=1))],
                                   keywords=[])
                    out.append(_loc(ast.For(target=ast.Name(id=kv, ctx=ast.Store()), iter=rng, body=rest, orelse=[], type_comment=None), st))
                    continue
            # for t in it: assert [not] E, msg   ->   assert all(E for t in it) / not any(E for t in it), msg     (msg does not mention
            # t, and t is not used after the loop: the quantified form leaks nothing)
            if self.fn and isinstance(st, ast.For) and not st.orelse and len(st.body) == 1 and isinstance(st.body[0], ast.Assert):
                asr = st.body[0]
                bound = {y.id for y in ast.walk(st.target) if isinstance(y, ast.Name)}
                inside = {id(y) for y in ast.walk(st)}
                leaks = any(isinstance(y, ast.Name) and y.id in bound and id(y) not in inside for y in ast.walk(self.fn[-1]))
                in_msg = asr.msg is not None and any(isinstance(y, ast.Name) and y.id in bound for y in ast.walk(asr.msg))
                if not leaks and not in_msg:
                    neg = isinstance(asr.test, ast.UnaryOp) and isinstance(asr.test.op, ast.Not)
                    elt = asr.test.operand if neg else asr.test
                    for y in ast.walk(st.target):
                        if isinstance(y, ast.Name):
                            y.ctx = ast.Store()
                    ge = ast.GeneratorExp(elt=elt, generators=[ast.comprehension(target=st.target, iter=st.iter, ifs=[], is_async=0)])
                    call = ast.Call(func=ast.Name(id="any" if neg else "all", ctx=ast.Load()), args=[ge], keywords=[])
                    test = ast.UnaryOp(op=ast.Not(), operand=call) if neg else call
                    out.append(_loc(ast.Assert(test=test, msg=asr.msg), st))
                    continue
            # d.update({K: V for t in it [if c]})   ->   for t in it: [if c:] d[K] = V      (d not mentioned in the comprehension)
            c = st.value if isinstance(st, ast.Expr) else None
            if self.fn and isinstance(c, ast.Call) and isinstance(c.func, ast.Attribute) and c.func.attr == "update" and len(c.args) == 1 \
                    and not c.keywords and isinstance(c.args[0], ast.DictComp) and len(c.args[0].generators) == 1 \
                    and not c.args[0].generators[0].is_async and isinstance(c.func.value, (ast.Name, ast.Attribute)):
                dc, gen = c.args[0], c.args[0].generators[0]
                bound = {y.id for y in ast.walk(gen.target) if isinstance(y, ast.Name)}
                inside = {id(y) for y in ast.walk(dc)}
                leaks = any(isinstance(y, ast.Name) and y.id in bound and id(y) not in inside for y in ast.walk(self.fn[-1]))
                recv = ast.dump(c.func.value)
                mentions = any(ast.dump(y) == recv for y in ast.walk(dc) if isinstance(y, (ast.Name, ast.Attribute)))
                if not leaks and not mentions:
                    store = _loc(ast.Assign(targets=[ast.Subscript(value=c.func.value, slice=dc.key, ctx=ast.Store())], value=dc.value), st)
                    inner = [store]
                    if gen.ifs:
                        test = gen.ifs[0] if len(gen.ifs) == 1 else _loc(ast.BoolOp(op=ast.And(), values=list(gen.ifs)), gen.ifs[0])
                        inner = [_loc(ast.If(test=test, body=[store], orelse=[]), st)]
                    for y in ast.walk(gen.target):
                        if isinstance(y, ast.Name):
                            y.ctx = ast.Store()
                    out.append(_loc(ast.For(target=gen.target, iter=gen.iter, body=inner, orelse=[], type_comment=None), st))
                    continue
            out.append(st)
        return out


class OrReturn(_Bodies):
    """`t = A; if t: return t else: return B` is `return A or B` (with `not t`: `A and B`) when t is used for nothing else; runs after
    guard clauses have been nested"""

    def __init__(self):
        self.fn = []

    def visit_FunctionDef(self, node):
        self.fn.append(node)
        try:
            return self._do(node)
        finally:
            self.fn.pop()

    visit_AsyncFunctionDef = visit_FunctionDef

    def process(self, body):
        out = []
        for st in body:
            # t = A; if t: return t else: return B   ->   return A or B          (and with `not t`: A and B); t used nowhere else
            if self.fn and isinstance(st, ast.If) and out and len(st.body) == 1 and len(st.orelse) == 1 and isinstance(st.body[0], ast.Return) \
                    and isinstance(st.orelse[0], ast.Return) and st.orelse[0].value is not None and isinstance(st.body[0].value, ast.Name):
                prev = out[-1]
                neg = isinstance(st.test, ast.UnaryOp) and isinstance(st.test.op, ast.Not)
                tn_ = st.test.operand if neg else st.test
                if isinstance(tn_, ast.Name) and tn_.id == st.body[0].value.id and isinstance(prev, ast.Assign) and len(prev.targets) == 1 \
                        and isinstance(prev.targets[0], ast.Name) and prev.targets[0].id == tn_.id:
                    inside = {id(y) for y in ast.walk(st)} | {id(y) for y in ast.walk(prev)}
                    if not any(isinstance(y, ast.Name) and y.id == tn_.id and id(y) not in inside for y in ast.walk(self.fn[-1])) \
                            and not any(isinstance(y, ast.Name) and y.id == tn_.id for y in ast.walk(st.orelse[0])):
                        out.pop()
                        out.append(_loc(ast.Return(value=ast.BoolOp(op=ast.And() if neg else ast.Or(), values=[prev.value, st.orelse[0].value])), st))
                        continue
            out.append(st)
        return out


class Untuple(_Bodies):
    """`a, b = x, y` with independent sides (no right-hand element mentions a target) is two assignments"""

    def process(self, body):
        out = []
        pending = list(body)
        body = []
        for st in pending:
            # a, b = (x, y) if c else (u, v)   ->   if c: a, b = x, y  else: a, b = u, v      (the test is evaluated once either way)
            if isinstance(st, ast.Assign) and len(st.targets) == 1 and isinstance(st.targets[0], ast.Tuple) and isinstance(st.value, ast.IfExp) \
                    and isinstance(st.value.body, ast.Tuple) and isinstance(st.value.orelse, ast.Tuple) \
                    and len(st.value.body.elts) == len(st.value.orelse.elts) == len(st.targets[0].elts):
                import copy as _c
                a1 = _loc(ast.Assign(targets=[_c.deepcopy(st.targets[0])], value=st.value.body), st)
                a2 = _loc(ast.Assign(targets=[_c.deepcopy(st.targets[0])], value=st.value.orelse), st)
                body.append(_loc(ast.If(test=st.value.test, body=self.process([a1]), orelse=self.process([a2])), st))
            else:
                body.append(st)
        for st in body:
            if isinstance(st, ast.Assign) and len(st.targets) == 1 and isinstance(st.targets[0], ast.Tuple) and isinstance(st.value, ast.Tuple) \
                    and len(st.targets[0].elts) == len(st.value.elts) and all(isinstance(e, ast.Name) for e in st.targets[0].elts) \
                    and not any(isinstance(e, ast.Starred) for e in st.value.elts):
                tn = {e.id for e in st.targets[0].elts}
                if len(tn) == len(st.targets[0].elts) and not any(isinstance(y, ast.Name) and y.id in tn for e in st.value.elts for y in ast.walk(e)):
                    for tg, v in zip(st.targets[0].elts, st.value.elts):
                        out.append(_loc(ast.Assign(targets=[tg], value=v), v))
                    continue
            out.append(st)
        return out


def _fold_pass():
    """single-use temporaries folded into the statement (or `for` / `if` header) that directly follows: the rewrite of the
    sensitivity audit's `inline` transform (audit/transforms.py, validated there), used as the last pass"""
    from ..audit.transforms import _InlineTemps

    class Fold(_InlineTemps):
        headers = True
    return Fold()


PASSES = (Untuple, FirstMatch, Expand, Nest, OrReturn, Default, Ternary, Orient, Merge, Compare, _fold_pass, Comprehend, Alias, _fold_pass)


def normalise(tree, passes=PASSES):
    for p in passes:
        tree = p().visit(tree)
    ast.fix_missing_locations(tree)
    return tree
