"""Program model: loader, symbols, class hierarchy (C3 MRO), function table.

Pure ``ast``; nothing from the analysed repository is imported or executed.
"""
import ast
import warnings
import os
from typing import Dict, List, Optional


class AnchorError(Exception):
    """A construct a rule is anchored in cannot be located (vanished / ambiguous)
    or has a shape the rule has no transfer function for.  The driver turns it
    into ANALYSIS-ERROR (exit 2), never into a pass or a violation."""


class Module:
    def __init__(self, name, path, relpath, src, tree, is_pkg):
        self.name = name
        self.path = path
        self.relpath = relpath
        self.src = src
        self.tree = tree
        self.is_pkg = is_pkg
        self.imports: Dict[str, tuple] = {}
        self.classes: Dict[str, "ClassInfo"] = {}
        self.functions: Dict[str, "FuncInfo"] = {}
        self.constants: Dict[str, ast.AST] = {}

    def __repr__(self):
        return f"<Module {self.name}>"


class ClassInfo:
    def __init__(self, name, qualname, module, node, outer=None):
        self.name = name
        self.qualname = qualname
        self.module = module
        self.node = node
        self.outer = outer
        self.bases: List["ClassInfo"] = []
        self.ext_bases: List[str] = []
        self.methods: Dict[str, "FuncInfo"] = {}
        self.class_attrs: Dict[str, ast.AST] = {}
        self.class_annots: Dict[str, ast.AST] = {}
        self.nested: Dict[str, "ClassInfo"] = {}
        self.subclasses: List["ClassInfo"] = []
        self._mro = None

    @property
    def short(self):
        # qualified name without the module: Outer.Inner
        return self.qualname[len(self.module.name) + 1:]

    def is_dataclass(self):
        for d in self.node.decorator_list:
            s = ast.unparse(d)
            if s.split("(")[0].split(".")[-1] == "dataclass":
                return True
        return False

    def __repr__(self):
        return f"<Class {self.qualname}>"


class FuncInfo:
    def __init__(self, name, qualname, module, node, cls=None, parent=None):
        self.name = name
        self.qualname = qualname
        self.module = module
        self.node = node
        self.cls = cls
        self.parent = parent
        self.nested: Dict[str, "FuncInfo"] = {}
        self._cfg = None
        self._reaching = None

    @property
    def short(self):
        return self.qualname[len(self.module.name) + 1:]

    @property
    def params(self):
        a = self.node.args
        return [x.arg for x in a.posonlyargs + a.args] + \
            ([a.vararg.arg] if a.vararg else []) + \
            [x.arg for x in a.kwonlyargs] + ([a.kwarg.arg] if a.kwarg else [])

    def param_node(self, name):
        a = self.node.args
        for x in a.posonlyargs + a.args + a.kwonlyargs:
            if x.arg == name:
                return x
        return None

    def param_default(self, name):
        a = self.node.args
        pos = a.posonlyargs + a.args
        nd = len(a.defaults)
        for i, x in enumerate(pos):
            if x.arg == name:
                j = i - (len(pos) - nd)
                return a.defaults[j] if j >= 0 else None
        for x, d in zip(a.kwonlyargs, a.kw_defaults):
            if x.arg == name:
                return d
        return None

    def decorators(self):
        return [ast.unparse(d) for d in self.node.decorator_list]

    def is_static(self):
        return "staticmethod" in self.decorators()

    def is_property(self):
        return "property" in self.decorators()

    def loc(self, node=None):
        n = node if node is not None else self.node
        return f"{self.module.relpath}:{getattr(n, 'lineno', 0)}"

    def __repr__(self):
        return f"<Func {self.qualname}>"


def _c3(cls, seen=()):
    if cls._mro is not None:
        return cls._mro
    if cls in seen:
        return [cls]
    seqs = [list(_c3(b, seen + (cls,))) for b in cls.bases] + [list(cls.bases)]
    res = [cls]
    seqs = [s for s in seqs if s]
    while seqs:
        for s in seqs:
            cand = s[0]
            if not any(cand in t[1:] for t in seqs):
                break
        else:
            # inconsistent hierarchy: fall back to DFS order
            cand = seqs[0][0]
        res.append(cand)
        seqs = [[x for x in s if x is not cand] for s in seqs]
        seqs = [s for s in seqs if s]
    cls._mro = res
    return res


class Program:
    def __init__(self, root="/repo", package="syne_tune", overlay=None, extra_files=None):
        self.root = root
        self.package = package
        self.overlay = overlay or {}
        self.modules: Dict[str, Module] = {}
        self.classes: Dict[str, ClassInfo] = {}
        self.classes_by_name: Dict[str, List[ClassInfo]] = {}
        self.functions: Dict[str, FuncInfo] = {}
        self.funcs_by_name: Dict[str, List[FuncInfo]] = {}
        self.parse_errors = []
        self._load(extra_files or [])
        self._link()

    # ------------------------------------------------------------------ load
    def _load(self, extra_files):
        pkgdir = os.path.join(self.root, self.package)
        if not os.path.isdir(pkgdir):
            raise AnchorError(f"package directory {pkgdir} not found")
        files = []
        for d, dirs, fs in os.walk(pkgdir):
            dirs[:] = sorted(x for x in dirs if x != "__pycache__")
            for f in sorted(fs):
                if f.endswith(".py"):
                    files.append(os.path.join(d, f))
        for f in extra_files:
            files.append(f)
        for rel in self.overlay:
            p = os.path.join(self.root, rel)
            if p not in files:
                files.append(p)
        parsed = []
        for path in files:
            rel = os.path.relpath(path, self.root)
            if rel in self.overlay:
                src = self.overlay[rel]
            else:
                with open(path, encoding="utf-8") as fh:
                    src = fh.read()
            try:
                with warnings.catch_warnings():
                    warnings.simplefilter("ignore")
                    tree = ast.parse(src, filename=rel)
            except SyntaxError as e:
                self.parse_errors.append((rel, str(e)))
                continue
            parsed.append((path, rel, src, tree))
        self.reidentified = {}
        if os.environ.get("STVERIF_NORMALISE", "1") != "0" and self.package == "syne_tune":
            from .reidentify import reidentify
            from .normalise import normalise
            self.reidentified = reidentify({rel: tree for _, rel, _, tree in parsed})
            parsed = [(path, rel, src, normalise(tree)) for path, rel, src, tree in parsed]
        for path, rel, src, tree in parsed:
            parts = rel[:-3].split(os.sep)
            is_pkg = parts[-1] == "__init__"
            if is_pkg:
                parts = parts[:-1]
            name = ".".join(parts)
            m = Module(name, path, rel, src, tree, is_pkg)
            self.modules[name] = m
            self._index_module(m)
        if self.parse_errors:
            raise AnchorError("files failed to parse: %s" % self.parse_errors)

    def _index_module(self, m: Module):
        for node in ast.walk(m.tree):
            for ch in ast.iter_child_nodes(node):
                ch._parent = node
        self._index_body(m, m.tree.body, None, None, m.name)

    def _abs_import(self, m: Module, level, modname):
        if level == 0:
            return modname
        base = m.name.split(".")
        if not m.is_pkg:
            base = base[:-1]
        if level > 1:
            base = base[: len(base) - (level - 1)]
        return ".".join(base + ([modname] if modname else []))

    def _index_body(self, m, body, cls, func, prefix):
        for st in body:
            if isinstance(st, (ast.Import, ast.ImportFrom)) and cls is None and func is None:
                self._index_import(m, st)
            elif isinstance(st, ast.ClassDef):
                q = prefix + "." + st.name
                ci = ClassInfo(st.name, q, m, st, outer=cls)
                self.classes[q] = ci
                self.classes_by_name.setdefault(st.name, []).append(ci)
                if cls is not None and func is None:
                    cls.nested[st.name] = ci
                elif cls is None and func is None:
                    m.classes[st.name] = ci
                self._index_body(m, st.body, ci, None, q)
            elif isinstance(st, (ast.FunctionDef, ast.AsyncFunctionDef)):
                q = prefix + "." + st.name
                if q in self.functions:
                    # property setter / overload redefinition: keep the first for getters
                    decos = [ast.unparse(d) for d in st.decorator_list]
                    if any(d.endswith(".setter") for d in decos):
                        q = q + ".setter"
                    else:
                        q = q + "@%d" % st.lineno
                fi = FuncInfo(st.name, q, m, st, cls=cls if func is None else func.cls, parent=func)
                fi.defining_cls = cls if func is None else None
                self.functions[q] = fi
                self.funcs_by_name.setdefault(st.name, []).append(fi)
                if func is not None:
                    func.nested[st.name] = fi
                elif cls is not None:
                    if not q.endswith(".setter") and st.name not in cls.methods:
                        cls.methods[st.name] = fi
                else:
                    m.functions.setdefault(st.name, fi)
                self._index_nested_funcs(m, st, fi, q + ".<locals>")
            elif isinstance(st, (ast.Assign, ast.AnnAssign)) and func is None:
                targets = st.targets if isinstance(st, ast.Assign) else [st.target]
                for t in targets:
                    if isinstance(t, ast.Name):
                        if cls is not None:
                            if isinstance(st, ast.AnnAssign):
                                cls.class_annots[t.id] = st.annotation
                            if st.value is not None:
                                cls.class_attrs[t.id] = st.value
                        else:
                            if st.value is not None:
                                m.constants[t.id] = st.value
            elif isinstance(st, (ast.If, ast.Try)) and func is None:
                # module/class-level conditional definitions (try: import ...)
                for sub in ("body", "orelse", "finalbody"):
                    self._index_body(m, getattr(st, sub, []) or [], cls, func, prefix)
                for h in getattr(st, "handlers", []):
                    self._index_body(m, h.body, cls, func, prefix)

    def _index_nested_funcs(self, m, fnode, fi, prefix):
        # nested function / class definitions anywhere inside the function body
        def visit(node):
            for ch in ast.iter_child_nodes(node):
                if isinstance(ch, (ast.FunctionDef, ast.AsyncFunctionDef)):
                    q = prefix + "." + ch.name
                    if q in self.functions:
                        q += "@%d" % ch.lineno
                    sub = FuncInfo(ch.name, q, m, ch, cls=fi.cls, parent=fi)
                    sub.defining_cls = None
                    self.functions[q] = sub
                    fi.nested.setdefault(ch.name, sub)
                    self._index_nested_funcs(m, ch, sub, q + ".<locals>")
                elif isinstance(ch, ast.ClassDef):
                    q = prefix + "." + ch.name
                    ci = ClassInfo(ch.name, q, m, ch, outer=None)
                    self.classes[q] = ci
                    self.classes_by_name.setdefault(ch.name, []).append(ci)
                    self._index_body(m, ch.body, ci, None, q)
                elif isinstance(ch, ast.Lambda):
                    continue
                else:
                    visit(ch)
        visit(fnode)

    def _index_import(self, m, st):
        if isinstance(st, ast.Import):
            for a in st.names:
                if a.asname:
                    m.imports[a.asname] = ("mod", a.name)
                else:
                    m.imports[a.name.split(".")[0]] = ("mod", a.name.split(".")[0])
        else:
            mod = self._abs_import(m, st.level, st.module)
            for a in st.names:
                if a.name == "*":
                    m.imports.setdefault("*", ("star", []))[1].append(mod)
                    continue
                m.imports[a.asname or a.name] = ("sym", mod, a.name)

    # ------------------------------------------------------------------ link
    def _link(self):
        for ci in self.classes.values():
            for b in ci.node.bases:
                r = self.resolve_expr_static(ci.module, b, ci)
                if isinstance(r, ClassInfo):
                    ci.bases.append(r)
                else:
                    ci.ext_bases.append(ast.unparse(b))
        for ci in self.classes.values():
            for b in ci.bases:
                b.subclasses.append(ci)

    # ------------------------------------------------------------ resolution
    def resolve_symbol(self, modname, sym, depth=0):
        """Resolve ``sym`` as exported by module ``modname`` (follows re-exports)."""
        if depth > 8:
            return None
        m = self.modules.get(modname)
        if m is None:
            sub = self.modules.get(modname + "." + sym) if modname else None
            if sub is not None:
                return sub
            return ("ext", modname + "." + sym)
        if sym in m.classes:
            return m.classes[sym]
        if sym in m.functions:
            return m.functions[sym]
        if sym in m.constants:
            return ("const", m, sym, m.constants[sym])
        if sym in m.imports:
            imp = m.imports[sym]
            if imp[0] == "mod":
                return self.modules.get(imp[1]) or ("ext", imp[1])
            if imp[0] == "sym":
                return self.resolve_symbol(imp[1], imp[2], depth + 1)
        sub = self.modules.get(modname + "." + sym)
        if sub is not None:
            return sub
        if "*" in m.imports:
            for sm in m.imports["*"][1]:
                r = self.resolve_symbol(sm, sym, depth + 1)
                if r is not None and not (isinstance(r, tuple) and r[0] == "ext"):
                    return r
        return None

    def resolve_name(self, module: Module, name: str, cls: Optional[ClassInfo] = None):
        """Resolve a bare name as seen from module scope (and enclosing class)."""
        c = cls
        while c is not None:
            if name in c.nested:
                return c.nested[name]
            c = c.outer
        return self.resolve_symbol(module.name, name)

    def resolve_expr_static(self, module, expr, cls=None):
        """Resolve Name / dotted Attribute to Module / ClassInfo / FuncInfo / const / ext."""
        if isinstance(expr, ast.Name):
            return self.resolve_name(module, expr.id, cls)
        if isinstance(expr, ast.Attribute):
            base = self.resolve_expr_static(module, expr.value, cls)
            if isinstance(base, Module):
                return self.resolve_symbol(base.name, expr.attr)
            if isinstance(base, ClassInfo):
                for k in self.mro(base):
                    if expr.attr in k.nested:
                        return k.nested[expr.attr]
                    if expr.attr in k.methods:
                        return k.methods[expr.attr]
                    if expr.attr in k.class_attrs:
                        return ("const", k, expr.attr, k.class_attrs[expr.attr])
                return None
            if isinstance(base, tuple) and base[0] == "ext":
                return ("ext", base[1] + "." + expr.attr)
            return None
        if isinstance(expr, ast.Subscript):
            # Generic[T] etc.
            return self.resolve_expr_static(module, expr.value, cls)
        return None

    # --------------------------------------------------------------- queries
    def mro(self, cls: ClassInfo):
        return _c3(cls)

    def all_subclasses(self, cls: ClassInfo, strict=True):
        out, todo, seen = [], list(cls.subclasses), set()
        while todo:
            c = todo.pop()
            if id(c) in seen:
                continue
            seen.add(id(c))
            out.append(c)
            todo.extend(c.subclasses)
        out.sort(key=lambda c: c.qualname)
        return out if strict else [cls] + out

    def is_subclass(self, c: ClassInfo, base: ClassInfo):
        return base in self.mro(c)

    def lookup_method(self, cls: ClassInfo, name: str, after: Optional[ClassInfo] = None):
        mro = self.mro(cls)
        if after is not None:
            if after in mro:
                mro = mro[mro.index(after) + 1:]
            else:
                mro = self.mro(after)[1:]
        for k in mro:
            if name in k.methods:
                return k.methods[name]
        return None

    def cls(self, name: str) -> ClassInfo:
        """Anchor lookup by short or qualified name; raises AnchorError if absent/ambiguous."""
        if name in self.classes:
            return self.classes[name]
        if "." in name:
            cands = [c for q, c in self.classes.items() if q.endswith("." + name)]
        else:
            cands = [c for c in self.classes_by_name.get(name, [])
                     if "<locals>" not in c.qualname and c.outer is None]
        if len(cands) == 1:
            return cands[0]
        if not cands:
            raise AnchorError(f"anchor class {name!r} not found in {self.package}")
        raise AnchorError(f"anchor class {name!r} ambiguous: {[c.qualname for c in cands]}")

    def has_cls(self, name):
        try:
            self.cls(name)
            return True
        except AnchorError:
            return False

    def func(self, name: str) -> FuncInfo:
        """``Class.method`` / ``module.path.func`` / ``func`` (unique)."""
        if name in self.functions:
            return self.functions[name]
        parts = name.split(".")
        if len(parts) >= 2:
            try:
                c = self.cls(".".join(parts[:-1]))
            except AnchorError:
                c = None
            if c is not None:
                if parts[-1] in c.methods:
                    return c.methods[parts[-1]]
                raise AnchorError(f"anchor method {name!r}: class {c.qualname} defines no {parts[-1]!r}")
        cands = [f for q, f in self.functions.items() if q.endswith("." + name)]
        if len(cands) == 1:
            return cands[0]
        if not cands:
            raise AnchorError(f"anchor function {name!r} not found")
        raise AnchorError(f"anchor function {name!r} ambiguous: {[c.qualname for c in cands]}")

    def method(self, clsname: str, meth: str) -> FuncInfo:
        """Method as seen from class (through MRO)."""
        c = self.cls(clsname)
        f = self.lookup_method(c, meth)
        if f is None:
            raise AnchorError(f"class {c.qualname} has no method {meth!r} (MRO searched)")
        return f

    def const_value(self, holder, name):
        """Literal value of a module / class constant (follows one alias)."""
        if isinstance(holder, ClassInfo):
            for k in self.mro(holder):
                if name in k.class_attrs:
                    e = k.class_attrs[name]
                    break
            else:
                raise AnchorError(f"constant {holder.qualname}.{name} not found")
        else:
            e = holder.constants.get(name)
            if e is None:
                raise AnchorError(f"constant {holder.name}.{name} not found")
        try:
            return ast.literal_eval(e)
        except Exception:
            return ("expr", ast.unparse(e))

    def stats(self):
        return {
            "files": len(self.modules),
            "classes": len(self.classes),
            "functions": len(self.functions),
            "lines": sum(m.src.count("\n") + 1 for m in self.modules.values()),
        }


def parent(node):
    return getattr(node, "_parent", None)


def enclosing_stmt(node):
    n = node
    while n is not None and not isinstance(n, ast.stmt):
        n = parent(n)
    return n
