"""Light type inference and call resolution (annotations + constructor
assignments + class-hierarchy analysis).  No type checker is available in the
sandbox, so this is the engine's own; anything it cannot type stays unknown and
is resolved by method name only where a rule asks for the over-approximation.
"""
import ast

from .model import ClassInfo, FuncInfo, Module, Program
from .cfg import walk_shallow

CONTAINER_NAMES = {
    "List": "list", "Sequence": "list", "Iterable": "list", "Iterator": "list", "list": "list",
    "Set": "set", "set": "set", "FrozenSet": "set", "frozenset": "set",
    "Dict": "dict", "dict": "dict", "OrderedDict": "dict", "Mapping": "dict", "DefaultDict": "dict",
    "Tuple": "tuple", "tuple": "tuple", "Deque": "list", "deque": "list", "defaultdict": "dict",
}
BUILTIN_SCALARS = {"int", "str", "float", "bool", "bytes"}


class Ty:
    __slots__ = ("cls", "name", "args")

    def __init__(self, cls=None, name=None, args=None):
        self.cls = cls
        self.name = name
        self.args = args or []

    def __repr__(self):
        if self.cls is not None:
            return f"Ty({self.cls.short})"
        if self.args:
            return f"Ty({self.name}{self.args})"
        return f"Ty({self.name})"

    def elem(self):
        if self.name in ("list", "set") and self.args:
            return self.args[0]
        if self.name == "dict" and self.args:
            return self.args[0]
        if self.name == "tuple" and self.args:
            return self.args[0]
        return None


class Resolver:
    def __init__(self, P: Program):
        self.P = P
        self._attr_types = {}
        self._attr_busy = set()
        self._env = {}
        self._env_busy = set()
        self._calls = {}
        self.n_calls = 0
        self.n_typed = 0
        self.n_named = 0
        self.n_ext = 0
        self.n_unres = 0

    # ------------------------------------------------------------ annotations
    def ty_from_ann(self, module: Module, cls, ann):
        P = self.P
        if ann is None:
            return None
        if isinstance(ann, ast.Constant):
            if isinstance(ann.value, str):
                try:
                    return self.ty_from_ann(module, cls, ast.parse(ann.value, mode="eval").body)
                except SyntaxError:
                    return None
            return None
        if isinstance(ann, ast.BinOp) and isinstance(ann.op, ast.BitOr):
            return self.ty_from_ann(module, cls, ann.left) or self.ty_from_ann(module, cls, ann.right)
        if isinstance(ann, ast.Subscript):
            head = ast.unparse(ann.value).split(".")[-1]
            sl = ann.slice
            elts = sl.elts if isinstance(sl, ast.Tuple) else [sl]
            if head == "Optional":
                return self.ty_from_ann(module, cls, elts[0])
            if head == "Union":
                for e in elts:
                    t = self.ty_from_ann(module, cls, e)
                    if t is not None:
                        return t
                return None
            if head in CONTAINER_NAMES:
                return Ty(name=CONTAINER_NAMES[head], args=[self.ty_from_ann(module, cls, e) for e in elts])
            if head == "Type":
                t = self.ty_from_ann(module, cls, elts[0])
                return Ty(name="type", args=[t]) if t else None
            return self.ty_from_ann(module, cls, ann.value)
        if isinstance(ann, (ast.Name, ast.Attribute)):
            s = ast.unparse(ann).split(".")[-1]
            if isinstance(ann, ast.Name):
                if s in BUILTIN_SCALARS:
                    return Ty(name=s)
                if s in CONTAINER_NAMES and s[0].islower():
                    return Ty(name=CONTAINER_NAMES[s])
            r = P.resolve_expr_static(module, ann, cls)
            if isinstance(r, ClassInfo):
                return Ty(cls=r)
            if isinstance(r, tuple) and r[0] == "ext":
                if s in CONTAINER_NAMES:
                    return Ty(name=CONTAINER_NAMES[s])
                return Ty(name="ext:" + r[1])
            if isinstance(r, tuple) and r[0] == "const":
                # type alias:  TrialIdAndResultList = List[...]
                hm = r[1] if isinstance(r[1], Module) else r[1].module
                return self.ty_from_ann(hm, None, r[3])
            return None
        return None

    # ------------------------------------------------------- attribute types
    def attr_types(self, cls: ClassInfo):
        """dict attr -> Ty for attributes defined on this class itself (not inherited)."""
        if cls in self._attr_types:
            return self._attr_types[cls]
        if cls in self._attr_busy:
            return {}
        self._attr_busy.add(cls)
        out = {}
        for a, ann in cls.class_annots.items():
            t = self.ty_from_ann(cls.module, cls, ann)
            if t is not None:
                out[a] = t
        for a, v in cls.class_attrs.items():
            if a not in out:
                t = self._literal_ty(v)
                if t is not None:
                    out[a] = t
        meths = sorted(cls.methods.values(), key=lambda f: (f.name != "__init__", f.node.lineno))
        weak = set()
        for f in meths:
            for n in walk_shallow(f.node):
                tgt = val = ann = None
                if isinstance(n, ast.Assign) and len(n.targets) == 1:
                    tgt, val = n.targets[0], n.value
                elif isinstance(n, ast.AnnAssign):
                    tgt, val, ann = n.target, n.value, n.annotation
                if isinstance(tgt, ast.Attribute) and isinstance(tgt.value, ast.Name) and tgt.value.id == "self":
                    if tgt.attr in out and tgt.attr not in weak:
                        continue
                    t = None
                    if ann is not None:
                        t = self.ty_from_ann(cls.module, cls, ann)
                    # direct evidence (annotation, literal, constructor call) beats a type inferred through a variable,
                    # so the result does not depend on which of two branches is written first
                    strong = t is not None or isinstance(val, (ast.Call, ast.Set, ast.SetComp, ast.Dict, ast.DictComp, ast.List,
                                                              ast.ListComp, ast.Tuple, ast.Constant, ast.JoinedStr))
                    if t is None and val is not None:
                        t = self.infer(f, val)
                    if t is not None and (tgt.attr not in out or strong):
                        out[tgt.attr] = t
                        (weak.discard if strong else weak.add)(tgt.attr)
        for name, f in cls.methods.items():
            if f.is_property() and name not in out:
                t = self.ty_from_ann(cls.module, cls, f.node.returns)
                if t is not None:
                    out[name] = t
        self._attr_busy.discard(cls)
        self._attr_types[cls] = out
        return out

    def attr_type(self, cls: ClassInfo, attr: str):
        for k in self.P.mro(cls):
            t = self.attr_types(k).get(attr)
            if t is not None:
                return t
        return None

    @staticmethod
    def _literal_ty(v):
        if isinstance(v, (ast.Set, ast.SetComp)):
            return Ty(name="set")
        if isinstance(v, (ast.Dict, ast.DictComp)):
            return Ty(name="dict")
        if isinstance(v, (ast.List, ast.ListComp)):
            return Ty(name="list")
        if isinstance(v, ast.Tuple):
            return Ty(name="tuple")
        if isinstance(v, ast.JoinedStr):
            return Ty(name="str")
        if isinstance(v, ast.Constant):
            if isinstance(v.value, bool):
                return Ty(name="bool")
            if isinstance(v.value, int):
                return Ty(name="int")
            if isinstance(v.value, float):
                return Ty(name="float")
            if isinstance(v.value, str):
                return Ty(name="str")
        return None

    # ------------------------------------------------------------ local env
    def env(self, f: FuncInfo):
        if f in self._env:
            return self._env[f]
        if f in self._env_busy:
            return {}
        self._env_busy.add(f)
        env = {}
        a = f.node.args
        for p in a.posonlyargs + a.args + a.kwonlyargs:
            t = self.ty_from_ann(f.module, f.cls, p.annotation)
            if t is not None:
                env[p.arg] = t
        self._env[f] = env  # allow self-reference during inference
        for n in walk_shallow(f.node):
            if isinstance(n, ast.Assign) and len(n.targets) == 1 and isinstance(n.targets[0], ast.Name):
                name = n.targets[0].id
                if name not in env:
                    t = self.infer(f, n.value)
                    if t is not None:
                        env[name] = t
            elif isinstance(n, ast.AnnAssign) and isinstance(n.target, ast.Name):
                t = self.ty_from_ann(f.module, f.cls, n.annotation)
                if t is not None:
                    env[n.target.id] = t
            elif isinstance(n, (ast.For, ast.comprehension)) and isinstance(n.target, ast.Name):
                if n.target.id not in env:
                    t = self.infer(f, n.iter)
                    if t is not None and t.elem() is not None:
                        env[n.target.id] = t.elem()
            elif isinstance(n, (ast.For, ast.comprehension)) and isinstance(n.target, ast.Tuple):
                # for k, v in d.items()
                it = n.iter
                if isinstance(it, ast.Call) and isinstance(it.func, ast.Attribute) and it.func.attr == "items":
                    t = self.infer(f, it.func.value)
                    if t is not None and t.name == "dict" and len(t.args) == 2 and len(n.target.elts) == 2:
                        for e, ty in zip(n.target.elts, t.args):
                            if isinstance(e, ast.Name) and ty is not None and e.id not in env:
                                env[e.id] = ty
            elif isinstance(n, ast.Assert):
                c = n.test
                if isinstance(c, ast.Call) and isinstance(c.func, ast.Name) and c.func.id == "isinstance" \
                        and len(c.args) == 2 and isinstance(c.args[0], ast.Name):
                    t = self.ty_from_ann(f.module, f.cls, c.args[1])
                    if t is not None and c.args[0].id not in env:
                        env[c.args[0].id] = t
            elif isinstance(n, ast.withitem) and isinstance(n.optional_vars, ast.Name):
                t = self.infer(f, n.context_expr)
                if t is not None:
                    env.setdefault(n.optional_vars.id, t)
        self._env_busy.discard(f)
        return env

    def _self_name(self, f: FuncInfo):
        g = f
        while g is not None:
            if getattr(g, "defining_cls", None) is not None:
                if g.is_static():
                    return None, None
                ps = g.node.args.posonlyargs + g.node.args.args
                if ps:
                    if "classmethod" in g.decorators():
                        return ps[0].arg, "cls"
                    return ps[0].arg, "self"
                return None, None
            g = g.parent
        return None, None

    # --------------------------------------------------------------- infer
    def infer(self, f: FuncInfo, e, depth=0):
        P = self.P
        if depth > 6 or e is None:
            return None
        if isinstance(e, ast.Name):
            sname, kind = self._self_name(f)
            if sname is not None and e.id == sname and f.cls is not None:
                return Ty(cls=f.cls) if kind == "self" else Ty(name="type", args=[Ty(cls=f.cls)])
            g = f
            while g is not None:
                t = self.env(g).get(e.id)
                if t is not None:
                    return t
                if e.id in g.params:
                    return None
                g = g.parent
            r = P.resolve_name(f.module, e.id, f.cls)
            return self._ty_of_static(r)
        if isinstance(e, ast.Attribute):
            b = self.infer(f, e.value, depth + 1)
            if b is None:
                return None
            if b.cls is not None:
                return self.attr_type(b.cls, e.attr)
            if b.name == "type" and b.args and b.args[0] is not None and b.args[0].cls is not None:
                c = b.args[0].cls
                for k in P.mro(c):
                    if e.attr in k.nested:
                        return Ty(name="type", args=[Ty(cls=k.nested[e.attr])])
                return None
            if b.name and b.name.startswith("module:"):
                r = P.resolve_symbol(b.name[7:], e.attr)
                return self._ty_of_static(r)
            if b.name and b.name.startswith("extmod:"):
                return Ty(name="extmod:" + b.name[7:] + "." + e.attr)
            return None
        if isinstance(e, ast.Call):
            fn = e.func
            if isinstance(fn, ast.Name):
                if fn.id in ("set", "frozenset"):
                    return Ty(name="set")
                if fn.id in ("dict", "OrderedDict", "defaultdict"):
                    return Ty(name="dict")
                if fn.id in ("list", "sorted", "deque"):
                    t = self.infer(f, e.args[0], depth + 1) if e.args else None
                    return Ty(name="list", args=[t.elem()] if t is not None and t.elem() is not None else [])
                if fn.id in ("int", "str", "float", "bool", "len"):
                    return Ty(name="int" if fn.id == "len" else fn.id)
                if fn.id in ("deepcopy", "copy") and e.args:
                    return self.infer(f, e.args[0], depth + 1)
            if isinstance(fn, ast.Attribute) and fn.attr in ("copy", "deepcopy") and e.args and \
                    isinstance(fn.value, ast.Name) and fn.value.id == "copy":
                return self.infer(f, e.args[0], depth + 1)
            if isinstance(fn, ast.Attribute) and fn.attr in ("get", "pop") and e.args:
                b = self.infer(f, fn.value, depth + 1)
                if b is not None and b.name == "dict" and len(b.args) == 2:
                    return b.args[1]
            if isinstance(fn, ast.Attribute) and fn.attr == "values":
                b = self.infer(f, fn.value, depth + 1)
                if b is not None and b.name == "dict" and len(b.args) == 2:
                    return Ty(name="list", args=[b.args[1]])
            if isinstance(fn, ast.Attribute) and fn.attr == "keys":
                b = self.infer(f, fn.value, depth + 1)
                if b is not None and b.name == "dict" and len(b.args) == 2:
                    return Ty(name="list", args=[b.args[0]])
            tg = self.resolve_call(f, e, depth + 1)
            for t, how in tg:
                if how != "type":
                    continue
                if isinstance(t, ClassInfo):
                    return Ty(cls=t)
                if isinstance(t, FuncInfo):
                    if t.name == "__init__":
                        continue
                    r = self.ty_from_ann(t.module, t.cls, t.node.returns)
                    if r is not None:
                        return r
            return None
        if isinstance(e, ast.Subscript):
            b = self.infer(f, e.value, depth + 1)
            if b is None:
                return None
            if b.name == "dict" and len(b.args) == 2:
                return b.args[1]
            if b.name == "list" and b.args:
                if isinstance(e.slice, ast.Slice):
                    return b
                return b.args[0]
            if b.name == "tuple" and b.args:
                if isinstance(e.slice, ast.Constant) and isinstance(e.slice.value, int) and \
                        0 <= e.slice.value < len(b.args):
                    return b.args[e.slice.value]
            return None
        if isinstance(e, (ast.IfExp, ast.BoolOp)):
            # one type for `a if c else b` / `a or b`, independent of the order the alternatives are written in:
            # a class of the package, then an external class, then anything else, a module object last
            arms = [e.body, e.orelse] if isinstance(e, ast.IfExp) else list(e.values)
            ts = [t for t in (self.infer(f, v, depth + 1) for v in arms) if t is not None]

            def rank(t):
                nm = t.name or ""
                return (0 if t.cls is not None else 1 if nm.startswith("ext:") else 3 if nm.startswith("extmod:") else 2, repr(t))
            return min(ts, key=rank) if ts else None
        if isinstance(e, ast.NamedExpr):
            return self.infer(f, e.value, depth + 1)
        return self._literal_ty(e)

    def _ty_of_static(self, r):
        if isinstance(r, ClassInfo):
            return Ty(name="type", args=[Ty(cls=r)])
        if isinstance(r, Module):
            return Ty(name="module:" + r.name)
        if isinstance(r, tuple) and r[0] == "ext":
            return Ty(name="extmod:" + r[1])
        if isinstance(r, tuple) and r[0] == "const":
            return self._literal_ty(r[3])
        return None

    # ------------------------------------------------------ call resolution
    def _cha(self, cls: ClassInfo, meth: str, include_subclasses=True):
        P = self.P
        out = []
        m = P.lookup_method(cls, meth)
        if m is not None:
            out.append(m)
        if include_subclasses:
            for s in P.all_subclasses(cls):
                if meth in s.methods and s.methods[meth] not in out:
                    out.append(s.methods[meth])
        return out

    def resolve_call(self, f: FuncInfo, call: ast.Call, depth=0):
        """list of (target, how); target is FuncInfo | ClassInfo | ('ext', dotted) ;
        how in {'type','name'}"""
        P = self.P
        fn = call.func
        out = []
        if isinstance(fn, ast.Name):
            g = f
            while g is not None:
                if fn.id in g.nested:
                    return [(g.nested[fn.id], "type")]
                g = g.parent
            # local variable holding a callable?  (not tracked)
            r = P.resolve_name(f.module, fn.id, f.cls)
            if isinstance(r, FuncInfo):
                return [(r, "type")]
            if isinstance(r, ClassInfo):
                out.append((r, "type"))
                init = P.lookup_method(r, "__init__")
                if init is not None:
                    out.append((init, "type"))
                pi = P.lookup_method(r, "__post_init__")
                if pi is not None:
                    out.append((pi, "type"))
                return out
            if isinstance(r, tuple) and r[0] == "ext":
                return [(("ext", r[1]), "type")]
            return []
        if isinstance(fn, ast.Attribute):
            v = fn.value
            # super().m()
            if isinstance(v, ast.Call) and isinstance(v.func, ast.Name) and v.func.id == "super":
                dc = self._defining_cls(f)
                if dc is not None:
                    m = P.lookup_method(dc, fn.attr, after=dc)
                    if m is not None:
                        return [(m, "type")]
                return []
            t = self.infer(f, v, depth + 1)
            if t is not None:
                if t.cls is not None:
                    ms = self._cha(t.cls, fn.attr)
                    if ms:
                        return [(m, "type") for m in ms]
                    # attribute holding a callable / external base: unknown
                    at = self.attr_type(t.cls, fn.attr)
                    if at is not None and at.cls is not None:
                        c = P.lookup_method(at.cls, "__call__")
                        if c is not None:
                            return [(c, "type")]
                    return []
                if t.name == "type" and t.args and t.args[0] is not None and t.args[0].cls is not None:
                    c = t.args[0].cls
                    for k in P.mro(c):
                        if fn.attr in k.nested:
                            nc = k.nested[fn.attr]
                            res = [(nc, "type")]
                            init = P.lookup_method(nc, "__init__")
                            if init is not None:
                                res.append((init, "type"))
                            return res
                    ms = self._cha(c, fn.attr, include_subclasses=True)
                    return [(m, "type") for m in ms]
                if t.name and t.name.startswith("module:"):
                    r = P.resolve_symbol(t.name[7:], fn.attr)
                    if isinstance(r, FuncInfo):
                        return [(r, "type")]
                    if isinstance(r, ClassInfo):
                        res = [(r, "type")]
                        init = P.lookup_method(r, "__init__")
                        if init is not None:
                            res.append((init, "type"))
                        return res
                    if isinstance(r, tuple) and r[0] == "ext":
                        return [(("ext", r[1]), "type")]
                    return []
                if t.name and t.name.startswith("extmod:"):
                    return [(("ext", t.name[7:] + "." + fn.attr), "type")]
                if t.name and (t.name.startswith("ext:") or t.name in
                               ("list", "set", "dict", "tuple", "str", "int", "float", "bool")):
                    return [(("ext", t.name + "." + fn.attr), "type")]
            # unknown receiver: resolve by method name over the package
            cands = [g for g in P.funcs_by_name.get(fn.attr, []) if getattr(g, "defining_cls", None) is not None]
            return [(g, "name") for g in cands]
        return []

    def _defining_cls(self, f):
        g = f
        while g is not None:
            dc = getattr(g, "defining_cls", None)
            if dc is not None:
                return dc
            g = g.parent
        return None

    def calls(self, f: FuncInfo):
        """list of (call node, [(target, how)]) for every call in f (not nested defs)."""
        if f in self._calls:
            return self._calls[f]
        out = []
        for n in walk_shallow(f.node, include_lambda=True):
            if isinstance(n, ast.Call):
                tg = self.resolve_call(f, n)
                out.append((n, tg))
                self.n_calls += 1
                if any(h == "type" and not isinstance(t, tuple) for t, h in tg):
                    self.n_typed += 1
                elif any(h == "type" for t, h in tg):
                    self.n_ext += 1
                elif tg:
                    self.n_named += 1
                else:
                    self.n_unres += 1
        self._calls[f] = out
        return out

    def call_stats(self):
        return {"calls": self.n_calls, "resolved_by_type": self.n_typed, "external_or_builtin": self.n_ext,
                "resolved_by_name_only": self.n_named, "unresolved": self.n_unres}
