"""Condition normalisation to signed atoms and the "available facts" forward
dataflow (atoms that hold on *every* path reaching a node).

An atom is a tuple; expressions inside are canonical ``ast.unparse`` strings so
that layout, parenthesisation and the if/else orientation do not matter.
"""
import ast

from .cfg import walk_shallow

MUTATORS = {"add", "append", "pop", "remove", "update", "clear", "discard", "extend",
            "insert", "popleft", "appendleft", "difference_update", "setdefault",
            "sort", "reverse", "popitem", "intersection_update"}

_SWAP = {ast.Gt: ast.Lt, ast.GtE: ast.LtE}
_NEG = {ast.Lt: ast.GtE, ast.LtE: ast.Gt, ast.Gt: ast.LtE, ast.GtE: ast.Lt,
        ast.Eq: ast.NotEq, ast.NotEq: ast.Eq, ast.Is: ast.IsNot, ast.IsNot: ast.Is,
        ast.In: ast.NotIn, ast.NotIn: ast.In}


def U(e):
    return ast.unparse(e)


def _cmp_atom(op, a, b, pos):
    """Atom for ``a op b`` with polarity pos."""
    t = type(op)
    if not pos:
        t = _NEG[t]
    if t in _SWAP:
        t = _SWAP[t]
        a, b = b, a
    if t is ast.Lt:
        return ("lt", U(a), U(b))
    if t is ast.LtE:
        return ("le", U(a), U(b))
    if t in (ast.Eq, ast.NotEq):
        x, y = sorted([U(a), U(b)])
        return ("eq", x, y, t is ast.Eq)
    if t in (ast.Is, ast.IsNot):
        x, y = U(a), U(b)
        if x == "None":
            x, y = y, x
        return ("is", x, y, t is ast.Is)
    if t in (ast.In, ast.NotIn):
        return ("in", U(a), U(b), t is ast.In)
    return None


def atoms_of(cond, truth=True):
    """Set of atoms implied when ``cond`` evaluates to ``truth`` (conjunctive part only)."""
    out = set()
    if isinstance(cond, ast.UnaryOp) and isinstance(cond.op, ast.Not):
        return atoms_of(cond.operand, not truth)
    if isinstance(cond, ast.BoolOp):
        conj = isinstance(cond.op, ast.And)
        if conj == truth:
            # (a and b) true  /  (a or b) false: all parts have value ``truth``
            for v in cond.values:
                out |= atoms_of(v, truth)
        else:
            if len(cond.values) == 1:
                out |= atoms_of(cond.values[0], truth)
            else:
                # disjunction: keep as one opaque atom
                parts = sorted(
                    [tuple(sorted(atoms_of(v, truth), key=repr)) for v in cond.values], key=repr)
                out.add(("or", tuple(parts)))
        return out
    if isinstance(cond, ast.Compare):
        left = cond.left
        parts = []
        for op, right in zip(cond.ops, cond.comparators):
            parts.append((op, left, right))
            left = right
        if len(parts) > 1 and not truth:
            return set()
        for op, a, b in parts:
            at = _cmp_atom(op, a, b, truth)
            if at is not None:
                out.add(at)
        return out
    if isinstance(cond, ast.Call) and isinstance(cond.func, ast.Name) and cond.func.id == "isinstance" \
            and len(cond.args) == 2:
        out.add(("isinstance", U(cond.args[0]), U(cond.args[1]), truth))
        return out
    if isinstance(cond, ast.Constant):
        return out
    out.add(("truth", U(cond), truth))
    return out


def atom_paths(atom):
    """Access paths (names / dotted attribute chains) mentioned by an atom."""
    paths = set()
    for x in atom[1:]:
        if isinstance(x, str):
            try:
                e = ast.parse(x, mode="eval").body
            except SyntaxError:
                continue
            for n in ast.walk(e):
                if isinstance(n, ast.Name):
                    paths.add(n.id)
                elif isinstance(n, ast.Attribute):
                    try:
                        paths.add(U(n))
                    except Exception:
                        pass
        elif isinstance(x, tuple):
            for y in x:
                if isinstance(y, tuple):
                    for z in y:
                        if isinstance(z, tuple):
                            paths |= atom_paths(z)
                        else:
                            paths |= _paths_in_repr(str(z))
    return paths


def _paths_in_repr(s):
    import re
    return set(re.findall(r"[A-Za-z_][A-Za-z_0-9.]*", s))


def _store_targets(node):
    """Access paths written by a statement (assignment targets, del, aug, for/with targets)."""
    tg = []
    if isinstance(node, ast.Assign):
        tg = list(node.targets)
    elif isinstance(node, (ast.AugAssign, ast.AnnAssign)):
        tg = [node.target]
    elif isinstance(node, ast.Delete):
        tg = list(node.targets)
    elif isinstance(node, (ast.For, ast.AsyncFor)):
        tg = [node.target]
    elif isinstance(node, (ast.With, ast.AsyncWith)):
        tg = [i.optional_vars for i in node.items if i.optional_vars is not None]
    out = []

    def flat(t):
        if isinstance(t, (ast.Tuple, ast.List)):
            for e in t.elts:
                flat(e)
        elif isinstance(t, ast.Starred):
            flat(t.value)
        else:
            out.append(t)
    for t in tg:
        flat(t)
    return out


def base_path(t):
    """Path whose value changes when target ``t`` is stored: x -> x; a.b -> a.b; a.b[k] -> a.b"""
    while isinstance(t, ast.Subscript):
        t = t.value
    if isinstance(t, (ast.Name, ast.Attribute)):
        try:
            return U(t)
        except Exception:
            return None
    return None


def kills_and_gens(cfg, nid):
    """(killed paths, generated atoms) of executing node nid."""
    n = cfg.nodes[nid]
    kills, gens = set(), set()
    stmt = n.ast if n.kind in ("stmt", "for", "with") else None
    if stmt is not None:
        for t in _store_targets(stmt):
            p = base_path(t)
            if p:
                kills.add(p)
            if isinstance(stmt, ast.Delete) and isinstance(t, ast.Subscript):
                gens.add(("in", U(t.slice), U(t.value), False))
            if isinstance(stmt, ast.Assign) and isinstance(t, ast.Subscript) and len(stmt.targets) == 1:
                gens.add(("in", U(t.slice), U(t.value), True))
    for x in cfg.node_walk(nid):
        if isinstance(x, ast.Call) and isinstance(x.func, ast.Attribute) and x.func.attr in MUTATORS:
            p = base_path(x.func.value)
            if p:
                kills.add(p)
                if x.func.attr == "add" and len(x.args) == 1:
                    gens.add(("in", U(x.args[0]), p, True))
                if x.func.attr in ("remove", "discard") and len(x.args) == 1:
                    gens.add(("in", U(x.args[0]), p, False))
        if isinstance(x, ast.NamedExpr):
            kills.add(x.target.id)
    return kills, gens


def _killed(atom, kills, cache):
    ps = cache.get(atom)
    if ps is None:
        ps = atom_paths(atom)
        cache[atom] = ps
    for k in kills:
        for p in ps:
            if p == k or p.startswith(k + ".") :
                return True
    return False


class Facts:
    """Available-facts analysis of one CFG."""

    def __init__(self, cfg, skip_labels=("exc",)):
        self.cfg = cfg
        self.skip = set(skip_labels)
        self._cache = {}
        self.IN = {}
        self.OUT = {}
        self._solve()

    def _edge_atoms(self, label):
        if isinstance(label, tuple) and label[0] == "cond":
            return atoms_of(label[1], label[2])
        return set()

    def _solve(self):
        cfg = self.cfg
        TOP = None
        IN = {n.id: TOP for n in cfg.nodes}
        OUT = {n.id: TOP for n in cfg.nodes}
        IN[cfg.entry] = set()
        kg = {n.id: kills_and_gens(cfg, n.id) for n in cfg.nodes}
        work = [cfg.entry]
        inq = {cfg.entry}
        while work:
            nid = work.pop()
            inq.discard(nid)
            if nid != cfg.entry:
                acc = TOP
                for (p, label) in cfg.pred[nid]:
                    if OUT[p] is TOP:
                        continue
                    if label in self.skip and isinstance(label, str):
                        # exceptional edges carry only the facts that held *before* the raising node
                        s = set(IN[p]) if IN[p] is not TOP else set()
                        # the statement may have partially executed: apply its kills
                        k, _ = kg[p]
                        s = {a for a in s if not _killed(a, k, self._cache)}
                    else:
                        s = OUT[p] | self._edge_atoms(label)
                    acc = set(s) if acc is TOP else (acc & s)
                if acc is TOP:
                    continue
                if IN[nid] is not TOP and acc == IN[nid] and OUT[nid] is not TOP:
                    continue
                IN[nid] = acc
            kills, gens = kg[nid]
            cur = IN[nid]
            out = {a for a in cur if not _killed(a, kills, self._cache)} | gens
            if OUT[nid] is TOP or out != OUT[nid]:
                OUT[nid] = out
                for (s, _) in cfg.succ[nid]:
                    if s not in inq:
                        inq.add(s)
                        work.append(s)
        self.IN, self.OUT = IN, OUT

    def at(self, nid):
        r = self.IN.get(nid)
        return set() if r is None else r

    def after(self, nid):
        r = self.OUT.get(nid)
        return set() if r is None else r

    def reachable(self, nid):
        return self.IN.get(nid) is not None

    def holds(self, nid, cond, truth=True):
        """Do all atoms of ``cond == truth`` hold on every path into nid?"""
        want = atoms_of(cond, truth) if not isinstance(cond, (set, frozenset, tuple)) else (
            {cond} if isinstance(cond, tuple) else set(cond))
        have = self.at(nid)
        return all(implied(a, have) for a in want)


def implied(atom, have):
    if atom in have:
        return True
    # a < b implies a <= b
    if atom[0] == "le" and ("lt", atom[1], atom[2]) in have:
        return True
    # a == b (true) implies a <= b, b <= a
    if atom[0] == "le":
        x, y = sorted([atom[1], atom[2]])
        if ("eq", x, y, True) in have:
            return True
    # not (a == b) from a < b
    if atom[0] == "eq" and atom[3] is False:
        if ("lt", atom[1], atom[2]) in have or ("lt", atom[2], atom[1]) in have:
            return True
    return False


def negate(atom):
    k = atom[0]
    if k == "lt":
        return ("le", atom[2], atom[1])
    if k == "le":
        return ("lt", atom[2], atom[1])
    if k in ("eq", "is", "in", "isinstance"):
        return atom[:3] + (not atom[3],)
    if k == "truth":
        return (k, atom[1], not atom[2])
    return None


def contradicts(atoms, assumed):
    """Does some atom contradict an assumed atom?"""
    for a in atoms:
        if a[0] == "or":
            # a disjunction is contradicted when every disjunct is
            if a[1] and all(d and contradicts(set(d), assumed) for d in a[1]):
                return True
            continue
        n = negate(a)
        if n is None:
            continue
        if n in assumed or implied(n, assumed):
            return True
        # a < b contradicts a == b
        if a[0] == "lt":
            x, y = sorted([a[1], a[2]])
            if ("eq", x, y, True) in assumed:
                return True
    return False


def edge_filter(assume):
    """Edge predicate that rejects branch edges contradicting the assumed conditions
    (list of condition strings / (expr, truth))."""
    assumed = set()
    for c in assume:
        if isinstance(c, str):
            assumed |= atoms_of(parse_cond(c), True)
        elif isinstance(c, tuple) and len(c) == 2 and isinstance(c[0], (str, ast.AST)):
            e = parse_cond(c[0]) if isinstance(c[0], str) else c[0]
            assumed |= atoms_of(e, c[1])
        else:
            assumed.add(c)

    def ok(label):
        if isinstance(label, tuple) and label[0] == "cond":
            return not contradicts(atoms_of(label[1], label[2]), assumed)
        return True
    return ok


def atom_expr(s):
    try:
        return ast.parse(s, mode="eval").body
    except SyntaxError:
        return None


def parse_cond(s):
    return ast.parse(s, mode="eval").body
