"""Per-function control-flow graph over the statement kinds the repository uses.

Nodes are simple statements, branch tests (``if``/``while``), ``for`` headers,
``with`` headers and ``except`` handler entries.  Branch edges carry the test
expression and its truth value; ``finally`` suites are duplicated per
continuation kind (normal / return / raise / break / continue).
"""
import ast
from collections import deque

from .model import AnchorError

SIMPLE = (ast.Expr, ast.Assign, ast.AugAssign, ast.AnnAssign, ast.Delete, ast.Pass,
          ast.Import, ast.ImportFrom, ast.Global, ast.Nonlocal)
CATCH_ALL = {"Exception", "BaseException"}


class Node:
    __slots__ = ("id", "kind", "ast", "stmt")

    def __init__(self, id, kind, astnode, stmt):
        self.id = id
        self.kind = kind      # entry exit raise stmt test for with except def
        self.ast = astnode    # the expression/statement evaluated at this node
        self.stmt = stmt      # enclosing statement (for line numbers)

    @property
    def lineno(self):
        return getattr(self.stmt, "lineno", getattr(self.ast, "lineno", 0)) if (self.stmt is not None or self.ast is not None) else 0

    def __repr__(self):
        s = ""
        if self.ast is not None:
            try:
                s = ast.unparse(self.ast).split("\n")[0][:60]
            except Exception:
                s = type(self.ast).__name__
        return f"<{self.id}:{self.kind}@{self.lineno} {s}>"


def walk_shallow(node, include_lambda=False):
    """ast.walk that does not descend into nested function/class bodies (nor lambdas)."""
    todo = deque([node])
    first = True
    while todo:
        n = todo.popleft()
        if not first and isinstance(n, (ast.FunctionDef, ast.AsyncFunctionDef, ast.ClassDef)):
            continue
        if not first and isinstance(n, ast.Lambda) and not include_lambda:
            continue
        first = False
        yield n
        todo.extend(ast.iter_child_nodes(n))


class CFG:
    def __init__(self, fnode):
        self.fnode = fnode
        self.nodes = []
        self.succ = {}
        self.pred = {}
        self.entry = self._new("entry", None, None)
        self.exit = self._new("exit", None, None)
        self.raise_exit = self._new("raise", None, None)
        self.stmt_nodes = {}  # id(ast stmt) -> [node ids]
        self._build()

    # -------------------------------------------------------------- builder
    def _new(self, kind, astnode, stmt):
        n = Node(len(self.nodes), kind, astnode, stmt)
        self.nodes.append(n)
        self.succ[n.id] = []
        self.pred[n.id] = []
        if stmt is not None:
            self.stmt_nodes.setdefault(id(stmt), []).append(n.id)
        return n.id

    def _edge(self, a, b, label=None):
        for (d, l) in self.succ[a]:
            if d == b and l == label:
                return
        self.succ[a].append((b, label))
        self.pred[b].append((a, label))

    def _connect(self, frontier, nid):
        for (src, label) in frontier:
            self._edge(src, nid, label)

    def _build(self):
        ctx = {
            "ret": lambda: self.exit,
            "exc": lambda exc_name=None: [self.raise_exit],
            "brk": None,
            "cont": None,
            "in_try": False,
        }
        fr = self._seq(self.fnode.body, [(self.entry, None)], ctx)
        self._connect(fr, self.exit)

    def _seq(self, stmts, frontier, ctx):
        for st in stmts:
            frontier = self._stmt(st, frontier, ctx)
        return frontier

    @staticmethod
    def _may_raise(st):
        for n in walk_shallow(st):
            if isinstance(n, (ast.Call, ast.Subscript)):
                return True
        return False

    def _stmt(self, st, frontier, ctx):
        if isinstance(st, SIMPLE):
            n = self._new("stmt", st, st)
            self._connect(frontier, n)
            if ctx["in_try"] and self._may_raise(st):
                for t in ctx["exc"](None):
                    self._edge(n, t, "exc")
            return [(n, None)]
        if isinstance(st, (ast.FunctionDef, ast.AsyncFunctionDef, ast.ClassDef)):
            n = self._new("def", st, st)
            self._connect(frontier, n)
            return [(n, None)]
        if isinstance(st, ast.Return):
            n = self._new("stmt", st, st)
            self._connect(frontier, n)
            if ctx["in_try"] and st.value is not None and self._may_raise(st):
                for t in ctx["exc"](None):
                    self._edge(n, t, "exc")
            self._edge(n, ctx["ret"](), None)
            return []
        if isinstance(st, ast.Raise):
            n = self._new("stmt", st, st)
            self._connect(frontier, n)
            name = None
            e = st.exc
            if isinstance(e, ast.Call):
                e = e.func
            if isinstance(e, ast.Name) and e.id[:1].isupper():
                name = e.id
            elif isinstance(e, ast.Attribute):
                name = e.attr
            for t in ctx["exc"](name):
                self._edge(n, t, "raise")
            return []
        if isinstance(st, ast.Assert):
            n = self._new("stmt", st, st)
            self._connect(frontier, n)
            for t in ctx["exc"]("AssertionError"):
                self._edge(n, t, ("cond", st.test, False))
            return [(n, ("cond", st.test, True))]
        if isinstance(st, ast.If):
            t = self._new("test", st.test, st)
            self._connect(frontier, t)
            if ctx["in_try"] and self._may_raise(st.test):
                for x in ctx["exc"](None):
                    self._edge(t, x, "exc")
            a = self._seq(st.body, [(t, ("cond", st.test, True))], ctx)
            b = self._seq(st.orelse, [(t, ("cond", st.test, False))], ctx)
            return a + b
        if isinstance(st, ast.While):
            t = self._new("test", st.test, st)
            self._connect(frontier, t)
            breaks = []
            c2 = dict(ctx)
            c2["brk"] = lambda: breaks
            c2["cont"] = lambda: t
            body = self._seq(st.body, [(t, ("cond", st.test, True))], c2)
            self._connect(body, t)
            const_true = isinstance(st.test, ast.Constant) and bool(st.test.value)
            out = []
            if not const_true:
                out = self._seq(st.orelse, [(t, ("cond", st.test, False))], ctx)
            return out + breaks
        if isinstance(st, (ast.For, ast.AsyncFor)):
            h = self._new("for", st, st)
            self._connect(frontier, h)
            if ctx["in_try"] and self._may_raise(st.iter):
                for x in ctx["exc"](None):
                    self._edge(h, x, "exc")
            breaks = []
            c2 = dict(ctx)
            c2["brk"] = lambda: breaks
            c2["cont"] = lambda: h
            body = self._seq(st.body, [(h, "iter")], c2)
            self._connect(body, h)
            out = self._seq(st.orelse, [(h, "exhausted")], ctx)
            return out + breaks
        if isinstance(st, (ast.With, ast.AsyncWith)):
            w = self._new("with", st, st)
            self._connect(frontier, w)
            if ctx["in_try"]:
                for x in ctx["exc"](None):
                    self._edge(w, x, "exc")
            return self._seq(st.body, [(w, None)], ctx)
        if isinstance(st, ast.Break):
            n = self._new("stmt", st, st)
            self._connect(frontier, n)
            if ctx["brk"] is None:
                raise AnchorError("break outside loop")
            tgt = ctx["brk"]()
            if isinstance(tgt, list):
                tgt.append((n, None))
            else:
                self._edge(n, tgt, None)
            return []
        if isinstance(st, ast.Continue):
            n = self._new("stmt", st, st)
            self._connect(frontier, n)
            self._edge(n, ctx["cont"](), None)
            return []
        if isinstance(st, ast.Try):
            return self._try(st, frontier, ctx)
        raise AnchorError(f"CFG: statement kind {type(st).__name__} at line {st.lineno} not supported")

    def _try(self, st, frontier, ctx):
        has_fin = bool(st.finalbody)
        fin_cache = {}

        def through_finally(kind, target_fn, frontier_list=False):
            """Node id that starts a copy of the finally suite which continues
            to target_fn() (evaluated lazily; a break target is a frontier list)."""
            if not has_fin:
                return target_fn()
            if kind in fin_cache:
                return fin_cache[kind]
            start = self._new("stmt", ast.Pass(), st)  # join point before this copy
            fin_cache[kind] = start
            fr = self._seq(st.finalbody, [(start, None)], ctx)
            tgt = target_fn()
            if frontier_list:
                tgt.extend(fr)
            elif isinstance(tgt, list):
                for t in tgt:
                    self._connect(fr, t)
            else:
                self._connect(fr, tgt)
            return start

        # outer continuations seen from inside try/handlers (through finally)
        def outer_exc(name=None):
            if not has_fin:
                return ctx["exc"](name)
            return [through_finally(("exc", name), lambda: ctx["exc"](name))]

        def outer_ret():
            return through_finally("ret", ctx["ret"])

        inner = dict(ctx)
        inner["ret"] = outer_ret
        if ctx["brk"] is not None and has_fin:
            brk_outer = ctx["brk"]
            cont_outer = ctx["cont"]

            def brk():
                tgt = brk_outer()
                if isinstance(tgt, list):
                    return through_finally("brk", lambda: tgt, frontier_list=True)
                return through_finally("brk", lambda: tgt)
            inner["brk"] = brk
            inner["cont"] = lambda: through_finally("cont", cont_outer)

        handler_nodes = []
        for h in st.handlers:
            hn = self._new("except", h, h)
            names = []
            if h.type is None:
                names = None
            elif isinstance(h.type, ast.Tuple):
                names = [ast.unparse(e).split(".")[-1] for e in h.type.elts]
            else:
                names = [ast.unparse(h.type).split(".")[-1]]
            handler_nodes.append((hn, names, h))

        def body_exc(name=None):
            tg = []
            for hn, names, h in handler_nodes:
                if names is None or any(n in CATCH_ALL for n in names):
                    tg.append(hn)
                    return tg
                if name is None:
                    tg.append(hn)
                elif name in names:
                    tg.append(hn)
                    return tg
            return tg + outer_exc(name)

        body_ctx = dict(inner)
        body_ctx["exc"] = body_exc
        body_ctx["in_try"] = True
        fr = self._seq(st.body, frontier, body_ctx)
        else_ctx = dict(inner)
        else_ctx["exc"] = outer_exc
        else_ctx["in_try"] = ctx["in_try"] or has_fin
        fr = self._seq(st.orelse, fr, else_ctx)
        for hn, names, h in handler_nodes:
            hctx = dict(inner)
            hctx["exc"] = outer_exc
            hctx["in_try"] = ctx["in_try"] or has_fin
            fr += self._seq(h.body, [(hn, None)], hctx)
        if has_fin:
            fr = self._seq(st.finalbody, fr, ctx)
        return fr

    # -------------------------------------------------------------- queries
    def reachable(self, start, deleted=(), forward=True, skip_labels=(), edge_ok=None):
        """Set of node ids reachable from ``start`` (iterable or id) avoiding ``deleted`` nodes."""
        deleted = set(deleted)
        starts = [start] if isinstance(start, int) else list(start)
        seen = set()
        todo = deque(s for s in starts if s not in deleted)
        seen.update(todo)
        adj = self.succ if forward else self.pred
        while todo:
            n = todo.popleft()
            for (m, label) in adj[n]:
                if isinstance(label, str) and label in skip_labels:
                    continue
                if edge_ok is not None and not edge_ok(label):
                    continue
                if m in deleted or m in seen:
                    continue
                seen.add(m)
                todo.append(m)
        return seen

    def path(self, start, goal, deleted=(), skip_labels=(), edge_ok=None):
        """A shortest path (list of node ids) from start to any goal avoiding deleted."""
        deleted = set(deleted)
        goals = {goal} if isinstance(goal, int) else set(goal)
        starts = [start] if isinstance(start, int) else list(start)
        par = {s: None for s in starts if s not in deleted}
        todo = deque(par)
        while todo:
            n = todo.popleft()
            if n in goals:
                out = []
                while n is not None:
                    out.append(n)
                    n = par[n]
                return out[::-1]
            for (m, label) in self.succ[n]:
                if (isinstance(label, str) and label in skip_labels) or m in deleted or m in par:
                    continue
                if edge_ok is not None and not edge_ok(label):
                    continue
                par[m] = n
                todo.append(m)
        return None

    def describe_path(self, path):
        out = []
        for nid in path:
            n = self.nodes[nid]
            if n.kind in ("entry", "exit", "raise"):
                out.append(n.kind)
            else:
                try:
                    s = ast.unparse(n.ast).split("\n")[0][:70]
                except Exception:
                    s = n.kind
                out.append(f"L{n.lineno}:{s}")
        return out

    def node_exprs(self, nid):
        """AST roots evaluated *at* this node."""
        n = self.nodes[nid]
        if n.kind in ("stmt", "test"):
            return [n.ast] if n.ast is not None else []
        if n.kind == "for":
            return [n.ast.iter, n.ast.target]
        if n.kind == "with":
            out = []
            for it in n.ast.items:
                out.append(it.context_expr)
                if it.optional_vars is not None:
                    out.append(it.optional_vars)
            return out
        if n.kind == "except":
            return [n.ast.type] if n.ast.type is not None else []
        return []

    def node_walk(self, nid):
        for root in self.node_exprs(nid):
            for x in walk_shallow(root):
                yield x

    def nodes_of_stmt(self, st):
        return self.stmt_nodes.get(id(st), [])


def cfg_of(func):
    if func._cfg is None:
        func._cfg = CFG(func.node)
    return func._cfg
