"""cursor(counter, seq): symbolic evaluation of a "how much was handed out" counter
along every acyclic path of a loop body (DESIGN.md A.3).

Values are linear forms over c0 (counter on entry of the iteration), L (= len(seq))
and 1; list values are slices seq[lo:hi] or the empty list.
"""
import ast

from ..engine import argn

from ..core.model import AnchorError
from ..core.cfg import cfg_of
from ..core.facts import U


class Lin(dict):
    """linear form: {'c0': a, 'L': b, '1': c}"""

    @staticmethod
    def const(k):
        return Lin({"1": k}) if k else Lin()

    @staticmethod
    def var(v):
        return Lin({v: 1})

    def __add__(self, o):
        r = Lin(self)
        for k, v in o.items():
            r[k] = r.get(k, 0) + v
        return Lin({k: v for k, v in r.items() if v != 0})

    def __neg__(self):
        return Lin({k: -v for k, v in self.items()})

    def __sub__(self, o):
        return self + (-o)

    def __eq__(self, o):
        return dict(self) == dict(o)

    def __hash__(self):
        return hash(tuple(sorted(self.items())))

    def show(self):
        if not self:
            return "0"
        parts = []
        for k in ("c0", "L", "1"):
            if k in self:
                v = self[k]
                parts.append((f"{v}" if k == "1" else (k if v == 1 else f"{v}*{k}")))
        return " + ".join(parts).replace("+ -", "- ")


class Slice:
    def __init__(self, lo, hi):
        self.lo, self.hi = lo, hi  # Lin

    def length(self):
        return self.hi - self.lo

    def show(self):
        return f"seq[{self.lo.show()}:{self.hi.show()}]"


EMPTY = Slice(Lin(), Lin())
L = Lin.var("L")
C0 = Lin.var("c0")


class Interp:
    def __init__(self, is_seq, is_counter):
        self.is_seq = is_seq          # expr -> bool : expression denotes the consumed sequence
        self.is_counter = is_counter  # expr -> bool : expression denotes counter[key]
        self.env = {}
        self.counter = C0
        self.delivered = []           # list values appended/extended to the output
        self.unknown_counter = None

    def ev(self, e):
        if isinstance(e, ast.Constant) and isinstance(e.value, int) and not isinstance(e.value, bool):
            return Lin.const(e.value)
        if self.is_counter(e):
            return self.counter
        if self.is_seq(e):
            return Slice(Lin(), L)
        if isinstance(e, ast.Name):
            return self.env.get(e.id)
        if isinstance(e, (ast.List, ast.Tuple)) and not e.elts:
            return EMPTY
        if isinstance(e, ast.Call) and isinstance(e.func, ast.Name):
            if e.func.id == "len" and len(e.args) == 1:
                v = self.ev(argn(e, 0))
                return v.length() if isinstance(v, Slice) else None
            if e.func.id in ("list", "tuple") and len(e.args) == 1:
                return self.ev(argn(e, 0))
            if e.func.id == "list" and not e.args:
                return EMPTY
            return None
        if isinstance(e, ast.BinOp) and isinstance(e.op, (ast.Add, ast.Sub)):
            a, b = self.ev(e.left), self.ev(e.right)
            if isinstance(a, Lin) and isinstance(b, Lin):
                return a + b if isinstance(e.op, ast.Add) else a - b
            return None
        if isinstance(e, ast.Subscript) and isinstance(e.slice, ast.Slice):
            base = self.ev(e.value)
            if not isinstance(base, Slice) or e.slice.step is not None:
                return None
            lo = self.ev(e.slice.lower) if e.slice.lower is not None else Lin()
            hi = self.ev(e.slice.upper) if e.slice.upper is not None else None
            if not isinstance(lo, Lin):
                return None
            # relative to base
            nlo = base.lo + lo
            nhi = base.hi if hi is None else (base.lo + hi if isinstance(hi, Lin) else None)
            if nhi is None:
                return None
            return Slice(nlo, nhi)
        return None

    def exec(self, st):
        if isinstance(st, ast.Assign) and len(st.targets) == 1:
            t = st.targets[0]
            if isinstance(t, ast.Name):
                self.env[t.id] = self.ev(st.value)
            elif self.is_counter(t):
                v = self.ev(st.value)
                if isinstance(v, Lin):
                    self.counter = v
                else:
                    self.counter = None
                    self.unknown_counter = st
        elif isinstance(st, ast.AugAssign):
            t = st.target
            if self.is_counter(t) and isinstance(st.op, (ast.Add, ast.Sub)):
                v = self.ev(st.value)
                if isinstance(v, Lin) and isinstance(self.counter, Lin):
                    self.counter = self.counter + v if isinstance(st.op, ast.Add) else self.counter - v
                else:
                    self.counter = None
                    self.unknown_counter = st
            elif isinstance(t, ast.Name):
                self.env[t.id] = None


def body_paths(cfg, head, limit=4000):
    """Acyclic paths head -(iter)-> ... -> head ; every node at most once; exceptional edges skipped."""
    out = []
    starts = [s for s, l in cfg.succ[head] if l == "iter"]
    stack = [(s, [s], [None]) for s in starts]
    while stack:
        n, path, labels = stack.pop()
        if len(out) > limit:
            raise AnchorError("cursor: too many paths through loop body")
        for (m, label) in cfg.succ[n]:
            if isinstance(label, str) and label in ("exc", "raise"):
                continue
            if m == head:
                out.append((path, labels + [label]))
                continue
            if m in path or m in (cfg.exit, cfg.raise_exit):
                continue
            stack.append((m, path + [m], labels + [label]))
    return out


def run_path(cfg, path, labels, interp, seq_empty_cond):
    """Execute the statements of one path.  Returns False if the path is the L == 0 path."""
    for i, nid in enumerate(path):
        n = cfg.nodes[nid]
        lab = labels[i + 1] if i + 1 < len(labels) else None
        if n.kind == "stmt":
            interp.exec(n.ast)
        elif n.kind == "for":
            t = n.ast.target
            if isinstance(t, ast.Name):
                interp.env[t.id] = None
        elif n.kind == "test" and isinstance(lab, tuple):
            r = seq_empty_cond(n.ast, lab[2], interp)
            if r is False:
                return False
    return True
