"""Symbolic shape typing of the dense GP formulas (autograd.numpy code of posterior_utils).

Dimensions are symbols that are assumed pairwise distinct (n data points, d features, m target columns,
t test points, s samples); '1' is the unit dimension.  The interpreter evaluates the shapes of every
expression of the straight-line formula code; a matmul / solve / broadcast whose symbolic dimensions do not
conform is an error even if square or single-column test data would hide it.  Unknown operations yield the
unknown shape and are never reported.
"""
import ast

from ..core.cfg import walk_shallow
from ..core.facts import U
from ..engine import fn_name, kwarg, argn

UNK = None  # unknown shape


class ShapeError(Exception):
    def __init__(self, msg, node):
        super().__init__(msg)
        self.node = node


def fmt(s):
    if s is UNK:
        return "?"
    if isinstance(s, tuple) and s and s[0] == "tuple":
        return "(" + ", ".join(fmt(x) for x in s[1]) + ")"
    return "(" + ",".join(s) + ("," if len(s) == 1 else "") + ")"


def size_of(shape):
    ds = [d for d in shape if d != "1"]
    return ds[0] if len(ds) == 1 else ("1" if not ds else "*".join(ds))


def bcast(a, b, node):
    if a is UNK or b is UNK:
        return UNK
    ra, rb = list(a)[::-1], list(b)[::-1]
    out = []
    for i in range(max(len(ra), len(rb))):
        x = ra[i] if i < len(ra) else "1"
        y = rb[i] if i < len(rb) else "1"
        if x == y or y == "1":
            out.append(x)
        elif x == "1":
            out.append(y)
        elif "?" in (x, y):
            out.append("?")
        else:
            raise ShapeError(f"cannot broadcast {fmt(a)} with {fmt(b)} in `{U(node)[:70]}`", node)
    return tuple(out[::-1])


class Interp:
    def __init__(self, ctx, module, depth=0):
        self.ctx = ctx
        self.module = module
        self.depth = depth
        self.errors = []

    def call_function(self, f, args):
        """args: {param: shape or ('none',) or ('scalar',)}; returns shape (or ('tuple', [...]))"""
        env = dict(args)
        ret = UNK
        for st in f.node.body:
            r = self.exec(f, st, env)
            if r is not None:
                ret = r[0]
                break
        return ret

    def exec(self, f, st, env):
        if isinstance(st, ast.Expr):
            return None
        if isinstance(st, ast.Assign) and len(st.targets) == 1:
            try:
                v = self.ev(f, st.value, env)
            except ShapeError as e:
                self.errors.append((e.node, str(e), f))
                v = UNK
            t = st.targets[0]
            if isinstance(t, ast.Name):
                env[t.id] = v
            elif isinstance(t, ast.Tuple):
                if isinstance(v, tuple) and v and v[0] == "tuple" and len(v[1]) == len(t.elts):
                    for e_, s_ in zip(t.elts, v[1]):
                        if isinstance(e_, ast.Name):
                            env[e_.id] = s_
                else:
                    for e_ in t.elts:
                        if isinstance(e_, ast.Name):
                            env[e_.id] = UNK
            return None
        if isinstance(st, ast.If):
            t, pos = st.test, True
            while isinstance(t, ast.UnaryOp) and isinstance(t.op, ast.Not):
                t, pos = t.operand, not pos
            take = None     # which arm is executed
            if isinstance(t, ast.Compare) and len(t.ops) == 1 and isinstance(t.ops[0], (ast.Is, ast.IsNot)):
                a, b = t.left, t.comparators[0]
                if U(a) == "None":
                    a, b = b, a
                if U(b) == "None" and isinstance(a, ast.Name):
                    is_none = env.get(a.id) == ("none",)
                    truth = is_none if isinstance(t.ops[0], ast.Is) else not is_none
                    take = st.body if truth == pos else st.orelse
            elif isinstance(t, ast.Call) and fn_name(t) == "isinstance":
                # _extract_kernel_and_scale: treat the kernel as the tuple form (kernel, scale)
                take = st.body if pos else st.orelse
            for s in take or []:
                r = self.exec(f, s, env)
                if r is not None:
                    return r
            return None
        if isinstance(st, ast.Return):
            try:
                return (self.ev(f, st.value, env),)
            except ShapeError as e:
                self.errors.append((e.node, str(e), f))
                return (UNK,)
        return None

    def dims_from_tuple(self, f, e, env, total=None):
        """shape literal like (-1, 1) / (1,) / (n_test, -1, num_samples)"""
        if not isinstance(e, ast.Tuple):
            return UNK
        out = []
        for x in e.elts:
            s = U(x)
            if s == "-1":
                out.append("-1")
            elif s == "1":
                out.append("1")
            elif isinstance(x, ast.Name) and isinstance(env.get(x.id), tuple) and env.get(x.id) and env[x.id][0] == "dim":
                out.append(env[x.id][1])
            elif isinstance(x, ast.Call):
                v = self.ev(f, x, env)
                out.append(v[1] if isinstance(v, tuple) and v and v[0] == "dim" else "?")
            else:
                out.append("?")
        if "-1" in out and total is not None:
            known = [d for d in out if d not in ("-1", "1")]
            if not known:
                out[out.index("-1")] = total
            else:
                out[out.index("-1")] = "?"
        return tuple(out)

    def ev(self, f, e, env):
        if isinstance(e, ast.Name):
            return env.get(e.id, UNK)
        if isinstance(e, ast.Constant):
            return ()
        if isinstance(e, ast.Tuple):
            return ("tuple", [self.ev(f, x, env) for x in e.elts])
        if isinstance(e, ast.UnaryOp):
            return self.ev(f, e.operand, env)
        if isinstance(e, ast.BinOp):
            a, b = self.ev(f, e.left, env), self.ev(f, e.right, env)
            if isinstance(a, tuple) and a and a[0] == "dim":
                a = ()
            if isinstance(b, tuple) and b and b[0] == "dim":
                b = ()
            if isinstance(a, tuple) and a and a[0] in ("tuple", "dim", "none", "kernel"):
                return UNK
            if isinstance(b, tuple) and b and b[0] in ("tuple", "dim", "none", "kernel"):
                return UNK
            return bcast(a, b, e)
        if isinstance(e, ast.Subscript):
            b = self.ev(f, e.value, env)
            if isinstance(b, tuple) and b and b[0] == "tuple" and isinstance(e.slice, ast.Constant):
                return b[1][e.slice.value]
            if isinstance(b, tuple) and b and b[0] == "shapeof" and isinstance(e.slice, ast.Constant):
                sh = b[1]
                return ("dim", sh[e.slice.value]) if sh is not UNK and -len(sh) <= e.slice.value < len(sh) else UNK
            return UNK
        if isinstance(e, ast.Attribute):
            if e.attr == "shape":
                return ("shapeof", self.ev(f, e.value, env))
            if e.attr == "size":
                b = self.ev(f, e.value, env)
                ok = b is not UNK and not (isinstance(b, tuple) and b and b[0] in ("tuple", "dim", "none", "kernel", "shapeof"))
                return ("dim", size_of(b)) if ok else ()
            if e.attr in ("pi", "e", "inf"):
                return ()
            return UNK
        if isinstance(e, ast.Call):
            return self.ev_call(f, e, env)
        return UNK

    def ev_call(self, f, c, env):
        n = fn_name(c)
        pos = list(c.args)
        while not isinstance(c.func, ast.Name) or c.func.id not in env:      # arguments of package functions written by keyword
            nxt = argn(c, len(pos))
            if nxt is None or any(nxt is k_.value for k_ in c.keywords if k_.arg in ("axis", "keepdims", "lower", "size")):
                break
            pos.append(nxt)
        A = [self.ev(f, a, env) for a in pos]
        fv = env.get(c.func.id) if isinstance(c.func, ast.Name) else None

        def plain(s):
            return s is not UNK and not (isinstance(s, tuple) and s and s[0] in ("tuple", "dim", "none", "kernel", "shapeof"))
        if fv == ("kernel",) or (isinstance(c.func, ast.Name) and c.func.id in ("_kernel", "kernel") and len(A) == 2):
            a, b = A
            if plain(a) and plain(b) and len(a) == 2 and len(b) == 2:
                if a[1] != b[1]:
                    raise ShapeError(f"kernel between inputs of different dimension {fmt(a)} vs {fmt(b)}", c)
                return (a[0], b[0])
            return UNK
        if n == "diagonal" and A and plain(A[0]) and len(A[0]) == 2:
            return (A[0][0],)
        if fv == ("mean",) or (isinstance(c.func, ast.Name) and c.func.id == "mean" and len(A) == 1):
            return (A[0][0], "1") if plain(A[0]) and len(A[0]) == 2 else UNK
        if n == "getval":
            return A[0] if A else UNK
        if n in ("matmul", "dot") and len(A) == 2:
            a, b = A
            if plain(a) and plain(b) and len(a) == 2 and len(b) == 2:
                if a[1] != b[0] and "?" not in (a[1], b[0]):
                    raise ShapeError(f"{n}: inner dimensions differ, {fmt(a)} x {fmt(b)} in `{U(c)[:70]}`", c)
                return (a[0], b[1])
            return UNK
        if n == "transpose" and A and plain(A[0]) and len(A[0]) == 2:
            return (A[0][1], A[0][0])
        if n == "solve_triangular" and len(A) == 2:
            l, b = A
            if plain(l) and plain(b) and len(l) == 2 and len(b) == 2:
                if l[0] != l[1]:
                    raise ShapeError(f"solve_triangular: factor {fmt(l)} is not square", c)
                if l[0] != b[0] and "?" not in (l[0], b[0]):
                    raise ShapeError(f"solve_triangular: factor {fmt(l)} does not match right-hand side {fmt(b)} in `{U(c)[:70]}`", c)
                return b
            return UNK
        if n == "reshape" and len(pos) == 2:
            x = A[0]
            if plain(x):
                sh = self.dims_from_tuple(f, pos[1], env, total=size_of(x))
                if sh is not UNK and "-1" not in sh:
                    want = [d for d in sh if d not in ("1", "?")]
                    have = [d for d in x if d != "1"]
                    if "?" not in sh and sorted(want) != sorted(have) and "?" not in have:
                        raise ShapeError(f"reshape of {fmt(x)} to {fmt(sh)} changes the number of elements in `{U(c)[:70]}`", c)
                return sh
            return self.dims_from_tuple(f, pos[1], env)
        if n in ("sum", "prod", "mean", "max", "min", "amax", "amin", "nansum", "logsumexp"):
            x = A[0] if A else UNK
            ax = kwarg(c, "axis", 1)
            if ax is None:
                return ()
            if plain(x) and isinstance(ax, (ast.Constant, ast.UnaryOp)):
                k = int(U(ax))
                if -len(x) <= k < len(x):
                    return tuple(d for i, d in enumerate(x) if i != (k % len(x)))
            return UNK
        if n in ("square", "sqrt", "log", "abs", "exp", "negative"):
            return A[0] if A else UNK
        if n in ("maximum", "minimum", "multiply", "divide", "add", "subtract") and len(A) == 2:
            a, b = A
            if not plain(a) or not plain(b):
                return a if plain(a) else (b if plain(b) else UNK)
            return bcast(a, b, c)
        if n == "diag" and A and plain(A[0]) and len(A[0]) == 2:
            if A[0][0] != A[0][1]:
                raise ShapeError(f"diag of a non-square matrix {fmt(A[0])}", c)
            return (A[0][0],)
        if n == "expand_dims" and A and plain(A[0]):
            return A[0] + ("1",)
        if n in ("zeros", "ones") and pos:
            return self.dims_from_tuple(f, pos[0], env)
        if n == "concatenate" and pos and isinstance(pos[0], ast.List):
            parts = [self.ev(f, x, env) for x in pos[0].elts]
            ax = kwarg(c, "axis", 1)
            if all(plain(p) for p in parts) and ax is not None and len({len(p) for p in parts}) == 1:
                k = int(U(ax)) % len(parts[0])
                for i in range(len(parts[0])):
                    if i != k and len({p[i] for p in parts}) > 1 and not any(p[i] == "?" for p in parts):
                        raise ShapeError(f"concatenate along axis {k}: other dimensions differ, {[fmt(p) for p in parts]} in `{U(c)[:70]}`", c)
                new = "+".join(p[k] for p in parts)
                return tuple(new if i == k else parts[0][i] for i in range(len(parts[0])))
            return UNK
        if n == "flatten_and_concat" and A:
            return ("jitter", A[0])
        if n == "AddJitterOp" and A:
            return A[0]
        if n == "cholesky_factorization" and A:
            k = A[0][1] if isinstance(A[0], tuple) and A[0] and A[0][0] == "jitter" else UNK
            if plain(k) and len(k) == 2 and k[0] != k[1]:
                raise ShapeError(f"Cholesky factorisation of a non-square matrix {fmt(k)}", c)
            return k
        # package function: interpret its body with the actual shapes
        if isinstance(c.func, ast.Name) and self.depth < 3:
            g = f.module.functions.get(c.func.id)
            if g is not None:
                ps = [p for p in g.params]
                args = {}
                for i, a in enumerate(A):
                    if i < len(ps):
                        args[ps[i]] = a
                for kw_ in c.keywords:
                    if kw_.arg:
                        args[kw_.arg] = self.ev(f, kw_.value, env)
                sub = Interp(self.ctx, self.module, self.depth + 1)
                r = sub.call_function(g, args)
                self.errors += sub.errors
                return r
        return UNK


def check_posterior_utils(ctx):
    """[(name, ok, detail, node, func)]"""
    P = ctx.P
    modname = "syne_tune.optimizer.schedulers.searchers.bayesopt.gpautograd.posterior_utils"
    mod = P.modules.get(modname)
    if mod is None:
        from ..core.model import AnchorError
        raise AnchorError("posterior_utils module not found")
    K = ("tuple", [("kernel",), ("1", "1")])
    cases = [
        ("cholesky_computations", dict(features=("n", "d"), targets=("n", "m"), mean=("mean",), kernel=K, noise_variance=("1",)),
         ("tuple", [("n", "n"), ("n", "m")])),
        ("predict_posterior_marginals", dict(features=("n", "d"), mean=("mean",), kernel=K, chol_fact=("n", "n"), pred_mat=("n", "m"),
                                             test_features=("t", "d")), ("tuple", [("t", "m"), ("t",)])),
        ("cholesky_update", dict(features=("n", "d"), mean=("mean",), kernel=K, chol_fact=("n", "n"), pred_mat=("n", "m"),
                                 noise_variance=("1",), feature=("1", "d"), target=("1", "m"), lvec=("none",)),
         ("tuple", [("n+1", "n+1"), ("n+1", "m")])),
        ("sample_and_cholesky_update", dict(features=("n", "d"), mean=("mean",), kernel=K, chol_fact=("n", "n"), pred_mat=("n", "m"),
                                            noise_variance=("1",), feature=("1", "d"), random_state=UNK, mean_impute_mask=("none",)),
         None),
        ("sample_posterior_joint", dict(features=("n", "d"), mean=("mean",), kernel=K, chol_fact=("n", "n"), pred_mat=("n", "m"),
                                        test_features=("t", "d"), random_state=UNK, num_samples=("dim", "s")), None),
        ("negative_log_marginal_likelihood", dict(chol_fact=("n", "n"), pred_mat=("n", "1")), ()),
    ]
    out = []
    for name, args, want in cases:
        f = mod.functions.get(name)
        if f is None:
            from ..core.model import AnchorError
            raise AnchorError(f"posterior_utils.{name} vanished")
        it = Interp(ctx, mod)
        got = it.call_function(f, args)
        if it.errors:
            node, msg, g = it.errors[0]
            out.append((name, False, msg + (f" (in {g.name})" if g is not f else ""), node, g))
            continue
        if want is not None:
            if got is UNK:      # an operation the interpreter has no shape rule for: nothing is known, nothing is reported as wrong
                from ..core.model import AnchorError
                raise AnchorError(f"posterior_utils.{name}: the shape of the returned value cannot be derived (an operation without a shape rule)")
            ok = _same(got, want)
            out.append((name, ok, f"returns {fmt(got)}" if ok else f"returns {fmt(got)}, documented {fmt(want)}", None, f))
        else:
            out.append((name, True, f"all intermediate shapes conform; returns {fmt(got)}", None, f))
    return out


def _same(a, b):
    if a is UNK:
        return False
    if isinstance(b, tuple) and b and b[0] == "tuple":
        return isinstance(a, tuple) and a and a[0] == "tuple" and len(a[1]) == len(b[1]) and all(_same(x, y) for x, y in zip(a[1], b[1]))
    return tuple(a) == tuple(b)
