"""Parity typing for the min/max metamorphic relation (DESIGN.md A.5).

sigma = (mode -> other mode, metric values -> negated).  A mode-dependent site holds when every
value that reaches a decision or an ordering is invariant under sigma.  This module provides

* mode_test(e)           which mode makes a boolean expression true ('min' / 'max' / None)
* fold_mode(e, mode)     constant folding of an expression under mode := 'min' / 'max'
* is_sign(e)             SIGN: folds to k under min and -k under max (k != 0)
* dual_compare(a, b)     are two comparisons mirror images (same operands, flipped operator)?
* dualize(node)          apply the dual table to one arm of a mode switch; the arms are a dual
                         pair iff unparse(dualize(arm_min)) == unparse(arm_max) up to normalisation
"""
import ast

from ..engine import argn
import copy

from ..core.facts import U

MODE_WORDS = ("mode",)


def _is_mode_expr(e):
    """the operand compared against the literals 'min' / 'max'.  Those two literals are used for nothing but the
    optimisation mode in this code base (checked by the C15 sweep: an unknown shape is an analysis error), so the
    operand's *name* is not consulted - a renamed local stays a mode test."""
    return isinstance(e, (ast.Name, ast.Attribute, ast.Subscript, ast.Call))


def mode_test(e, mode_flags=()):
    """'min' if e is true exactly for mode == 'min', 'max' likewise, else None.
    ``mode_flags``: names/attribute texts known to be `mode == "min"` flags (e.g. 'self._is_min')."""
    if isinstance(e, ast.UnaryOp) and isinstance(e.op, ast.Not):
        r = mode_test(e.operand, mode_flags)
        return {"min": "max", "max": "min"}.get(r)
    if isinstance(e, ast.Compare) and len(e.ops) == 1:
        l, r = e.left, e.comparators[0]
        for a, b in ((l, r), (r, l)):
            if isinstance(b, ast.Constant) and b.value in ("min", "max") and _is_mode_expr(a):
                m = b.value
                if isinstance(e.ops[0], ast.Eq):
                    return m
                if isinstance(e.ops[0], ast.NotEq):
                    return {"min": "max", "max": "min"}[m]
    s = U(e)
    for flag, m in mode_flags:
        if s == flag:
            return m
    return None


def fold_mode(e, mode, mode_flags=(), env=None):
    """Evaluate e to a Python constant under mode := 'min'/'max'; None if not foldable."""
    env = env or {}
    mt = mode_test(e, mode_flags)
    if mt is not None:
        return mt == mode
    if isinstance(e, ast.Constant):
        return e.value
    if isinstance(e, ast.Name) and e.id in env:
        return fold_mode(env[e.id], mode, mode_flags, env)
    if isinstance(e, ast.UnaryOp):
        v = fold_mode(e.operand, mode, mode_flags, env)
        if v is None:
            return None
        if isinstance(e.op, ast.USub):
            return -v
        if isinstance(e.op, ast.Not):
            return not v
        if isinstance(e.op, ast.UAdd):
            return +v
        return None
    if isinstance(e, ast.BinOp):
        a, b = fold_mode(e.left, mode, mode_flags, env), fold_mode(e.right, mode, mode_flags, env)
        if a is None or b is None:
            return None
        try:
            if isinstance(e.op, ast.Add):
                return a + b
            if isinstance(e.op, ast.Sub):
                return a - b
            if isinstance(e.op, ast.Mult):
                return a * b
            if isinstance(e.op, ast.Div):
                return a / b
        except Exception:
            return None
        return None
    if isinstance(e, ast.IfExp):
        c = fold_mode(e.test, mode, mode_flags, env)
        if c is None:
            return None
        return fold_mode(e.body if c else e.orelse, mode, mode_flags, env)
    if isinstance(e, ast.Call) and isinstance(e.func, ast.Name) and e.func.id in ("float", "int") and len(e.args) == 1:
        v = fold_mode(argn(e, 0), mode, mode_flags, env)
        return None if v is None else (float(v) if e.func.id == "float" else int(v))
    return None


def is_sign(e, mode_flags=(), env=None):
    """Returns k (value under 'min') if e is a SIGN expression (k under min, -k under max), else None."""
    a, b = fold_mode(e, "min", mode_flags, env), fold_mode(e, "max", mode_flags, env)
    if isinstance(a, bool) or isinstance(b, bool):
        return None
    if isinstance(a, (int, float)) and isinstance(b, (int, float)) and a == -b and a != 0:
        return a
    return None


_FLIP = {ast.Lt: ast.Gt, ast.Gt: ast.Lt, ast.LtE: ast.GtE, ast.GtE: ast.LtE}


def cmp_canon(c):
    """(opname, left, right) with the operator oriented so that left/right are as written."""
    if not (isinstance(c, ast.Compare) and len(c.ops) == 1):
        return None
    return (type(c.ops[0]), U(c.left), U(c.comparators[0]))


def mirrored(c):
    """the same comparison with its operands exchanged (`0 > e` for `e < 0`); None if not a single comparison"""
    if not (isinstance(c, ast.Compare) and len(c.ops) == 1):
        return None
    t = type(c.ops[0])
    m = _FLIP.get(t, t if t in (ast.Eq, ast.NotEq) else None)
    if m is None:
        return None
    return ast.Compare(left=c.comparators[0], ops=[m()], comparators=[c.left])


def oriented(c, right):
    """c or its mirror image, whichever has `right` (text) as its right operand; None if neither"""
    for x in (c, mirrored(c)):
        if x is not None and U(x.comparators[0]) == right:
            return x
    return None


def both_texts(e):
    """texts of e with every single comparison inside also written the other way round (for containment tests)"""
    out = [U(e)]

    class M(ast.NodeTransformer):
        def visit_Compare(self, n):
            self.generic_visit(n)
            return mirrored(n) or n
    t = M().visit(copy.deepcopy(e))
    ast.fix_missing_locations(t)
    out.append(U(t))
    return out


def dual_compare(a, b):
    """a (min arm) and b (max arm) compare the same operands with mirrored operators."""
    ca, cb = cmp_canon(a), cmp_canon(b)
    if ca is None or cb is None or ca[0] not in _FLIP:
        return False
    if ca[1] == cb[1] and ca[2] == cb[2]:
        return _FLIP[ca[0]] is cb[0]
    if ca[1] == cb[2] and ca[2] == cb[1]:
        return ca[0] is cb[0]      # a <= c  vs  c <= a  (operands swapped)
    return False


# dual table for whole arms --------------------------------------------------------------
NAME_DUAL = {"min": "max", "max": "min", "argmin": "argmax", "argmax": "argmin", "nanmin": "nanmax", "nanmax": "nanmin",
             "nanargmin": "nanargmax", "nanargmax": "nanargmin", "min_metrics": "max_metrics", "max_metrics": "min_metrics",
             "minimum": "maximum", "maximum": "minimum", "idxmin": "idxmax", "idxmax": "idxmin",
             "cummin": "cummax", "cummax": "cummin", "nsmallest": "nlargest", "nlargest": "nsmallest"}
INF_NAMES = ("inf", "np_inf", "infty")


class _Dual(ast.NodeTransformer):
    def __init__(self, odd):
        self.odd = odd  # predicate on expression text: is this an ODD leaf?

    def visit_Name(self, n):
        if n.id in NAME_DUAL:
            return ast.copy_location(ast.Name(id=NAME_DUAL[n.id], ctx=n.ctx), n)
        if n.id in INF_NAMES:
            return ast.UnaryOp(op=ast.USub(), operand=n)
        return n

    def visit_Attribute(self, n):
        n = self.generic_visit(n)
        if n.attr in NAME_DUAL:
            n.attr = NAME_DUAL[n.attr]
        elif n.attr in INF_NAMES:
            return ast.UnaryOp(op=ast.USub(), operand=n)
        return n

    def visit_Call(self, n):
        n = self.generic_visit(n)
        if isinstance(n.func, ast.Name) and n.func.id == "float" and len(n.args) == 1 and isinstance(argn(n, 0), ast.Constant) \
                and isinstance(argn(n, 0).value, str) and argn(n, 0).value.lstrip("+-").lower() in ("inf", "infinity"):
            v = argn(n, 0).value
            n.args = [ast.Constant(value=v[1:] if v.startswith("-") else "-" + v.lstrip("+"))]
        return n

    def visit_UnaryOp(self, n):
        n = self.generic_visit(n)
        # --x => x
        if isinstance(n.op, ast.USub) and isinstance(n.operand, ast.UnaryOp) and isinstance(n.operand.op, ast.USub):
            return n.operand.operand
        return n

    def visit_Compare(self, n):
        n = self.generic_visit(n)
        if len(n.ops) == 1 and type(n.ops[0]) in _FLIP:
            n.ops = [_FLIP[type(n.ops[0])]()]
        return n

    def visit_Lambda(self, n):
        # key=lambda x: x[1]  <->  key=lambda x: -x[1]
        body = n.body
        if isinstance(body, ast.UnaryOp) and isinstance(body.op, ast.USub):
            return ast.Lambda(args=n.args, body=body.operand)
        return ast.Lambda(args=n.args, body=ast.UnaryOp(op=ast.USub(), operand=body))

    def visit_BinOp(self, n):
        n = self.generic_visit(n)
        # x + eps <-> x - eps (numeric literal offsets)
        if isinstance(n.op, (ast.Add, ast.Sub)) and isinstance(n.right, ast.Constant) and isinstance(n.right.value, (int, float)) \
                and self.odd(U(n.left)):
            n.op = ast.Sub() if isinstance(n.op, ast.Add) else ast.Add()
        return n


def dualize(node, odd=lambda s: False):
    d = _Dual(odd).visit(copy.deepcopy(node))
    ast.fix_missing_locations(d)
    return d


def norm_text(node):
    """Text used to compare arms: `-x` on inf simplified, double negation removed."""
    class _Canon(ast.NodeTransformer):      # one orientation for every single comparison: a > b is written b < a
        def visit_Compare(self, n):
            self.generic_visit(n)
            if len(n.ops) == 1 and isinstance(n.ops[0], (ast.Gt, ast.GtE)):
                return ast.Compare(left=n.comparators[0], ops=[ast.Lt() if isinstance(n.ops[0], ast.Gt) else ast.LtE()], comparators=[n.left])
            return n
    try:
        t = _Canon().visit(copy.deepcopy(node))
        ast.fix_missing_locations(t)
        s = U(t)
    except Exception:
        s = U(node)
    return s.replace("--", "").replace("- -", "")


_MIN_FLAVOUR = {"min", "argmin", "nanmin", "nanargmin", "minimum", "idxmin", "cummin", "nsmallest", "min_metrics"}
_MAX_FLAVOUR = {NAME_DUAL[x] for x in _MIN_FLAVOUR}


def arm_flavour(arm):
    """'min' / 'max' / None: which extreme the names used in an arm select (min(...), argmax, nlargest, ...)"""
    stmts = arm if isinstance(arm, list) else [arm]
    names = set()
    for st in stmts:
        for y in ast.walk(st):
            if isinstance(y, ast.Name):
                names.add(y.id)
            elif isinstance(y, ast.Attribute):
                names.add(y.attr)
    lo, hi = bool(names & _MIN_FLAVOUR), bool(names & _MAX_FLAVOUR)
    return "min" if lo and not hi else "max" if hi and not lo else None


def arms_are_dual(arm_min, arm_max, odd=lambda s: False, oriented=False):
    """arm_* are lists of statements (or single expressions).  With oriented=True a dual pair whose arms are attached to the
    wrong modes (the arm taken under 'min' selects the maximum) is not accepted.  (For the min/max symmetry itself - C15 -
    a consistently swapped pair is still symmetric, so orientation is only asked for where the direction matters.)"""
    if isinstance(arm_min, ast.AST):
        arm_min, arm_max = [arm_min], [arm_max]
    if len(arm_min) != len(arm_max):
        return False
    for a, b in zip(arm_min, arm_max):
        if norm_text(dualize(a, odd)) != norm_text(b):
            return False
    if oriented and arm_flavour(arm_min) == "max" and arm_flavour(arm_max) == "min":
        return False
    return True
