"""Parity typing for the min/max metamorphic relation (DESIGN.md A.5).

sigma = (mode -> other mode, metric values -> negated).  A mode-dependent site holds when every
value that reaches a decision or an ordering is invariant under sigma.  This module provides

* mode_test(e)           which mode makes a boolean expression true ('min' / 'max' / None)
* fold_mode(e, mode)     constant folding of an expression under mode := 'min' / 'max'
* is_sign(e)             SIGN: folds to k under min and -k under max (k != 0)
* dual_compare(a, b)     are two comparisons mirror images (same operands, flipped operator)?
* dualize(node)          apply the dual table to one arm of a mode switch; the arms are a dual
                         pair iff unparse(dualize(arm_min)) == unparse(arm_max) up to normalisation
"""
import ast

from ..engine import argn, clone
import copy

from ..core.facts import U

MODE_WORDS = ("mode",)


def _is_mode_expr(e):
    """the operand compared against the literals 'min' / 'max'.  Those two literals are used for nothing but the
    optimisation mode in this code base (checked by the C15 sweep: an unknown shape is an analysis error), so the
    operand's *name* is not consulted - a renamed local stays a mode test."""
    return isinstance(e, (ast.Name, ast.Attribute, ast.Subscript, ast.Call))


def mode_test(e, mode_flags=()):
    """'min' if e is true exactly for mode == 'min', 'max' likewise, else None.
    ``mode_flags``: names/attribute texts known to be `mode == "min"` flags (e.g. 'self._is_min')."""
    if isinstance(e, ast.UnaryOp) and isinstance(e.op, ast.Not):
        r = mode_test(e.operand, mode_flags)
        return {"min": "max", "max": "min"}.get(r)
    if isinstance(e, ast.Compare) and len(e.ops) == 1:
        l, r = e.left, e.comparators[0]
        for a, b in ((l, r), (r, l)):
            if isinstance(b, ast.Constant) and b.value in ("min", "max") and _is_mode_expr(a):
                m = b.value
                if isinstance(e.ops[0], ast.Eq):
                    return m
                if isinstance(e.ops[0], ast.NotEq):
                    return {"min": "max", "max": "min"}[m]
    s = U(e)
    for flag, m in mode_flags:
        if s == flag:
            return m
    return None


def fold_mode(e, mode, mode_flags=(), env=None):
    """Evaluate e to a Python constant under mode := 'min'/'max'; None if not foldable."""
    env = env or {}
    mt = mode_test(e, mode_flags)
    if mt is not None:
        return mt == mode
    if isinstance(e, ast.Constant):
        return e.value
    if isinstance(e, ast.Name) and e.id in env:
        return fold_mode(env[e.id], mode, mode_flags, env)
    if isinstance(e, ast.UnaryOp):
        v = fold_mode(e.operand, mode, mode_flags, env)
        if v is None:
            return None
        if isinstance(e.op, ast.USub):
            return -v
        if isinstance(e.op, ast.Not):
            return not v
        if isinstance(e.op, ast.UAdd):
            return +v
        return None
    if isinstance(e, ast.BinOp):
        a, b = fold_mode(e.left, mode, mode_flags, env), fold_mode(e.right, mode, mode_flags, env)
        if a is None or b is None:
            return None
        try:
            if isinstance(e.op, ast.Add):
                return a + b
            if isinstance(e.op, ast.Sub):
                return a - b
            if isinstance(e.op, ast.Mult):
                return a * b
            if isinstance(e.op, ast.Div):
                return a / b
        except Exception:
            return None
        return None
    if isinstance(e, ast.IfExp):
        c = fold_mode(e.test, mode, mode_flags, env)
        if c is None:
            return None
        return fold_mode(e.body if c else e.orelse, mode, mode_flags, env)
    if isinstance(e, ast.Call) and isinstance(e.func, ast.Name) and e.func.id in ("float", "int") and len(e.args) == 1:
        v = fold_mode(argn(e, 0), mode, mode_flags, env)
        return None if v is None else (float(v) if e.func.id == "float" else int(v))
    return None


def is_sign(e, mode_flags=(), env=None):
    """Returns k (value under 'min') if e is a SIGN expression (k under min, -k under max), else None."""
    a, b = fold_mode(e, "min", mode_flags, env), fold_mode(e, "max", mode_flags, env)
    if isinstance(a, bool) or isinstance(b, bool):
        return None
    if isinstance(a, (int, float)) and isinstance(b, (int, float)) and a == -b and a != 0:
        return a
    return None


_FLIP = {ast.Lt: ast.Gt, ast.Gt: ast.Lt, ast.LtE: ast.GtE, ast.GtE: ast.LtE}


def cmp_canon(c):
    """(opname, left, right) with the operator oriented so that left/right are as written."""
    if not (isinstance(c, ast.Compare) and len(c.ops) == 1):
        return None
    return (type(c.ops[0]), U(c.left), U(c.comparators[0]))


def mirrored(c):
    """the same comparison with its operands exchanged (`0 > e` for `e < 0`); None if not a single comparison"""
    if not (isinstance(c, ast.Compare) and len(c.ops) == 1):
        return None
    t = type(c.ops[0])
    m = _FLIP.get(t, t if t in (ast.Eq, ast.NotEq) else None)
    if m is None:
        return None
    return ast.Compare(left=c.comparators[0], ops=[m()], comparators=[c.left])


def oriented(c, right):
    """c or its mirror image, whichever has `right` (text) as its right operand; None if neither"""
    for x in (c, mirrored(c)):
        if x is not None and U(x.comparators[0]) == right:
            return x
    return None


def both_texts(e):
    """texts of e with every single comparison inside also written the other way round (for containment tests)"""
    out = [U(e)]

    class M(ast.NodeTransformer):
        def visit_Compare(self, n):
            self.generic_visit(n)
            return mirrored(n) or n
    t = M().visit(clone(e))
    ast.fix_missing_locations(t)
    out.append(U(t))
    return out


def dual_compare(a, b):
    """a (min arm) and b (max arm) compare the same operands with mirrored operators."""
    ca, cb = cmp_canon(a), cmp_canon(b)
    if ca is None or cb is None or ca[0] not in _FLIP:
        return False
    if ca[1] == cb[1] and ca[2] == cb[2]:
        return _FLIP[ca[0]] is cb[0]
    if ca[1] == cb[2] and ca[2] == cb[1]:
        return ca[0] is cb[0]      # a <= c  vs  c <= a  (operands swapped)
    return False


# dual table for whole arms --------------------------------------------------------------
NAME_DUAL = {"min": "max", "max": "min", "argmin": "argmax", "argmax": "argmin", "nanmin": "nanmax", "nanmax": "nanmin",
             "nanargmin": "nanargmax", "nanargmax": "nanargmin", "min_metrics": "max_metrics", "max_metrics": "min_metrics",
             "minimum": "maximum", "maximum": "minimum", "idxmin": "idxmax", "idxmax": "idxmin",
             "cummin": "cummax", "cummax": "cummin", "nsmallest": "nlargest", "nlargest": "nsmallest"}
INF_NAMES = ("inf", "np_inf", "infty")


class _Dual(ast.NodeTransformer):
    def __init__(self, odd):
        self.odd = odd  # predicate on expression text: is this an ODD leaf?

    def visit_Name(self, n):
        if n.id in NAME_DUAL:
            return ast.copy_location(ast.Name(id=NAME_DUAL[n.id], ctx=n.ctx), n)
        if n.id in INF_NAMES:
            return ast.UnaryOp(op=ast.USub(), operand=n)
        return n

    def visit_Attribute(self, n):
        n = self.generic_visit(n)
        if n.attr in NAME_DUAL:
            n.attr = NAME_DUAL[n.attr]
        elif n.attr in INF_NAMES:
            return ast.UnaryOp(op=ast.USub(), operand=n)
        return n

    def visit_Call(self, n):
        n = self.generic_visit(n)
        if isinstance(n.func, ast.Name) and n.func.id == "float" and len(n.args) == 1 and isinstance(argn(n, 0), ast.Constant) \
                and isinstance(argn(n, 0).value, str) and argn(n, 0).value.lstrip("+-").lower() in ("inf", "infinity"):
            v = argn(n, 0).value
            n.args = [ast.Constant(value=v[1:] if v.startswith("-") else "-" + v.lstrip("+"))]
        return n

    def visit_UnaryOp(self, n):
        n = self.generic_visit(n)
        # --x => x
        if isinstance(n.op, ast.USub) and isinstance(n.operand, ast.UnaryOp) and isinstance(n.operand.op, ast.USub):
            return n.operand.operand
        return n

    def visit_Compare(self, n):
        n = self.generic_visit(n)
        if len(n.ops) == 1 and type(n.ops[0]) in _FLIP:
            n.ops = [_FLIP[type(n.ops[0])]()]
        return n

    def visit_Lambda(self, n):
        # key=lambda x: x[1]  <->  key=lambda x: -x[1]
        body = n.body
        if isinstance(body, ast.UnaryOp) and isinstance(body.op, ast.USub):
            return ast.Lambda(args=n.args, body=body.operand)
        return ast.Lambda(args=n.args, body=ast.UnaryOp(op=ast.USub(), operand=body))

    def visit_BinOp(self, n):
        n = self.generic_visit(n)
        # x + eps <-> x - eps (numeric literal offsets)
        if isinstance(n.op, (ast.Add, ast.Sub)) and isinstance(n.right, ast.Constant) and isinstance(n.right.value, (int, float)) \
                and self.odd(U(n.left)):
            n.op = ast.Sub() if isinstance(n.op, ast.Add) else ast.Add()
        return n


def dualize(node, odd=lambda s: False):
    d = _Dual(odd).visit(clone(node))
    ast.fix_missing_locations(d)
    return d


def norm_text(node):
    """Text used to compare arms: `-x` on inf simplified, double negation removed."""
    class _Canon(ast.NodeTransformer):      # one orientation for every single comparison: a > b is written b < a
        def visit_Compare(self, n):
            self.generic_visit(n)
            if len(n.ops) == 1 and isinstance(n.ops[0], (ast.Gt, ast.GtE)):
                return ast.Compare(left=n.comparators[0], ops=[ast.Lt() if isinstance(n.ops[0], ast.Gt) else ast.LtE()], comparators=[n.left])
            return n
    try:
        t = _Canon().visit(clone(node))
        ast.fix_missing_locations(t)
        s = U(t)
    except Exception:
        s = U(node)
    return s.replace("--", "").replace("- -", "")


_MIN_FLAVOUR = {"min", "argmin", "nanmin", "nanargmin", "minimum", "idxmin", "cummin", "nsmallest", "min_metrics"}
_MAX_FLAVOUR = {NAME_DUAL[x] for x in _MIN_FLAVOUR}


def arm_flavour(arm):
    """'min' / 'max' / None: which extreme the names used in an arm select (min(...), argmax, nlargest, ...)"""
    stmts = arm if isinstance(arm, list) else [arm]
    names = set()
    for st in stmts:
        for y in ast.walk(st):
            if isinstance(y, ast.Name):
                names.add(y.id)
            elif isinstance(y, ast.Attribute):
                names.add(y.attr)
    lo, hi = bool(names & _MIN_FLAVOUR), bool(names & _MAX_FLAVOUR)
    return "min" if lo and not hi else "max" if hi and not lo else None


def arms_are_dual(arm_min, arm_max, odd=lambda s: False, oriented=False):
    """arm_* are lists of statements (or single expressions).  With oriented=True a dual pair whose arms are attached to the
    wrong modes (the arm taken under 'min' selects the maximum) is not accepted.  (For the min/max symmetry itself - C15 -
    a consistently swapped pair is still symmetric, so orientation is only asked for where the direction matters.)"""
    if isinstance(arm_min, ast.AST):
        arm_min, arm_max = [arm_min], [arm_max]
    if len(arm_min) != len(arm_max):
        return False
    for a, b in zip(arm_min, arm_max):
        if norm_text(dualize(a, odd)) != norm_text(b):
            return False
    if oriented and arm_flavour(arm_min) == "max" and arm_flavour(arm_max) == "min":
        return False
    return True


# ------------------------------------------------------------------------------------------- specialisation under a mode
def specialise(fn_node, mode, mode_flags=(), consts=None):
    """the body of a function with the mode fixed: mode tests folded to constants, conditionals on them resolved, look-ups in
    tables keyed by the mode ('min' / 'max', or True / False for a mode test) replaced by the selected row, a tuple unpacked
    from a tuple display split, `getattr(x, "<constant>")` written `x.<constant>`, and locals that hold a constant, a lambda or
    a plain name after that folded into their uses.  What remains differs between the two modes exactly where the function
    depends on the mode - written out, whatever idiom selected it.  `consts`: {name: expression} of module-level constants."""
    consts = consts or {}
    fn = clone(fn_node)

    def const_of(e):
        """python constant an expression folds to under the mode, or a marker that it does not"""
        mt = mode_test(e, mode_flags)
        if mt is not None:
            return mt == mode
        if isinstance(e, ast.Constant):
            return e.value
        if isinstance(e, ast.Call) and isinstance(e.func, ast.Name) and e.func.id == "bool" and len(e.args) == 1 and not e.keywords:
            v = const_of(e.args[0])
            return bool(v) if v is not _NO else _NO
        if isinstance(e, ast.UnaryOp) and isinstance(e.op, ast.Not):
            v = const_of(e.operand)
            return (not v) if v is not _NO else _NO
        if isinstance(e, ast.IfExp):
            c = const_of(e.test)
            if c is not _NO:
                return const_of(e.body if c else e.orelse)
        return _NO

    class Fold(ast.NodeTransformer):
        def __init__(self, env):
            self.env = env

        def visit_IfExp(self, n):
            n = self.generic_visit(n)
            c = const_of(n.test)
            return (n.body if c else n.orelse) if c is not _NO else n

        def visit_Subscript(self, n):
            n = self.generic_visit(n)
            tab = n.value
            if isinstance(tab, ast.Name):
                tab = self.env.get(tab.id, consts.get(tab.id, tab))
            k = const_of(n.slice)
            if isinstance(tab, ast.Dict) and k is not _NO and isinstance(n.ctx, ast.Load):
                for kk, vv in zip(tab.keys, tab.values):
                    if isinstance(kk, ast.Constant) and kk.value == k and type(kk.value) is type(k):
                        return clone(vv)
            return n

        def visit_Call(self, n):
            n = self.generic_visit(n)
            if isinstance(n.func, ast.Name) and n.func.id == "getattr" and len(n.args) == 2 and not n.keywords \
                    and isinstance(n.args[1], ast.Constant) and isinstance(n.args[1].value, str) and n.args[1].value.isidentifier():
                return ast.copy_location(ast.Attribute(value=n.args[0], attr=n.args[1].value, ctx=ast.Load()), n)
            mt = mode_test(n, mode_flags)
            return n

        def visit_Compare(self, n):
            n = self.generic_visit(n)
            mt = mode_test(n, mode_flags)
            return ast.copy_location(ast.Constant(value=(mt == mode)), n) if mt is not None else n

        def visit_Name(self, n):
            if isinstance(n.ctx, ast.Load) and n.id in self.env and _inlineable(self.env[n.id]):
                return clone(self.env[n.id])
            return n

    local_names = {y.arg for y in ast.walk(fn.args) if isinstance(y, ast.arg)} | \
                  {y.id for y in ast.walk(fn) if isinstance(y, ast.Name) and isinstance(y.ctx, (ast.Store, ast.Del))}

    def _inlineable(e):
        """closed values only: constants, lambdas, names of the module (not locals / parameters of the function), and their negation -
        so that the same locals are folded away whichever mode is fixed"""
        if isinstance(e, (ast.Constant, ast.Lambda)):
            return True
        if isinstance(e, ast.Name):
            return e.id not in local_names
        if isinstance(e, ast.Attribute):
            return _inlineable(e.value)
        return isinstance(e, ast.UnaryOp) and isinstance(e.op, ast.USub) and _inlineable(e.operand)

    def single_defs(body):
        """{name: value} for locals assigned exactly once in the whole function (plain assignment)"""
        cnt, val = {}, {}
        for y in ast.walk(fn.args):
            if isinstance(y, ast.arg):
                cnt[y.arg] = 2
        for y in ast.walk(ast.Module(body=body, type_ignores=[])):
            if isinstance(y, ast.Name) and isinstance(y.ctx, (ast.Store, ast.Del)):
                cnt[y.id] = cnt.get(y.id, 0) + 1
            elif isinstance(y, ast.arg):
                cnt[y.arg] = cnt.get(y.arg, 0) + 2
        for y in ast.walk(ast.Module(body=body, type_ignores=[])):
            if isinstance(y, ast.Assign) and len(y.targets) == 1 and isinstance(y.targets[0], ast.Name) and cnt.get(y.targets[0].id) == 1:
                val[y.targets[0].id] = y.value
        return val

    def stmts(body, env):
        out = []
        for st in body:
            if isinstance(st, (ast.FunctionDef, ast.AsyncFunctionDef, ast.ClassDef)):
                out.append(st)
                continue
            if isinstance(st, ast.If):
                st.test = Fold(env).visit(st.test)
                c = const_of(st.test)
                if c is not _NO:
                    out += stmts(st.body if c else st.orelse, env)
                    continue
                st.body, st.orelse = stmts(st.body, env) or [ast.Pass()], stmts(st.orelse, env)
                out.append(st)
                continue
            for fld in ("body", "orelse", "finalbody"):
                sub = getattr(st, fld, None)
                if isinstance(sub, list) and sub and isinstance(sub[0], ast.stmt):
                    setattr(st, fld, stmts(sub, env) or ([ast.Pass()] if fld == "body" else []))
            for h in getattr(st, "handlers", []) or []:
                h.body = stmts(h.body, env) or [ast.Pass()]
            # fold the expressions of the statement itself (not its nested blocks, done above)
            for fld, v in list(ast.iter_fields(st)):
                if fld in ("body", "orelse", "finalbody", "handlers"):
                    continue
                if isinstance(v, ast.expr) and not (fld in ("targets", "target") and True):
                    setattr(st, fld, Fold(env).visit(v))
                elif isinstance(v, list) and fld not in ("targets",):
                    setattr(st, fld, [Fold(env).visit(x) if isinstance(x, ast.expr) else x for x in v])
            # a, b = (x, y)  ->  a = x; b = y
            if isinstance(st, ast.Assign) and len(st.targets) == 1 and isinstance(st.targets[0], ast.Tuple) and isinstance(st.value, ast.Tuple) \
                    and len(st.targets[0].elts) == len(st.value.elts) and all(isinstance(e, ast.Name) for e in st.targets[0].elts):
                for tg, v in zip(st.targets[0].elts, st.value.elts):
                    out.append(ast.copy_location(ast.Assign(targets=[tg], value=v), st))
                continue
            out.append(st)
        return out

    body = [s for s in fn.body if not (isinstance(s, ast.Expr) and isinstance(s.value, ast.Constant) and isinstance(s.value.value, str))]
    for _ in range(4):
        env = single_defs(body)
        before = "\n".join(U(s) for s in body)
        body = stmts(body, env)
        # a local that was folded into all its uses and is now a dead constant / lambda / name definition goes away
        env = single_defs(body)
        used = {y.id for s in body for y in ast.walk(s) if isinstance(y, ast.Name) and isinstance(y.ctx, ast.Load)}
        body = [s for s in body if not (isinstance(s, ast.Assign) and len(s.targets) == 1 and isinstance(s.targets[0], ast.Name)
                                        and s.targets[0].id in env and s.targets[0].id not in used
                                        and (_inlineable(s.value) or isinstance(s.value, (ast.Dict, ast.Tuple))))]
        if "\n".join(U(s) for s in body) == before:
            break
    # definitions nothing reads any more (they were folded into their uses)
    for _ in range(3):
        env = single_defs(body)
        used = {y.id for s in body for y in ast.walk(s) if isinstance(y, ast.Name) and isinstance(y.ctx, ast.Load)}

        def prune(bl):
            out = []
            for s in bl:
                if isinstance(s, ast.Assign) and len(s.targets) == 1 and isinstance(s.targets[0], ast.Name) and s.targets[0].id in env \
                        and s.targets[0].id not in used and (_inlineable(s.value) or isinstance(s.value, (ast.Dict, ast.Tuple))):
                    continue
                for fld in ("body", "orelse", "finalbody"):
                    sub = getattr(s, fld, None)
                    if isinstance(sub, list) and sub and isinstance(sub[0], ast.stmt) and not isinstance(s, (ast.FunctionDef, ast.AsyncFunctionDef, ast.ClassDef)):
                        setattr(s, fld, prune(sub) or ([ast.Pass()] if fld == "body" else []))
                out.append(s)
            return out
        body = prune(body)
    for s in body:
        ast.fix_missing_locations(s)
    return body


def dual_bodies(a, b, dual_stmt):
    """two specialised bodies are mirror images: statement by statement equal, or - run of differing statements by run - dual
    (dual_stmt(list, list) decides), descending into compound statements with the same header"""
    if len(a) != len(b):
        return False
    i = 0
    while i < len(a):
        x, y = a[i], b[i]
        if U(x) == U(y):
            i += 1
            continue
        if type(x) is type(y) and isinstance(x, (ast.If, ast.For, ast.While, ast.With, ast.Try)):
            hx = U(x.test) if isinstance(x, (ast.If, ast.While)) else (U(x.target) + " in " + U(x.iter) if isinstance(x, ast.For) else "")
            hy = U(y.test) if isinstance(y, (ast.If, ast.While)) else (U(y.target) + " in " + U(y.iter) if isinstance(y, ast.For) else "")
            if hx == hy and all(dual_bodies(getattr(x, fld, []) or [], getattr(y, fld, []) or [], dual_stmt) for fld in ("body", "orelse", "finalbody")):
                i += 1
                continue
        j = i
        while j < len(a) and U(a[j]) != U(b[j]):
            j += 1
        if not dual_stmt(a[i:j], b[i:j]):
            # the run may be several independent pairs
            if not all(dual_stmt([p_], [q_]) for p_, q_ in zip(a[i:j], b[i:j])):
                return False
        i = j
    return True


_NO = object()
