"""Intra-procedural taint with sanitizer: which `return` statements can return a value
derived from a source without passing the sanitizer call."""
import ast

from ..core.cfg import cfg_of, walk_shallow


def expr_tainted(e, state, is_source, is_sanitizer):
    if e is None:
        return False
    if isinstance(e, ast.Call) and is_sanitizer(e):
        return False
    if is_source(e):
        return True
    if isinstance(e, ast.Name):
        return e.id in state
    if isinstance(e, (ast.Lambda, ast.FunctionDef)):
        return False
    return any(expr_tainted(c, state, is_source, is_sanitizer) for c in ast.iter_child_nodes(e)
               if isinstance(c, (ast.expr, ast.keyword, ast.comprehension)) or isinstance(c, ast.AST))


def tainted_returns(f, is_source, is_sanitizer, initial=()):
    """[(return stmt, set of tainted names)] for returns whose value may be tainted.
    Forward may-analysis (union at joins) over local names."""
    cfg = cfg_of(f)
    IN = {n.id: None for n in cfg.nodes}
    IN[cfg.entry] = frozenset(initial)
    work = [cfg.entry]
    while work:
        nid = work.pop()
        st = set(IN[nid])
        n = cfg.nodes[nid]
        if n.kind == "stmt":
            s = n.ast
            if isinstance(s, ast.Assign):
                t = expr_tainted(s.value, st, is_source, is_sanitizer)
                for tg in s.targets:
                    for nm in ([tg] if isinstance(tg, ast.Name) else
                               [e for e in ast.walk(tg) if isinstance(e, ast.Name) and isinstance(e.ctx, ast.Store)]):
                        if t:
                            st.add(nm.id)
                        else:
                            st.discard(nm.id)
            elif isinstance(s, ast.AugAssign) and isinstance(s.target, ast.Name):
                if expr_tainted(s.value, st, is_source, is_sanitizer):
                    st.add(s.target.id)
            elif isinstance(s, ast.AnnAssign) and isinstance(s.target, ast.Name) and s.value is not None:
                if expr_tainted(s.value, st, is_source, is_sanitizer):
                    st.add(s.target.id)
                else:
                    st.discard(s.target.id)
        elif n.kind == "for" and isinstance(n.ast.target, ast.Name):
            if expr_tainted(n.ast.iter, st, is_source, is_sanitizer):
                st.add(n.ast.target.id)
        out = frozenset(st)
        for (m, label) in cfg.succ[nid]:
            if label == "exc":
                continue
            old = IN[m]
            new = out if old is None else (old | out)
            if new != old:
                IN[m] = new
                work.append(m)
    res = []
    for n in cfg.nodes:
        if n.kind == "stmt" and isinstance(n.ast, ast.Return) and n.ast.value is not None and IN[n.id] is not None:
            if expr_tainted(n.ast.value, set(IN[n.id]), is_source, is_sanitizer):
                res.append((n.ast, set(IN[n.id])))
    return res


def n_returns(f):
    return sum(1 for x in walk_shallow(f.node) if isinstance(x, ast.Return) and x.value is not None)
