"""external_api(mod): does an attribute of a third-party module used on a mechanism's path exist in the
namespace that module's own shipped stub (<site-packages>/<mod>/__init__.pyi) declares?"""
import ast
import glob
import os

from ..core.cfg import walk_shallow

_CACHE = {}


def stub_names(mod="numpy"):
    """set of public names declared by the module's stub, or None if no stub is found (rule not evaluated)."""
    if mod in _CACHE:
        return _CACHE[mod]
    cands = sorted(glob.glob(f"/venv/lib/python*/site-packages/{mod}/__init__.pyi"))
    names = None
    if cands:
        with open(cands[0], encoding="utf-8") as fh:
            text = fh.read()
        try:
            tree = ast.parse(text)
        except SyntaxError:
            # the stub may use syntax newer than the interpreter running the check (PEP 695 `type X = ...`)
            import re
            text = re.sub(r"^type\s+(\w+)(\[[^\]]*\])?\s*=", r"\1 =", text, flags=re.M)
            try:
                tree = ast.parse(text)
            except SyntaxError:
                _CACHE[mod] = None
                return None
        names = set()

        def visit(body):
            for st in body:
                if isinstance(st, (ast.FunctionDef, ast.AsyncFunctionDef, ast.ClassDef)):
                    names.add(st.name)
                elif isinstance(st, ast.AnnAssign) and isinstance(st.target, ast.Name):
                    names.add(st.target.id)
                elif isinstance(st, ast.Assign):
                    for t in st.targets:
                        if isinstance(t, ast.Name):
                            names.add(t.id)
                elif isinstance(st, ast.Import):
                    for a in st.names:
                        names.add((a.asname or a.name).split(".")[0])
                elif isinstance(st, ast.ImportFrom):
                    for a in st.names:
                        names.add(a.asname or a.name)
                elif isinstance(st, (ast.If, ast.Try)):
                    visit(st.body)
                    visit(getattr(st, "orelse", []))
        visit(tree.body)
        # sub-packages are attributes too
        d = os.path.dirname(cands[0])
        for e in os.listdir(d):
            if os.path.isdir(os.path.join(d, e)) or e.endswith((".py", ".pyi", ".so")):
                names.add(e.split(".")[0])
    _CACHE[mod] = names
    return names


def missing_attrs(ctx, f, mod="numpy"):
    """[(attr, node)] loads of <alias>.<attr> in f where alias is the module and attr is not declared."""
    names = stub_names(mod)
    if names is None:
        return None
    out = []
    aliases = {k for k, v in f.module.imports.items() if v[0] == "mod" and v[1] == mod}
    for x in walk_shallow(f.node, include_lambda=True):
        if isinstance(x, ast.Attribute) and isinstance(x.value, ast.Name) and x.value.id in aliases:
            if x.attr not in names:
                out.append((x.attr, x))
    # default arguments are evaluated at import time
    for d in f.node.args.defaults + [k for k in f.node.args.kw_defaults if k is not None]:
        for x in ast.walk(d):
            if isinstance(x, ast.Attribute) and isinstance(x.value, ast.Name) and x.value.id in aliases and x.attr not in names:
                out.append((x.attr, x))
    return out
