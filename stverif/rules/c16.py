"""C16 - a saved and restored scheduler or searcher continues exactly like the original."""
import ast

from ..core.model import AnchorError, ClassInfo, FuncInfo
from ..core.cfg import walk_shallow, cfg_of
from ..core.facts import U, atoms_of
from ..engine import argn, fn_name, kwarg, local_defs, returns_of, stmts_in, dict_items, const_str
from .common import eval3, inclusion_sites

EXPLANATION = (
    "Decides structural clauses of C16 for every searcher class that implements get_state / clone_from_state / "
    "_restore_from_state (and ExclusionList, encode_state/decode_state): S1 key agreement along the super() chain - every key "
    "get_state writes is read by the restore side and every key read unconditionally is written unconditionally; "
    "S2 attributes co-initialised under one condition in the constructor are co-restored; S3 an attribute randomised at "
    "construction time from the seeded generator is part of the state, re-derived with the same seed, or copied to the clone; "
    "S4 the reconstruction call in clone_from_state passes (or the restore path re-assigns) every constructor parameter that "
    "determines kept behaviour, and never passes an attribute that may be None into a constructor that asserts its type; "
    "S5 no object reachable from the Tuner stores a generator or open file in an attribute (dill); S6 model parameters "
    "round-trip by name: get_params/set_params of every kernel/mean/likelihood/warping class use the same key templates and "
    "delegate to the same components; S7 state coverage - every attribute the constructor initialises and a decision method "
    "mutates is written by get_state (under a guard only if every mutation site implies that guard) or is a listed transient; "
    "S8 the random generator's state is saved and restored whole (no slicing / partial unpacking). S1 also: a membership test of a key alone does not count as restoring it. NOT decided: equality of continuation traces at run time; numeric restoration of GP "
    "parameters.")

FLOOR = {"S1": 5, "S2": 1, "S3": 1, "S4": 6, "S5": 1, "S6": 8, "S7": 4, "S8": 2}

SEARCHER_BASE = "BaseSearcher"


# ----------------------------------------------------------------------------- helpers
def _super_call(x, meth):
    return isinstance(x, ast.Call) and isinstance(x.func, ast.Attribute) and x.func.attr == meth and \
        isinstance(x.func.value, ast.Call) and fn_name(x.func.value) == "super"


def _key(ctx, f, e):
    if isinstance(e, ast.Constant) and isinstance(e.value, str):
        return e.value
    if isinstance(e, ast.Name):
        ds = [d for d in local_defs(f, e.id) if not isinstance(d, tuple)]
        if len(ds) == 1 and isinstance(ds[0], ast.Constant) and isinstance(ds[0].value, str):
            return ds[0].value
    return const_str(ctx, f, e)


def _guards_of(node, stop):
    """atoms (core.facts form) of the enclosing `if` tests between node and function ``stop`` - independent of how the
    test is spelled (`if c: A else: B` vs `if not c: B else: A`, `a == b` vs `b == a`)."""
    from ..core.facts import atoms_of
    out = []
    n = node
    while n is not None and n is not stop:
        p = getattr(n, "_parent", None)
        if isinstance(p, ast.If):
            truth = True if any(n is s for s in p.body) else False if any(n is s for s in p.orelse) else None
            if truth is not None:
                at = atoms_of(p.test, truth) or {("truth", U(p.test), truth)}
                out += sorted(at, key=repr)
        n = p
    return out


def keys_written(ctx, cls: ClassInfo, meth="get_state", _depth=0):
    """{key: [guards]} written by cls.<meth> including the super() chain. [] = unconditional."""
    P = ctx.P
    f = P.lookup_method(cls, meth)
    if f is None or _depth > 8:
        return {}
    owner = f.defining_cls
    out = {}

    def add_dict(e, guards):
        from ..engine import deref
        e = deref(f, e)
        if isinstance(e, ast.Dict):
            for k in e.keys:
                kk = _key(ctx, f, k) if k is not None else None
                if kk is None:
                    raise AnchorError(f"{f.qualname}: non-constant state key `{U(k) if k is not None else '**'}`")
                out[kk] = guards
            return True
        if isinstance(e, ast.Call) and isinstance(e.func, ast.Name) and e.func.id == "dict":
            for a in e.args:
                add_dict(a, guards)
            for kw_ in e.keywords:
                if kw_.arg is None:
                    add_dict(kw_.value, guards)
                else:
                    out[kw_.arg] = guards
            return True
        if _super_call(e, meth):
            nxt = P.lookup_method(owner, meth, after=owner)
            if nxt is not None:
                for k, g in keys_written(ctx, nxt.defining_cls, meth, _depth + 1).items():
                    out[k] = g + guards
            return True
        return False

    state_vars = set()
    for st in walk_shallow(f.node):
        if isinstance(st, ast.Return) and st.value is not None:
            if isinstance(st.value, ast.Name):
                state_vars.add(st.value.id)
            elif not add_dict(st.value, _guards_of(st, f.node)):
                raise AnchorError(f"{f.qualname}: returned state expression `{U(st.value)}` not understood")
    for st in walk_shallow(f.node):
        if isinstance(st, ast.Assign) and len(st.targets) == 1:
            t = st.targets[0]
            if isinstance(t, ast.Name) and t.id in state_vars:
                if not add_dict(st.value, _guards_of(st, f.node)):
                    raise AnchorError(f"{f.qualname}: state initialiser `{U(st.value)}` not understood")
            elif isinstance(t, ast.Subscript) and isinstance(t.value, ast.Name) and t.value.id in state_vars:
                kk = _key(ctx, f, t.slice)
                if kk is None:
                    raise AnchorError(f"{f.qualname}: non-constant state key `{U(t.slice)}`")
                out[kk] = _guards_of(st, f.node)
    return out


def keys_read(ctx, f: FuncInfo, _seen=None, sv=None):
    """{key: 'hard'|'soft'} read from the state parameter of f, following super(),
    `<obj>._restore_from_state(state)` / clone construction, and any own method the state is handed to."""
    P = ctx.P
    _seen = _seen if _seen is not None else set()
    if (f, sv) in _seen:
        return {}
    _seen.add((f, sv))
    ps = [p for p in f.params if p != "self"]
    if not ps:
        return {}
    sv = sv or ps[0]
    out = {}

    def put(k, kind):
        if k is None:
            return
        if kind == "test":
            out.setdefault(k, kind)
        elif out.get(k) != "hard":
            out[k] = kind
    for x in walk_shallow(f.node):
        if isinstance(x, ast.Subscript) and isinstance(x.value, ast.Name) and x.value.id == sv and isinstance(x.ctx, ast.Load):
            k = _key(ctx, f, x.slice)
            guards = _guards_of(x, f.node)
            soft = any(g[0] == "in" and g[3] is True and g[2] == sv and (g[1] == repr(k) or (isinstance(x.slice, ast.Name) and g[1] == x.slice.id))
                       for g in guards)
            put(k, "soft" if soft else "hard")
        if isinstance(x, ast.Call) and isinstance(x.func, ast.Attribute) and x.func.attr == "get" \
                and isinstance(x.func.value, ast.Name) and x.func.value.id == sv and x.args:
            put(_key(ctx, f, argn(x, 0)), "soft")
        if isinstance(x, ast.Compare) and len(x.ops) == 1 and isinstance(x.ops[0], (ast.In, ast.NotIn)) \
                and isinstance(x.comparators[0], ast.Name) and x.comparators[0].id == sv:
            k_ = _key(ctx, f, x.left)       # a membership test alone restores nothing
            if k_ is not None and k_ not in out:
                out[k_] = "test"
        if isinstance(x, ast.Call) and isinstance(x.func, ast.Attribute) and x.func.attr in ("_restore_from_state",) \
                and x.args and isinstance(argn(x, 0), ast.Name) and argn(x, 0).id == sv:
            if _super_call(x, "_restore_from_state"):
                nxt = P.lookup_method(f.defining_cls, "_restore_from_state", after=f.defining_cls)
                tg = [nxt] if nxt else []
            else:
                t = ctx.R.infer(f, x.func.value)
                tg = []
                if t is not None and t.cls is not None:
                    m = P.lookup_method(t.cls, "_restore_from_state")
                    tg = [m] if m else []
            for g in tg:
                for k, kind in keys_read(ctx, g, _seen).items():
                    put(k, kind)
        elif isinstance(x, ast.Call) and isinstance(x.func, ast.Attribute) and isinstance(x.func.value, ast.Name) and x.func.value.id == "self" \
                and f.defining_cls is not None:
            # the state handed on to a method of the same object: what that method reads from it counts
            m = P.lookup_method(f.defining_cls, x.func.attr)
            if m is None:
                continue
            mp = [p for p in m.params if p != "self"]
            for i, a_ in enumerate(x.args):
                if isinstance(a_, ast.Name) and a_.id == sv and i < len(mp):
                    for k, kind in keys_read(ctx, m, _seen, sv=mp[i]).items():
                        put(k, kind)
            for kw_ in x.keywords:
                if kw_.arg in mp and isinstance(kw_.value, ast.Name) and kw_.value.id == sv:
                    for k, kind in keys_read(ctx, m, _seen, sv=kw_.arg).items():
                        put(k, kind)
    return out


def _clone_ctor(ctx, f):
    """(constructed ClassInfo, call, clone variable) in a clone_from_state."""
    P = ctx.P
    for st in walk_shallow(f.node):
        if isinstance(st, ast.Assign) and isinstance(st.value, ast.Call) and isinstance(st.value.func, ast.Name):
            r = P.resolve_name(f.module, st.value.func.id, f.cls)
            if isinstance(r, ClassInfo) and isinstance(st.targets[0], ast.Name):
                return r, st.value, st.targets[0].id
    return None, None, None


def sync_after_draws(ctx, rep, clause="S7"):
    """ModelBasedSearcher._get_config_not_modelbased: the internal random searcher consumes entries of restrict_configurations while it
    draws; the copy kept by the model-based searcher (which get_state saves) is refreshed AFTER the draws, on every path that drew"""
    from .common import node_calls
    f = ctx.P.method("ModelBasedSearcher", "_get_config_not_modelbased")
    cfg = cfg_of(f)
    draws = [n.id for n in cfg.nodes if node_calls("get_config", "_random_searcher")(n, cfg)]
    sync = {n.id for n in cfg.nodes if n.kind == "stmt" and isinstance(n.ast, ast.Assign) and U(n.ast.targets[0]) == "self._restrict_configurations"
            and "_random_searcher" in U(n.ast.value)}
    if not draws or not sync:
        raise AnchorError("ModelBasedSearcher._get_config_not_modelbased: draws from the random searcher / refresh of restrict_configurations not found")
    from ..core.facts import edge_filter
    p_ = None
    for d in draws:
        p_ = p_ or cfg.path([s_ for s_, l_ in cfg.succ[d]], cfg.exit, deleted=sync, skip_labels=("exc",),
                            edge_ok=edge_filter(["self._restrict_configurations is not None"]))
    rep.put(p_ is None, clause, "must_follow", "ModelBasedSearcher._get_config_not_modelbased: restrict_configurations is refreshed after the random draws", f, None, "",
            "a draw from the internal random searcher is not followed by the refresh of self._restrict_configurations: the list saved by get_state lags one "
            "suggestion behind, a searcher restored from that state draws from a stale list and continues differently",
            witness=cfg.describe_path(p_) if p_ else None)


def searcher_classes(ctx):
    P = ctx.P
    base = P.cls(SEARCHER_BASE)
    return [c for c in P.all_subclasses(base, strict=False)]


# ----------------------------------------------------------------------------- S1
PROPERTY_SEARCHERS = ("RandomSearcher", "GridSearcher", "GPFIFOSearcher", "GPMultiFidelitySearcher")


def s1(ctx, rep, sweep=False):
    P = ctx.P
    n = 0
    for c in searcher_classes(ctx):
        f = c.methods.get("clone_from_state")
        if f is None or all(isinstance(s, (ast.Raise, ast.Expr, ast.Pass)) for s in f.node.body):
            continue
        judged = c.name in PROPERTY_SEARCHERS
        if not judged and not sweep:
            continue
        built, call, var = _clone_ctor(ctx, f)
        target = built or c
        try:
            W = keys_written(ctx, target)
            R = keys_read(ctx, f)
        except AnchorError as e:
            if judged:
                raise
            rep.info("S1", "agreement", f"{c.name}: state keys", f, None, f"not analysed: {e}")
            continue
        unread = sorted(k for k in W if R.get(k, "test") == "test")
        missing = sorted(k for k, kind in R.items() if kind == "hard" and (k not in W or W[k]))
        # a conditional write read under a guard the restore side re-evaluates on the same attribute is fine
        missing = [k for k in missing if not (k in W and all(("self." in repr(g)) for g in W[k]) and _restore_guarded(ctx, target, k, W[k]))]
        ok = not unread and not missing
        construct = f"{c.name}: get_state keys == keys read by clone_from_state/_restore_from_state"
        if judged:
            rep.put(ok, "S1", "agreement", construct, f, None, f"{sorted(W)}",
                    (f"written but never restored: {unread}. " if unread else "") +
                    (f"read unconditionally but not (always) written: {missing}" if missing else ""))
            n += 1
        else:
            rep.info("S1", "agreement", construct, f, None, "ok" if ok else f"unread={unread} missing={missing}")
    # ExclusionList and encode/decode
    ex = P.cls("ExclusionList")
    W = keys_written(ctx, ex)
    R = {k: v for k, v in keys_read(ctx, ex.methods["clone_from_state"]).items() if v != "test"}
    rep.put(set(W) == set(R), "S1", "agreement", "ExclusionList: get_state keys == clone_from_state keys", ex, None, str(sorted(W)),
            f"written {sorted(W)} vs read {sorted(R)}")
    enc = P.func("syne_tune.optimizer.schedulers.searchers.gp_searcher_utils.encode_state")
    dec = P.func("syne_tune.optimizer.schedulers.searchers.gp_searcher_utils.decode_state")
    wk = set()
    for r in returns_of(enc):
        v = r.value
        if isinstance(v, ast.Name):
            ds = [d for d in local_defs(enc, v.id) if not isinstance(d, tuple)]
            v = ds[0] if ds else v
        d = dict_items(v)
        if d:
            wk |= set(d)
    rk = {k for k, v in keys_read(ctx, dec).items() if v != "test"}
    rep.put(bool(wk) and wk == rk, "S1", "agreement", "encode_state keys == decode_state keys", enc, None, str(sorted(wk)),
            f"encode_state writes {sorted(wk)}, decode_state reads {sorted(rk)}")
    # a pending evaluation keeps its resource level in the snapshot: somewhere the key 'resource' is written with the entry's
    # resource level, at a place that is reached when the entry has one (a dict display in an arm of a conditional expression,
    # or `element['resource'] = x.resource` under an `if`)
    from .common import dom_guard
    ce = cfg_of(enc)
    res_sites = []

    def _res_walk(e, atoms):
        if isinstance(e, ast.IfExp):
            _res_walk(e.test, atoms)
            _res_walk(e.body, atoms | set(atoms_of(e.test, True)))
            _res_walk(e.orelse, atoms | set(atoms_of(e.test, False)))
            return
        if isinstance(e, ast.Dict):
            for k_, v_ in zip(e.keys, e.values):
                if isinstance(k_, ast.Constant) and k_.value == "resource":
                    res_sites.append((e, v_, atoms))
        for ch in ast.iter_child_nodes(e):
            if not isinstance(ch, (ast.FunctionDef, ast.AsyncFunctionDef, ast.Lambda, ast.ClassDef)):
                _res_walk(ch, atoms)
    for n in ce.nodes:
        roots = list(ce.node_exprs(n.id))
        if not roots:
            continue
        at0 = set(dom_guard(ctx, enc, n.id))
        if n.kind == "stmt" and isinstance(n.ast, ast.Assign) and isinstance(n.ast.targets[0], ast.Subscript) and \
                isinstance(n.ast.targets[0].slice, ast.Constant) and n.ast.targets[0].slice.value == "resource":
            res_sites.append((n.ast, n.ast.value, at0))
        for r_ in roots:
            _res_walk(r_, at0)
    reached = [s_ for s_ in res_sites if isinstance(s_[1], ast.Attribute) and s_[1].attr == "resource"
               and not any(a[0] == "is" and a[1].endswith(".resource") and a[2] == "None" and a[3] is True for a in s_[2])]
    rep.put(bool(reached), "S1", "agreement", "encode_state: a pending evaluation with a resource level is written with its 'resource'", enc,
            res_sites[0][0] if res_sites else None, "",
            "the resource level of pending evaluations is dropped from the snapshot: the restored multi-fidelity searcher fantasizes at the wrong levels")
    # each entry is a lossless image of the state field of the same name: the field itself, or an element-wise map over it
    # (no filter, no regrouping under a coarser key)
    from ..engine import deref
    sp = enc.params[0]
    for r in returns_of(enc):
        d = dict_items(deref(enc, r.value)) if r.value is not None else None
        for k_, v_ in (d or {}).items():
            v = deref(enc, v_)
            ok_ = U(v) == f"{sp}.{k_}"
            if isinstance(v, ast.ListComp) and len(v.generators) == 1 and not v.generators[0].ifs:
                ok_ = U(deref(enc, v.generators[0].iter)) == f"{sp}.{k_}"
            elif isinstance(v_, ast.Name) and not ok_:
                # a list filled by a loop: one unconditional append per element of the state field
                sites = inclusion_sites(ctx, enc, v_.id)
                ok_ = len(sites) == 1 and not sites[0][2] and len(sites[0][3]) == 1 and U(deref(enc, sites[0][3][0])) == f"{sp}.{k_}"
            rep.put(ok_, "S1", "agreement", f"encode_state: `{k_}` is written element by element from state.{k_}", enc, v_, "",
                    f"`{k_}` is built from `{U(v)[:80]}`, not from every element of {sp}.{k_}: entries are dropped or merged in the snapshot "
                    "(e.g. several pending evaluations of one trial at different resource levels collapse into one) and the restored "
                    "searcher continues from a different state")
    return n


def _restore_guarded(ctx, cls, key, guards):
    """Is the read of ``key`` in cls's _restore_from_state chain under the same guards as its write?"""
    P = ctx.P
    k = cls
    for kk in P.mro(cls):
        f = kk.methods.get("_restore_from_state")
        if f is None:
            continue
        ps = [p for p in f.params if p != "self"]
        for x in walk_shallow(f.node):
            if isinstance(x, ast.Subscript) and isinstance(x.value, ast.Name) and x.value.id == ps[0] and _key(ctx, f, x.slice) == key:
                g = _guards_of(x, f.node)
                if set(guards) <= set(g):
                    return True
    return False


# ----------------------------------------------------------------------------- S2
def _self_attrs_assigned(stmts):
    out = {}
    for st in stmts:
        for x in walk_shallow(st):
            if isinstance(x, ast.Assign):
                for t in x.targets:
                    if isinstance(t, ast.Attribute) and isinstance(t.value, ast.Name) and t.value.id == "self":
                        out[t.attr] = x
    return out


def s2(ctx, rep, sweep=False):
    P = ctx.P
    n = 0
    for c in searcher_classes(ctx):
        init = c.methods.get("__init__")
        rest = c.methods.get("_restore_from_state")
        if init is None or rest is None:
            continue
        for st in stmts_in(init.node.body):
            if isinstance(st, ast.If) and st.orelse:
                a = _self_attrs_assigned(st.body)
                b = _self_attrs_assigned(st.orelse)
                group = set(a) & set(b)
                if len(group) < 2:
                    continue
                restored = {t.attr for x in walk_shallow(rest.node) if isinstance(x, ast.Assign) for t in x.targets
                            if isinstance(t, ast.Attribute) and isinstance(t.value, ast.Name) and t.value.id == "self"}
                hit = group & restored
                if not hit:
                    continue
                n += 1
                miss = sorted(group - restored)
                rep.put(not miss, "S2", "co_restore", f"{c.name}._restore_from_state: co-initialised {sorted(group)} restored together",
                        rest, None, f"group initialised under `{U(st.test)}`",
                        f"__init__ initialises {sorted(group)} together under `{U(st.test)}`, but _restore_from_state re-assigns only "
                        f"{sorted(hit)}: after a restore {miss} keeps the value of the other arm (e.g. None) and the pair is inconsistent")
    return n


# ----------------------------------------------------------------------------- S3
def _methods_reached_from(ctx, cls, f, depth=3, seen=None):
    seen = seen if seen is not None else []
    if f in seen or depth < 0:
        return seen
    seen.append(f)
    for x in walk_shallow(f.node):
        if isinstance(x, ast.Call) and isinstance(x.func, ast.Attribute) and isinstance(x.func.value, ast.Name) \
                and x.func.value.id == "self":
            m = ctx.P.lookup_method(cls, x.func.attr)
            if m is not None:
                _methods_reached_from(ctx, cls, m, depth - 1, seen)
        if _super_call(x, "__init__"):
            m = ctx.P.lookup_method(f.defining_cls, "__init__", after=f.defining_cls)
            if m is not None:
                _methods_reached_from(ctx, cls, m, depth - 1, seen)
    return seen


def s3(ctx, rep, sweep=False):
    P = ctx.P
    n = 0
    for c in searcher_classes(ctx):
        f = c.methods.get("clone_from_state")
        init = P.lookup_method(c, "__init__")
        if f is None or init is None:
            continue
        if c.name not in PROPERTY_SEARCHERS and not sweep:
            continue
        built, call, var = _clone_ctor(ctx, f)
        if built is None:
            continue
        rnd_attrs = {}
        for m in _methods_reached_from(ctx, c, init):
            for x in walk_shallow(m.node):
                if isinstance(x, ast.Call) and isinstance(x.func, ast.Attribute) and U(x.func.value) == "self.random_state":
                    for a in x.args:
                        if isinstance(a, ast.Attribute) and isinstance(a.value, ast.Name) and a.value.id == "self" \
                                and x.func.attr in ("shuffle",):
                            rnd_attrs[a.attr] = (m, x)
                    par = getattr(x, "_parent", None)
                    while par is not None and not isinstance(par, ast.stmt):
                        par = getattr(par, "_parent", None)
                    if isinstance(par, ast.Assign):
                        for t in par.targets:
                            if isinstance(t, ast.Attribute) and isinstance(t.value, ast.Name) and t.value.id == "self":
                                rnd_attrs[t.attr] = (m, x)
        for attr, (m, x) in sorted(rnd_attrs.items()):
            n += 1
            W = keys_written(ctx, c)
            gs = P.lookup_method(c, "get_state")
            in_state = gs is not None and f"self.{attr}" in U(gs.node)
            seed_fwd = any(k.arg in ("random_seed",) for k in call.keywords) or any(k.arg is None and "random_seed" in U(k.value) for k in call.keywords)
            copied = any(isinstance(s, ast.Assign) and any(U(t) == f"{var}.{attr}" for t in s.targets) and f"self.{attr}" in U(s.value)
                         for s in walk_shallow(f.node))
            ok = in_state or seed_fwd or copied
            rep.put(ok, "S3", "ctor_randomness", f"{c.name}.clone_from_state: seed-derived {attr} preserved", f, call,
                    "in state" if in_state else ("seed forwarded" if seed_fwd else "copied to clone"),
                    f"`{attr}` is randomised at construction ({m.short}:{x.lineno}: {U(x)[:60]}) from the searcher's seed; the clone is "
                    f"constructed without that seed and `{attr}` is neither in the state nor copied: after a restore the clone "
                    "enumerates in a different order (repeats / skips configurations)")
    return n


# ----------------------------------------------------------------------------- S4
def param_attrs(ctx, cls, p, _depth=0):
    """attributes the constructor chain of cls derives from parameter p."""
    P = ctx.P
    init = P.lookup_method(cls, "__init__")
    out = set()
    if init is None or _depth > 6 or p not in init.params:
        return out
    for x in walk_shallow(init.node):
        if isinstance(x, ast.Assign):
            if any(isinstance(nm, ast.Name) and nm.id == p for nm in ast.walk(x.value)):
                for t in x.targets:
                    if isinstance(t, ast.Attribute) and isinstance(t.value, ast.Name) and t.value.id == "self":
                        out.add(t.attr)
        if _super_call(x, "__init__"):
            nxt = P.lookup_method(init.defining_cls, "__init__", after=init.defining_cls)
            if nxt is None:
                continue
            sp = [q for q in nxt.params if q != "self"]
            for i, a in enumerate(x.args):
                if isinstance(a, ast.Name) and a.id == p and i < len(sp):
                    out |= param_attrs(ctx, nxt.defining_cls, sp[i], _depth + 1)
            for kw_ in x.keywords:
                if kw_.arg and any(isinstance(nm, ast.Name) and nm.id == p for nm in ast.walk(kw_.value)):
                    out |= param_attrs(ctx, nxt.defining_cls, kw_.arg, _depth + 1)
    return out


def restored_attrs(ctx, cls):
    P = ctx.P
    out = set()
    for k in P.mro(cls):
        f = k.methods.get("_restore_from_state")
        if f is None:
            continue
        for x in walk_shallow(f.node):
            if isinstance(x, ast.Assign):
                for t in x.targets:
                    if isinstance(t, ast.Attribute) and isinstance(t.value, ast.Name) and t.value.id == "self":
                        out.add(t.attr)
            if isinstance(x, ast.Call) and isinstance(x.func, ast.Attribute) and x.func.attr in ("set_state", "set_params") \
                    and isinstance(x.func.value, ast.Attribute) and U(x.func.value.value) == "self":
                out.add(x.func.value.attr)
    return out


def may_be_none(ctx, cls, attr):
    """Does some constructor path store the literal None (or a param defaulting to None, unguarded) into self.attr?"""
    P = ctx.P
    for k in P.mro(cls):
        init = k.methods.get("__init__")
        if init is None:
            continue
        for x in walk_shallow(init.node):
            if isinstance(x, ast.Assign) and any(U(t) == f"self.{attr}" for t in x.targets):
                if isinstance(x.value, ast.Constant) and x.value.value is None:
                    return x
    return None


def ctor_fails_on_none(ctx, cls, p):
    """Walk cls.__init__'s top-level if-tree with parameter p == None; return the assert that definitely fails."""
    init = ctx.P.lookup_method(cls, "__init__")
    if init is None:
        return None

    def ev(e):
        if isinstance(e, ast.Call) and isinstance(e.func, ast.Name) and e.func.id == "isinstance" and U(argn(e, 0)) == p:
            return "NoneType" in U(argn(e, 1)) or U(argn(e, 1)) == "object"
        if isinstance(e, ast.Compare) and len(e.ops) == 1 and U(e.left) == p and U(e.comparators[0]) == "None":
            return isinstance(e.ops[0], ast.Is) if isinstance(e.ops[0], (ast.Is, ast.IsNot)) else None
        if isinstance(e, ast.Name) and e.id == p:
            return False
        if isinstance(e, ast.UnaryOp) and isinstance(e.op, ast.Not):
            v = ev(e.operand)
            return None if v is None else not v
        if isinstance(e, ast.BoolOp):
            vs = [ev(v) for v in e.values]
            if isinstance(e.op, ast.And):
                return False if any(v is False for v in vs) else (True if all(v is True for v in vs) else None)
            return True if any(v is True for v in vs) else (False if all(v is False for v in vs) else None)
        return None

    def walk(stmts):
        for st in stmts:
            if isinstance(st, ast.Assign) and any(isinstance(t, ast.Name) and t.id == p for t in st.targets):
                return "rebound"
            if isinstance(st, ast.Assert):
                if ev(st.test) is False:
                    return st
            if isinstance(st, ast.If):
                v = ev(st.test)
                if v is True:
                    r = walk(st.body)
                elif v is False:
                    r = walk(st.orelse)
                else:
                    r = None
                if r is not None:
                    return r
        return None
    r = walk(init.node.body)
    return r if isinstance(r, ast.Assert) else None


def s4(ctx, rep, sweep=False):
    P = ctx.P
    n = 0
    for c in searcher_classes(ctx):
        f = c.methods.get("clone_from_state")
        if f is None:
            continue
        if c.name not in PROPERTY_SEARCHERS and not sweep:
            continue
        built, call, var = _clone_ctor(ctx, f)
        if built is None:
            if c.name in PROPERTY_SEARCHERS:
                raise AnchorError(f"{c.name}.clone_from_state: reconstruction call not found")
            continue
        init = P.lookup_method(built, "__init__")
        explicit = [p for p in init.params if p != "self" and p != (init.node.args.kwarg.arg if init.node.args.kwarg else None)]
        passed = {k.arg for k in call.keywords if k.arg}
        pos = [p for p in explicit]
        for i, a in enumerate(call.args):
            if i < len(pos):
                passed.add(pos[i])
        star = [k for k in call.keywords if k.arg is None]
        star_src = set()
        for k in star:
            # **self._helper(): keys of the dict the helper returns
            if isinstance(k.value, ast.Call) and isinstance(k.value.func, ast.Attribute) and U(k.value.func.value) == "self":
                h = P.lookup_method(c, k.value.func.attr)
                if h is not None:
                    for r in returns_of(h):
                        d = dict_items(r.value) if r.value is not None else None
                        if d is None and isinstance(r.value, ast.Name):
                            ds = [x for x in local_defs(h, r.value.id) if not isinstance(x, tuple)]
                            d = dict_items(ds[0]) if ds else None
                        if d:
                            star_src |= set(d)
                    star_src.add("*")
        post = {t.attr for s in walk_shallow(f.node) if isinstance(s, ast.Assign) for t in s.targets
                if isinstance(t, ast.Attribute) and isinstance(t.value, ast.Name) and t.value.id == var}
        rest = restored_attrs(ctx, built)
        for p in explicit:
            if init.param_default(p) is None and p not in passed and not star:
                rep.bad("S4", "ctor_coverage", f"{c.name}.clone_from_state passes required `{p}`", f, call, "required parameter missing")
                continue
            attrs = param_attrs(ctx, built, p)
            construct = f"{c.name}.clone_from_state: constructor parameter `{p}` carried to the clone"
            if p in passed or p in star_src:
                rep.ok("S4", "ctor_coverage", construct, f, call, "passed")
                n += 1
                continue
            if "*" in star_src:
                rep.info("S4", "ctor_coverage", construct, f, call, "possibly passed through ** expansion (not decided)")
                continue
            if attrs and attrs <= (rest | post):
                rep.ok("S4", "ctor_coverage", construct, f, call, f"{sorted(attrs)} re-assigned by the restore path")
                n += 1
                continue
            if not attrs:
                rep.ok("S4", "ctor_coverage", construct, f, call, "sets no attribute")
                n += 1
                continue
            n += 1
            rep.bad("S4", "ctor_coverage", construct, f, call,
                    f"`{p}` (default {U(init.param_default(p)) if init.param_default(p) is not None else '-'}) determines "
                    f"{sorted(attrs - rest - post)}, is not passed to {built.name}(...) and is not re-assigned afterwards: the clone "
                    "silently falls back to the default")
        # nullness of arguments
        for k in call.keywords:
            if k.arg and isinstance(k.value, ast.Attribute) and isinstance(k.value.value, ast.Name) and k.value.value.id == "self":
                src = may_be_none(ctx, c, k.value.attr)
                if src is None:
                    continue
                fail = ctor_fails_on_none(ctx, built, k.arg)
                n += 1
                rep.put(fail is None, "S4", "nullness", f"{c.name}.clone_from_state: argument {k.arg}=self.{k.value.attr} acceptable when None",
                        f, k.value, "constructor accepts None",
                        f"self.{k.value.attr} is None on a constructor path (line {src.lineno}); passed as `{k.arg}`, "
                        f"{built.name}.__init__ reaches `{U(fail)[:70] if fail is not None else ''}` which fails for None: "
                        "clone_from_state raises AssertionError")
    return n


# ----------------------------------------------------------------------------- S5
def s5(ctx, rep):
    P = ctx.P
    roots = ["Tuner", "TrialScheduler", "BaseSearcher", "TrialBackend", "TunerCallback", "TuningStatus"]
    fam = set()
    for r in roots:
        fam |= ctx.down(r)
    bad = []
    n = 0
    for c in fam:
        for m in c.methods.values():
            for x in walk_shallow(m.node):
                if isinstance(x, ast.Assign) and any(isinstance(t, ast.Attribute) and U(t.value) == "self" for t in x.targets):
                    n += 1
                    v = x.value
                    if isinstance(v, ast.GeneratorExp) or (isinstance(v, ast.Call) and isinstance(v.func, ast.Name) and v.func.id in ("open", "iter")):
                        bad.append((m, x))
    for m, x in bad:
        rep.bad("S5", "attr_scan", f"{m.short}: unpicklable attribute", m, x, f"`{U(x)[:80]}` stores a generator / open file: dill.dump(tuner) fails")
    rep.put(not bad, "S5", "attr_scan", "no generator / open file stored in an attribute reachable from the Tuner", None, None,
            f"{n} attribute stores in {len(fam)} classes scanned")
    f = P.method("Tuner", "save")
    ok = any(isinstance(x, ast.Call) and U(x.func) == "dill.dump" and x.args and U(argn(x, 0)) == "self" for x in walk_shallow(f.node))
    g = P.method("Tuner", "load")
    ok = ok and any(isinstance(x, ast.Call) and U(x.func) == "dill.load" for x in walk_shallow(g.node))
    rep.put(ok, "S5", "agreement", "Tuner.save / Tuner.load use dill.dump(self) / dill.load", f, None, "")


# ----------------------------------------------------------------------------- S6
def _templates(ctx, f, e):
    """key template of an expression used as a dict key: constant, '...{}'.format, f-string, prefix + name"""
    if isinstance(e, ast.Constant) and isinstance(e.value, str):
        return e.value
    if isinstance(e, ast.Call) and isinstance(e.func, ast.Attribute) and e.func.attr == "format" and \
            isinstance(e.func.value, ast.Constant):
        import re
        return re.sub(r"\{[^}]*\}", "{}", e.func.value.value)
    if isinstance(e, ast.JoinedStr):
        return "".join(v.value if isinstance(v, ast.Constant) else "{}" for v in e.values)
    if isinstance(e, ast.BinOp) and isinstance(e.op, ast.Add):
        a, b = _templates(ctx, f, e.left), _templates(ctx, f, e.right)
        return (a if a is not None else "{}") + (b if b is not None else "{}")
    s = const_str(ctx, f, e)
    return s


def _param_sides(ctx, c):
    """(written key templates, read key templates, self-delegates get, self-delegates set, loops get, loops set, unknown)"""
    g, s = c.methods["get_params"], c.methods["set_params"]
    wk, rk = set(), set()
    unknown = []

    def loop_sig(fn, meth):
        out = []
        hits = [x for x in walk_shallow(fn.node)
                if isinstance(x, ast.For) and any(isinstance(y, ast.Call) and isinstance(y.func, ast.Attribute) and y.func.attr == meth
                                                  for y in ast.walk(x))]
        for x in hits:
            if any(o is not x and any(y is x for y in ast.walk(o)) for o in hits):
                continue        # the loop over one component's own entries, inside the loop over the components
            # local names used in the iterable (prefs = [...]) are expanded, bound names numbered
            from ..engine import canon_text
            out.append(canon_text(fn, x.iter))
        return sorted(out)

    def is_prefix_key(e):
        return isinstance(e, ast.BinOp) and isinstance(e.op, ast.Add) and isinstance(e.left, ast.Name) and isinstance(e.right, ast.Name)

    for x in walk_shallow(g.node):
        if isinstance(x, ast.Dict):
            for k in x.keys:
                t = _templates(ctx, g, k) if k is not None else None
                (wk.add(t) if t is not None else unknown.append(U(k) if k is not None else "**"))
        if isinstance(x, ast.DictComp):
            if is_prefix_key(x.key):
                continue
            t = _templates(ctx, g, x.key)
            (wk.add(t) if t not in (None, "{}") else unknown.append(U(x.key)))
        if isinstance(x, ast.Call) and isinstance(x.func, ast.Name) and x.func.id == "dict":
            for kw_ in x.keywords:
                if kw_.arg:
                    wk.add(kw_.arg)
        if isinstance(x, ast.Assign):
            for tg in x.targets:
                if isinstance(tg, ast.Subscript) and isinstance(tg.value, ast.Name):
                    if is_prefix_key(tg.slice):
                        continue
                    t = _templates(ctx, g, tg.slice)
                    (wk.add(t) if t not in (None, "{}") else unknown.append(U(tg.slice)))
    sp = [p for p in s.params if p != "self"]
    for x in walk_shallow(s.node):
        if isinstance(x, ast.Subscript) and isinstance(x.value, ast.Name) and sp and x.value.id == sp[0] \
                and isinstance(x.ctx, ast.Load):
            t = _templates(ctx, s, x.slice)
            (rk.add(t) if t not in (None, "{}") else unknown.append(U(x.slice)))
        if isinstance(x, ast.Call) and isinstance(x.func, ast.Attribute) and x.func.attr == "get" and sp and \
                isinstance(x.func.value, ast.Name) and x.func.value.id == sp[0] and x.args:
            t = _templates(ctx, s, argn(x, 0))
            (rk.add(t) if t not in (None, "{}") else unknown.append(U(argn(x, 0))))

    def deleg(fn, meth):
        out = set()
        for x in walk_shallow(fn.node):
            if isinstance(x, ast.Call) and isinstance(x.func, ast.Attribute) and x.func.attr == meth:
                if _super_call(x, meth):
                    out.add("super()")
                elif isinstance(x.func.value, ast.Attribute) and U(x.func.value.value) == "self":
                    out.add(U(x.func.value))
        return out
    return wk, rk, deleg(g, "get_params"), deleg(s, "set_params"), loop_sig(g, "get_params"), loop_sig(s, "set_params"), unknown


def s6(ctx, rep):
    P = ctx.P
    n = 0
    for c in sorted(P.classes.values(), key=lambda c: c.qualname):
        if "gpautograd" not in c.module.name and "bayesopt.models" not in c.module.name:
            continue
        if "get_params" not in c.methods or "set_params" not in c.methods:
            continue
        g = c.methods["get_params"]
        wk, rk, dg, ds, lg, ls, unknown = _param_sides(ctx, c)
        construct = f"{c.short}: get_params keys == set_params keys"
        if unknown:
            rep.info("S6", "agreement", construct, g, None, f"keys computed dynamically {unknown[:3]}; not judged")
            continue
        if not (wk or rk or dg or ds or lg or ls):
            continue
        n += 1
        ok = wk == rk and dg == ds and lg == ls
        rep.put(ok, "S6", "agreement", construct, g, None,
                f"keys {sorted(wk)} delegates {sorted(dg)} component loops {len(lg)}",
                f"get_params writes {sorted(wk)} (delegating to {sorted(dg)}, loops {lg}), set_params reads {sorted(rk)} "
                f"(delegating to {sorted(ds)}, loops {ls}): a saved model parameter is not restored under the name it was saved with")
    return n


def s8(ctx, rep):
    """the generator state is saved and restored whole"""
    P = ctx.P
    n = 0
    for c in searcher_classes(ctx):
        g = c.methods.get("get_state")
        if g is None:
            continue
        for x in walk_shallow(g.node):
            if isinstance(x, ast.Call) and fn_name(x) == "get_state" and isinstance(x.func.value, ast.Attribute) and "random_state" in x.func.value.attr:
                n += 1
                par = getattr(x, "_parent", None)
                truncated = isinstance(par, ast.Subscript) and par.value is x
                if isinstance(par, ast.Assign) and isinstance(par.targets[0], ast.Tuple) and len(par.targets[0].elts) < 5:
                    truncated = True
                rep.put(not truncated, "S8", "agreement", f"{c.name}.get_state saves the whole generator state", g, x, "",
                        f"`{U(par)[:80]}` keeps only part of RandomState.get_state() (the cached Gaussian of the Box-Muller pair is dropped): "
                        "a searcher restored after an odd number of normal draws continues with a different stream")
        r = c.methods.get("_restore_from_state")
        if r is None:
            continue
        for x in walk_shallow(r.node):
            if isinstance(x, ast.Call) and fn_name(x) == "set_state" and isinstance(x.func.value, ast.Attribute) and "random_state" in x.func.value.attr:
                n += 1
                a = argn(x, 0) if x.args else None
                ok = isinstance(a, ast.Subscript) and isinstance(a.value, ast.Name) and a.value.id in r.params
                if isinstance(a, ast.Name):
                    ds = [d for d in local_defs(r, a.id) if not isinstance(d, tuple)]
                    ok = len(ds) == 1 and isinstance(ds[0], ast.Subscript) and isinstance(ds[0].value, ast.Name) and ds[0].value.id in r.params
                rep.put(ok, "S8", "agreement", f"{c.name}._restore_from_state passes the saved generator state on unchanged", r, x, "",
                        f"`{U(x)[:80]}` rebuilds the generator state from parts of what was saved")
    return n


def restore_unconditional(ctx, rep, clause="S2"):
    """a saved value is put back whatever it is: in the restore methods no store of a value taken from the state is guarded by the
    truth of that value - an empty list, 0 or '' that was saved must overwrite what the fresh object was constructed with"""
    from ..engine import deref
    from .common import dom_guard
    P = ctx.P
    n = 0
    for c in sorted(searcher_classes(ctx), key=lambda c_: c_.name):
        for mname in ("_restore_from_state", "clone_from_state"):
            m = c.methods.get(mname)
            if m is None:
                continue
            ps = [p_ for p_ in m.params if p_ != "self"]
            if not ps:
                continue
            sv = ps[0]
            cm = cfg_of(m)

            def from_state(e, depth=2):
                e = deref(m, e)
                if depth > 0 and any(isinstance(y, ast.Name) and y.id not in (sv, "self") and from_state(y, depth - 1) for y in ast.walk(e) if y is not e):
                    return True
                return any((isinstance(y, ast.Subscript) and isinstance(y.value, ast.Name) and y.value.id == sv) or
                           (isinstance(y, ast.Call) and fn_name(y) == "get" and isinstance(y.func, ast.Attribute) and isinstance(y.func.value, ast.Name) and y.func.value.id == sv)
                           for y in ast.walk(e))
            for nd in cm.nodes:
                if not (nd.kind == "stmt" and isinstance(nd.ast, ast.Assign) and any(isinstance(t, ast.Attribute) and isinstance(t.value, ast.Name) and t.value.id == "self"
                                                                                       for t in nd.ast.targets) and from_state(nd.ast.value)):
                    continue
                n += 1
                srcs = {U(y) for y in ast.walk(nd.ast.value) if isinstance(y, ast.Name)} | {U(deref(m, y)) for y in ast.walk(nd.ast.value) if isinstance(y, ast.Name)}
                srcs |= {U(y) for y in ast.walk(deref(m, nd.ast.value)) if isinstance(y, (ast.Subscript, ast.Call))}
                bad = [a for a in dom_guard(ctx, m, nd.id) if a[0] == "truth" and a[1] in srcs and a[2] is True]
                # ... nor replaced by a default when it is falsy: `<saved value> or <default>` (and the conditional-expression form of it)
                v_ = deref(m, nd.ast.value)
                if isinstance(v_, ast.BoolOp) and isinstance(v_.op, ast.Or) and from_state(v_.values[0], 0):
                    bad.append(("truth", U(v_.values[0]), True))
                if isinstance(v_, ast.IfExp) and from_state(v_.test, 0) and not isinstance(v_.test, ast.Compare):
                    bad.append(("truth", U(v_.test), True))
                rep.put(not bad, clause, "guarded_by", f"{c.name}.{mname}: `{U(nd.ast.targets[0])}` is restored whatever the saved value is", m, nd.ast, "",
                        f"the store is guarded by the truth of the saved value ({[a[1] for a in bad]}): a saved empty list / 0 does not overwrite what the fresh "
                        "object was constructed with - e.g. the exhausted queue of initial configurations comes back filled with the default one")
    if n < 4:
        raise AnchorError(f"restore methods: only {n} stores of saved values found")


def run(ctx, rep, tier="quick"):
    sweep = tier == "thorough"
    s1(ctx, rep, sweep)
    s2(ctx, rep, sweep)
    restore_unconditional(ctx, rep)
    s3(ctx, rep, sweep)
    s4(ctx, rep, sweep)
    s5(ctx, rep)
    s6(ctx, rep)
    s7(ctx, rep, sweep)
    s8(ctx, rep)
    sync_after_draws(ctx, rep)


# ----------------------------------------------------------------------------- S7 state coverage
TRANSIENT = {
    # attribute -> reason it need not be part of the state (confirmed by reading)
    "_rc_returned_pos": "scratch set filled and emptied again inside one get_config call; re-created empty by _restore_from_state",
    "_random_searcher": "internal helper re-created on demand; shares random_state (which is in the state)",
    "random_state": "restored through set_state(state['random_state'])",
    "state_transformer": "rebuilt by clone_from_state from state['state'] / state['model_params'] / state['skip_optimization']",
    "_debug_log": "logging only",
    "debug_log": "logging only",
    "cumulative_get_config_time": "profiling counter, never read by a decision",
    "cumulative_profile_record": "profiling only",
    "_excl_list": None,  # NOT transient: listed to document that it must be covered by the state
}


def _mutations(ctx, cls, skip=("__init__", "_restore_from_state", "clone_from_state", "get_state", "_create_internal",
                               "configure_scheduler", "set_random_state", "_call_create_internal", "set_params")):
    """{attr: [(method, node, facts)]} for self.<attr> mutated (container mutator call, subscript store, re-assignment)
    in methods of cls's MRO other than construction/restore."""
    from ..core.facts import MUTATORS
    P = ctx.P
    out = {}
    seen = set()
    for k in P.mro(cls):
        for name, m in k.methods.items():
            if name in skip or name in seen:
                continue
            seen.add(name)
            cfg = cfg_of(m)
            for n in cfg.nodes:
                hits = []
                if n.kind == "stmt" and isinstance(n.ast, (ast.Assign, ast.AugAssign, ast.Delete)):
                    tg = n.ast.targets if isinstance(n.ast, (ast.Assign, ast.Delete)) else [n.ast.target]
                    for t in tg:
                        b = t
                        while isinstance(b, ast.Subscript):
                            b = b.value
                        if isinstance(b, ast.Attribute) and isinstance(b.value, ast.Name) and b.value.id == "self":
                            hits.append(b.attr)
                for x in cfg.node_walk(n.id):
                    if isinstance(x, ast.Call) and isinstance(x.func, ast.Attribute) and x.func.attr in MUTATORS:
                        b = x.func.value
                        while isinstance(b, ast.Subscript):
                            b = b.value
                        if isinstance(b, ast.Attribute) and isinstance(b.value, ast.Name) and b.value.id == "self":
                            hits.append(b.attr)
                for a in hits:
                    out.setdefault(a, []).append((m, n, ctx.facts(m).at(n.id)))
    return out


def _state_sources(ctx, cls):
    """{attr: guards} for attributes whose value get_state (super chain) writes."""
    P = ctx.P
    out = {}
    for k in P.mro(cls):
        f = k.methods.get("get_state")
        if f is None:
            continue
        for x in walk_shallow(f.node):
            if isinstance(x, ast.Attribute) and isinstance(x.value, ast.Name) and x.value.id == "self" and isinstance(x.ctx, ast.Load):
                st = x
                while st is not None and not isinstance(st, ast.stmt):
                    st = getattr(st, "_parent", None)
                if isinstance(st, ast.If) or st is None:
                    continue  # appears in a guard, not in a written value
                if isinstance(getattr(x, "_parent", None), ast.Call) and getattr(x, "_parent").func is x:
                    continue  # method call on self
                g = _guards_of(st, f.node)
                if x.attr not in out or not g:
                    out[x.attr] = g
    return out


def s7(ctx, rep, sweep=False):
    from ..core.facts import atoms_of, parse_cond
    P = ctx.P
    n = 0
    for cname in PROPERTY_SEARCHERS:
        c = P.cls(cname)
        init_attrs = set()
        for k in P.mro(c):
            i = k.methods.get("__init__")
            if i is None:
                continue
            for m in _methods_reached_from(ctx, c, i, depth=2):
                for x in walk_shallow(m.node):
                    if isinstance(x, ast.Assign):
                        for t in x.targets:
                            if isinstance(t, ast.Attribute) and isinstance(t.value, ast.Name) and t.value.id == "self":
                                init_attrs.add(t.attr)
        muts = _mutations(ctx, c)
        # methods only ever called while constructing are construction helpers, not decision methods
        ctor_only = set()
        for k in P.mro(c):
            i = k.methods.get("__init__")
            if i is not None:
                for m in _methods_reached_from(ctx, c, i, depth=3):
                    ctor_only.add(m)
        called_elsewhere = set()
        for k in P.mro(c):
            for g_ in k.methods.values():
                if g_ in ctor_only:
                    continue
                for x in walk_shallow(g_.node):
                    if isinstance(x, ast.Call) and isinstance(x.func, ast.Attribute) and U(x.func.value) == "self":
                        called_elsewhere.add(x.func.attr)
        for a_ in list(muts):
            muts[a_] = [(m, nd, fa) for m, nd, fa in muts[a_] if not (m in ctor_only and m.name not in called_elsewhere)]
            if not muts[a_]:
                del muts[a_]
        srcs = _state_sources(ctx, c)
        for attr in sorted(set(muts) & init_attrs):
            if TRANSIENT.get(attr):
                continue
            n += 1
            construct = f"{cname}: mutable attribute `{attr}` is covered by get_state"
            if attr not in srcs:
                rep.bad("S7", "state_coverage", construct, c, None,
                        f"`{attr}` is initialised by the constructor, mutated by {sorted({m.short for m, _, _ in muts[attr]})[:3]}, "
                        "but get_state does not write it and it is not in the table of transients: a restored searcher continues "
                        "with the freshly constructed value")
                continue
            guards = srcs[attr]
            if not guards:
                rep.ok("S7", "state_coverage", construct, c, None, "written unconditionally")
                continue
            need = set(guards)
            bad = []
            for m, nd, facts in muts[attr]:
                if all(a in facts for a in need):
                    continue
                # guard established by every caller (self-call sites within the class hierarchy)
                callers = []
                for k in P.mro(c):
                    for g_ in k.methods.values():
                        for nid_, call_ in ctx.calls_in(g_, selfcall=m.name):
                            callers.append((g_, nid_))
                if callers and all(all(a in ctx.facts(g_).at(nid_) for a in need) for g_, nid_ in callers):
                    continue
                bad.append((m, nd))
            rep.put(not bad, "S7", "state_coverage", construct, c, None, f"written under {guards}; every mutation site implies it",
                    f"get_state writes `{attr}` only under {guards}, but {bad[0][0].short if bad else ''} (line "
                    f"{bad[0][1].lineno if bad else 0}) mutates it when that condition need not hold: what was recorded there "
                    "(e.g. the configurations of failed trials) is lost on restore")
    return n
