"""C20 - a checkpoint exists whenever a trial is resumed or warm-started from it."""
import ast

from ..core.model import AnchorError, FuncInfo
from ..core.cfg import walk_shallow, cfg_of
from ..core.facts import U, atoms_of
from ..engine import argn, fn_name, kwarg, local_defs, returns_of, stmts_in, vars_assigned_from
from . import common, c01

EXPLANATION = (
    "Decides structural clauses of C20: S1 who may call delete_checkpoint (stop_trial and stop_all under the "
    "delete_checkpoints flag, the removal callback on ids the scheduler released, the explicitly requested speculative "
    "removal) - no other caller; S2 no pause path (pause_trial, any backend's _pause_trial / _cleanup_after_trial) can reach "
    "delete_checkpoint in the call graph; S3 in every start_trial implementation the source checkpoint is copied before the "
    "job is scheduled whenever a source is given; S4 the removal callback deletes exactly what "
    "trials_checkpoints_can_be_removed() returned, and the synchronous scheduler only ever lists the not-promoted trials of "
    "a completed rung and hands each list out once; S5 stale hand-off: a warm-start source chosen under 'not stopped' and "
    "parked in a queue is re-validated when used, or purged whenever a trial becomes stopped; S6 resume targets are paused "
    "trials (shared with C01-S3), and the synchronous schedulers PAUSE every trial their promotion path may resume: the guard "
    "of DEHB's PAUSE decision contains no condition the resume path in _suggest does not test, synchronous Hyperband pauses "
    "every trial that reaches its milestone. S5 also: PBT marks a trial as stopped before every STOP decision it returns (what the clone-source filter relies on). NOT decided: the speculative early-removal scoring.")

FLOOR = {"S1": 4, "S2": 3, "S3": 2, "S4": 4, "S5": 2, "S6": 3, "S7": 3}


def s1(ctx, rep):
    P = ctx.P
    sites = ctx.all_calls_anywhere(method="delete_checkpoint", recv="TrialBackend", allow_name=True)
    allowed = {
        "TrialBackend.stop_trial": "flag",
        "TrialBackend.stop_all": "flag",
        "RemoveCheckpointsCallback.on_loop_end": "released",
        "HyperbandRemoveCheckpointsCommon._remove_checkpoint_of": "speculative",
    }
    for f, call in sites:
        top = f
        while top.parent is not None:
            top = top.parent
        if top.name == "delete_checkpoint":
            continue  # an override delegating to its base
        kind = allowed.get(top.short)
        if kind is None:
            rep.bad("S1", "who_may_call", f"delete_checkpoint called from {top.short}", f, call,
                    f"{top.short} deletes a checkpoint; only stop_trial/stop_all (under delete_checkpoints), the removal callback and "
                    "the explicitly requested speculative removal may: a paused trial (or a PBT source) can lose the checkpoint "
                    "it is later resumed from")
            continue
        ok = True
        detail = kind
        if kind == "flag":
            cfg = cfg_of(top)
            nid = [n.id for n in cfg.nodes if any(x is call for x in cfg.node_walk(n.id))][0]
            ok = ctx.has_fact(top, nid, lambda a: a[0] == "truth" and a[1] == "self.delete_checkpoints" and a[2] is True)
            detail = "guarded by self.delete_checkpoints"
        rep.put(ok, "S1", "who_may_call", f"delete_checkpoint in {top.short}", f, call, detail,
                "deletion in stop_trial/stop_all is not guarded by the delete_checkpoints flag")
    # in stop_trial the deletion comes after the trial was stopped
    f = P.method("TrialBackend", "stop_trial")
    cfg = cfg_of(f)
    st = ctx.nodes(f, ctx.sel_call(selfcall="_stop_trial"), "must", 0)
    dl = ctx.nodes(f, ctx.sel_call(selfcall="delete_checkpoint"), "may", 0)
    ok = bool(st) and bool(dl) and all(cfg.path(cfg.entry, d, deleted=st) is None for d in dl)
    rep.put(ok, "S1", "must_precede", "TrialBackend.stop_trial: _stop_trial ≺ delete_checkpoint", f, None, "")


def s2(ctx, rep):
    P = ctx.P
    tb = P.cls("TrialBackend")
    roots = [tb.methods["pause_trial"]]
    for c in P.all_subclasses(tb, strict=False):
        for m in ("_pause_trial", "_cleanup_after_trial", "pause_trial", "_resume_trial", "resume_trial"):
            if m in c.methods and c.methods[m] not in roots:
                roots.append(c.methods[m])
    n = 0
    for r in roots:
        chain = common.reaches(ctx, r, lambda f, c, tg: fn_name(c) == "delete_checkpoint", depth=6, typed_only=False)
        n += 1
        rep.put(chain is None, "S2", "never_reach", f"{r.short} never reaches delete_checkpoint", r, None, "",
                "pause/resume path reaches delete_checkpoint: " + " → ".join(chain or []) +
                ": a paused trial loses the checkpoint it will be resumed from")
    # the checkpoint directory itself is not removed by other means on the pause path (rmtree)
    for r in roots:
        chain = common.reaches(ctx, r, lambda f, c, tg: fn_name(c) in ("rmtree", "unlink", "remove") and "checkpoint" in ast.unparse(c),
                               depth=4, typed_only=False)
        if chain is not None:
            rep.bad("S2", "never_reach", f"{r.short} removes checkpoint files", r, None, " → ".join(chain))
    return n


def s3(ctx, rep):
    P = ctx.P
    tb = P.cls("TrialBackend")
    for c in P.all_subclasses(tb, strict=False):
        f = c.methods.get("start_trial")
        if f is None:
            continue
        cfg = cfg_of(f)
        sup = any(isinstance(x, ast.Call) and fn_name(x) == "start_trial" and isinstance(x.func.value, ast.Call)
                  and fn_name(x.func.value) == "super" for x in walk_shallow(f.node))
        cp = ctx.nodes(f, ctx.sel_call(selfcall="copy_checkpoint"), "must", 0)
        sch = ctx.nodes(f, ctx.sel_call(selfcall="_schedule"), "may", 0)
        if sup and not sch:
            rep.ok("S3", "must_precede", f"{f.short}: delegates to super().start_trial", f, None, "")
            continue
        src = [p for p in f.params if "checkpoint" in p]
        if not src or not sch:
            raise AnchorError(f"{f.short}: checkpoint source parameter / _schedule not found")
        _, viol = ctx.must_precede(f, None, None, a_nodes=cp, b_nodes=sch, assume=[f"{src[0]} is not None"])
        ok = bool(cp) and not viol
        if ok:
            call = ctx.calls_in(f, selfcall="copy_checkpoint")[0][1]
            s_ = kwarg(call, "src_trial_id", 0)
            t_ = kwarg(call, "tgt_trial_id", 1)
            ok = s_ is not None and U(s_) == src[0] and t_ is not None and any(
                isinstance(d, ast.Call) and fn_name(d) == "new_trial_id" for d in local_defs(f, U(t_)) if not isinstance(d, tuple))
        rep.put(ok, "S3", "must_precede", f"{f.short}: copy_checkpoint(src → new id) ≺ _schedule when a source is given", f, None, "",
                "a trial that is to be warm-started can be scheduled before (or without) its source checkpoint being copied",
                witness=viol[0][1] if viol else None)


def s4(ctx, rep):
    P = ctx.P
    f = P.method("RemoveCheckpointsCallback", "on_loop_end")
    loops = [s for s in walk_shallow(f.node) if isinstance(s, ast.For)]
    ok = len(loops) == 1 and isinstance(loops[0].iter, ast.Call) and fn_name(loops[0].iter) == "trials_checkpoints_can_be_removed"
    if ok:
        tv = U(loops[0].target)
        dels = [x for x in walk_shallow(loops[0]) if isinstance(x, ast.Call) and fn_name(x) == "delete_checkpoint"]
        ok = len(dels) == 1 and U(argn(dels[0], 0)) == tv
    rep.put(ok, "S4", "taint", "RemoveCheckpointsCallback.on_loop_end deletes exactly the ids the scheduler released", f, None, "")
    c = P.cls("SynchronousHyperbandScheduler")
    attr = "_trials_checkpoints_can_be_removed"
    ws = [(g, n, k) for g, n, k in ctx.writers(attr) if g.cls in ctx.down("SynchronousHyperbandCommon") or g.cls is c]
    names = sorted({g.name for g, n, k in ws})
    ok = set(names) <= {"__init__", "_create_internal", "_on_result", "trials_checkpoints_can_be_removed"} and "_on_result" in names
    rep.put(ok, "S4", "who_may_write", f"SynchronousHyperbandScheduler.{attr} writers", c, None, str(names))
    g = c.methods["_on_result"]
    ext = [x for x in walk_shallow(g.node) if isinstance(x, ast.Call) and fn_name(x) == "extend" and attr in U(x.func.value)]
    ok = len(ext) == 1
    if ok:
        v = U(argn(ext[0], 0))
        ds = [d for d in local_defs(g, v) if not isinstance(d, tuple)]
        ok = len(ds) == 1 and isinstance(ds[0], ast.Call) and fn_name(ds[0]) == "on_result" and "bracket_manager" in U(ds[0].func)
    rep.put(ok, "S4", "taint", "SynchronousHyperbandScheduler._on_result lists only what bracket_manager.on_result returned", g, None, "")
    h = c.methods["trials_checkpoints_can_be_removed"]
    cfg = cfg_of(h)
    rs = {n.id for n in cfg.nodes if n.kind == "stmt" and isinstance(n.ast, ast.Assign) and attr in U(n.ast.targets[0])
          and isinstance(n.ast.value, ast.List) and not n.ast.value.elts}
    p = cfg.path(cfg.entry, cfg.exit, deleted=rs, skip_labels=("exc",))
    rep.put(bool(rs) and p is None, "S4", "must_follow", "SynchronousHyperbandScheduler.trials_checkpoints_can_be_removed empties the list when read",
            h, None, "each id is handed out once")
    # the bracket returns only the not-promoted ids of the completed rung
    b = P.method("SynchronousHyperbandBracket", "_promote_trials_at_rung_complete")
    rv = [U(r.value) for r in returns_of(b)]
    ds = [d for d in local_defs(b, rv[0])] if len(rv) == 1 else []
    ok = len(ds) == 1 and isinstance(ds[0], tuple) and ds[0][0] == "unpack" and fn_name(ds[0][1]) == "get_top_list" and ds[0][2] == 1
    rep.put(ok, "S4", "taint", "SynchronousHyperbandBracket._promote_trials_at_rung_complete returns get_top_list's remaining list", b, None, "")
    t = P.func("syne_tune.optimizer.schedulers.synchronous.hyperband_bracket.get_top_list")
    gtl_partition(ctx, rep, t, "S4")
    ob = P.method("SynchronousBracket", "on_result")
    cfgb = cfg_of(ob)
    pr = ctx.nodes(ob, ctx.sel_call(selfcall="_promote_trials_at_rung_complete"), "may", 0)
    from .common import dom_guard

    from .c05 import rung_complete

    def _complete(at):
        return all(rung_complete(at))
    ok = bool(pr) and all(_complete(set(dom_guard(ctx, ob, n)) | set(ctx.facts(ob).at(n))) for n in pr)
    rep.put(ok, "S4", "guarded_by", "SynchronousBracket.on_result: promotion (and release of checkpoints) only when the rung is complete", ob, None, "")


def gtl_partition(ctx, rep, t, clause):
    """get_top_list returns (promoted, remaining): remaining must be exactly the rung entries that are not in the
    *returned* promoted list - the exclusion set must be derived from the final value of that list."""
    from ..core.facts import kills_and_gens
    cfg = cfg_of(t)
    rets = [r for r in returns_of(t) if isinstance(r.value, ast.Tuple) and len(r.value.elts) == 2]
    if len(rets) != 1:
        raise AnchorError("get_top_list: `return top_list, remaining_list` not found")
    top, rem = U(rets[0].value.elts[0]), U(rets[0].value.elts[1])
    use = None
    for n in cfg.nodes:
        if n.kind == "stmt" and isinstance(n.ast, ast.Assign) and U(n.ast.targets[0]) == rem and isinstance(n.ast.value, ast.ListComp):
            use = n
    ok = use is not None
    why = "remaining list is not a filter comprehension over the rung"
    if ok:
        comp = use.ast.value
        excl = None
        for c in comp.generators[0].ifs:
            for a in atoms_of(c, True):
                if a[0] == "in" and a[3] is False:
                    excl = a[2]
        ok = excl is not None and "rung" in U(comp.generators[0].iter) and "valid" not in U(comp.generators[0].iter)
        why = "remaining list does not exclude by membership over all rung entries"
        if ok and excl != top:
            # exclusion set derived from the promoted list: set(top_list) - and not stale
            dn = [n for n in cfg.nodes if n.kind == "stmt" and isinstance(n.ast, ast.Assign) and U(n.ast.targets[0]) == excl]
            ok = len(dn) == 1 and isinstance(dn[0].ast.value, ast.Call) and fn_name(dn[0].ast.value) in ("set", "frozenset") \
                and U(argn(dn[0].ast.value, 0)) == top
            why = f"exclusion set `{excl}` is not set({top})"
            if ok:
                fw = cfg.reachable([s_ for s_, l in cfg.succ[dn[0].id]])
                # ... up to the return: the promoted list that is RETURNED is the one the exclusion set was taken from
                retn = [n.id for n in cfg.nodes if n.kind == "stmt" and n.ast is rets[0]]
                bw = cfg.reachable(retn[0] if retn else use.id, forward=False)
                stale = [n for n in cfg.nodes if n.id in fw and n.id in bw and n.id != use.id and top in kills_and_gens(cfg, n.id)[0]]
                ok = not stale
                why = (f"`{excl} = set({top})` is computed before `{top}` is extended (line {stale[0].lineno if stale else 0}): trials "
                       "added to the promoted list afterwards are also listed as not promoted - their checkpoints are released "
                       "for deletion although they will be resumed")
    rep.put(ok, clause, "agreement", "get_top_list: remaining = rung entries not in the returned promoted list", t, use.ast if use else None,
            "", why)


def s5(ctx, rep):
    """stale hand-off through PBT's decision stack."""
    P = ctx.P
    c = P.cls("PopulationBasedTraining")
    queue, flag = "_trial_decisions_stack", "stopped"
    prod = c.methods["on_trial_result"]
    cons = c.methods["_suggest"]
    # the flag says what the filter takes it to say: whenever the scheduler answers STOP for a trial (the backend then deletes
    # its checkpoint), that trial's state has been marked before
    cp = cfg_of(prod)
    stops = [n.id for n in cp.nodes if n.kind == "stmt" and isinstance(n.ast, ast.Return) and n.ast.value is not None
             and U(n.ast.value).endswith("SchedulerDecision.STOP")]
    sts = vars_assigned_from(prod, lambda e: isinstance(e, ast.Subscript) and U(e.value).endswith("._trial_state"))
    marks = {n.id for n in cp.nodes if n.kind == "stmt" and isinstance(n.ast, ast.Assign) and isinstance(n.ast.value, ast.Constant)
             and n.ast.value.value is True and any(isinstance(t, ast.Attribute) and t.attr == flag and (U(t.value) in sts or "_trial_state[" in U(t.value))
                                                   for t in n.ast.targets)}
    if not stops:
        raise AnchorError("PBT.on_trial_result: no `return SchedulerDecision.STOP` found")
    for sid in stops:
        unmarked = cp.path([cp.entry], sid, deleted=marks, skip_labels=("exc",)) is not None
        rep.put(not unmarked, "S5", "must_precede", f"PopulationBasedTraining.on_trial_result: `{flag} = True` precedes every STOP decision", prod,
                cp.nodes[sid].ast, "", f"a path answers STOP without marking the trial as {flag}: the backend deletes the checkpoint of a stopped trial, "
                "but the trial keeps its score in _quantiles and can be drawn as the trial to clone the next one from")
    if any(i.status == "violation" and "precedes every STOP decision" in i.construct for i in rep.items):
        return      # the producer side is broken: the hand-off rules below presuppose it
    # producer: what is parked
    from ..engine import deref
    app = [x for x in walk_shallow(prod.node) if isinstance(x, ast.Call) and fn_name(x) in ("append", "appendleft") and queue in U(x.func.value)]
    parked = deref(prod, argn(app[0], 0)) if len(app) == 1 and argn(app[0], 0) is not None else None
    from ..engine import record_elts
    pelts = record_elts(parked) if parked is not None else None       # a pair, or a NamedTuple of the program with two fields
    if pelts is None or len(pelts) != 2:
        raise AnchorError("PBT.on_trial_result: parking of (source id, config) on the decision stack not recognised")
    src_var = U(pelts[0])
    # the source is selected among trials that are not stopped
    q = c.methods["_quantiles"]
    tests_ = [n.test for n in walk_shallow(q.node) if isinstance(n, ast.If)] + \
             [c_ for n in walk_shallow(q.node, include_lambda=True) if isinstance(n, (ast.ListComp, ast.SetComp, ast.GeneratorExp, ast.DictComp))
              for g_ in n.generators for c_ in g_.ifs]
    sel_ok = any(any(a[0] == "truth" and a[1].endswith("." + flag) and a[2] is False for a in atoms_of(t_, True)) for t_ in tests_)
    # every writer of the flag is a stop: the flag must be what _quantiles filters on
    writers = [x for m_ in c.methods.values() for x in walk_shallow(m_.node) if isinstance(x, ast.Assign)
               and any(isinstance(t, ast.Attribute) and t.attr == flag for t in x.targets)]
    rep.put(sel_ok, "S5", "guarded_by", "PopulationBasedTraining._quantiles selects clone sources among trials that are not stopped", q, None,
            f"filter `not state.{flag}`; {len(writers)} writer(s) of the flag",
            f"_quantiles does not exclude trials with `state.{flag}`: a trial stopped at max_t (its checkpoint is deleted with "
            "delete_checkpoints=True) keeps its score and is chosen as the trial to clone from")
    if not sel_ok:
        return
    # consumer: pop and use as checkpoint_trial_id
    pops = [x for x in walk_shallow(cons.node) if isinstance(x, ast.Call) and fn_name(x) in ("pop", "popleft") and queue in U(x.func.value)]
    if len(pops) != 1:
        raise AnchorError("PBT._suggest: pop from the decision stack not found")
    used = [x for x in walk_shallow(cons.node) if isinstance(x, ast.Call) and kwarg(x, "checkpoint_trial_id") is not None]
    if not used:
        raise AnchorError("PBT._suggest: checkpoint_trial_id use not found")
    idv = U(kwarg(used[0], "checkpoint_trial_id"))
    cfg = cfg_of(cons)
    un = [n.id for n in cfg.nodes if any(x is used[0] for x in cfg.node_walk(n.id))][0]
    retest = ctx.has_fact(cons, un, lambda a: a[0] == "truth" and a[2] is False and a[1].endswith("." + flag) and idv in a[1])
    # or: every site that sets <state>.stopped = True purges / rewrites the stack entries of that trial
    setters = []
    for m in c.methods.values():
        cm = cfg_of(m)
        for n in cm.nodes:
            if n.kind == "stmt" and isinstance(n.ast, ast.Assign) and U(n.ast.targets[0]).endswith("." + flag) \
                    and isinstance(n.ast.value, ast.Constant) and n.ast.value.value is True:
                setters.append((m, cm, n))
    purge_all = bool(setters)
    for m, cm, n in setters:
        pn = {x.id for x in cm.nodes if any(isinstance(y, ast.Call) and queue in U(y) and fn_name(y) in ("remove", "clear") for y in cm.node_walk(x.id))
              or (x.kind == "stmt" and isinstance(x.ast, ast.Assign) and queue in U(x.ast.targets[0]))}
        p = cm.path([s for s, l in cm.succ[n.id]], cm.exit, deleted=pn, skip_labels=("exc",))
        if p is not None:
            purge_all = False
    ok = retest or purge_all
    rep.put(ok, "S5", "stale_handoff", f"PopulationBasedTraining.{queue}: parked warm-start source re-validated against `{flag}`", cons,
            used[0], "re-tested at use" if retest else "purged whenever a trial is stopped",
            f"the source trial `{src_var}` is chosen among trials that are not {flag} and parked on {queue}; {len(setters)} site(s) later set "
            f"{flag} = True without touching the stack, and _suggest uses the parked id as checkpoint_trial_id without re-testing: a source "
            "that reaches max_t (or is itself replaced) in the same batch is stopped - with delete_checkpoints its checkpoint is "
            "removed - before the clone is started from it")


def _last(seg):
    """last segment of an access path:  ext_slot.bracket_id -> bracket_id (the resume path and the pause path hold the
    same slot in differently named variables)"""
    return seg.split(".")[-1] if isinstance(seg, str) else seg


def _norm_atom(a, roles=None):
    roles = roles or {}
    return tuple((roles.get(x) or _last(x)) if isinstance(x, str) else x for x in a)


def _expanded_dom_atoms(ctx, f, cfg, nid):
    """atoms of the branch conditions dominating nid, with `if <local flag>` expanded through the flag's one definition"""
    from .c01 import _dom_atoms
    from ..core.facts import atoms_of
    from ..engine import local_defs
    out = set()
    for a in _dom_atoms(cfg, nid):
        if a[0] == "truth" and a[1].isidentifier():
            ds = [d for d in local_defs(f, a[1]) if not isinstance(d, tuple)]
            if len(ds) == 1:
                out |= atoms_of(ds[0], a[2])
                continue
        out.add(a)
    return out


def s7(ctx, rep):
    """synchronous schedulers resume by promotion: a trial that `_suggest` may resume must have been PAUSEd (a STOP lets the
    backend delete its checkpoint).  The guard of the PAUSE decision may not be narrower than what the resume path tests."""
    P = ctx.P
    # DEHB: pause at a milestone iff pause/resume is supported and the slot is in the first bracket
    c = P.cls("DifferentialEvolutionHyperbandScheduler")
    f = c.methods["on_trial_result"]
    cfg = cfg_of(f)

    def decision_nodes(which):
        return [n.id for n in cfg.nodes if n.kind == "stmt" and isinstance(n.ast, ast.Assign) and U(n.ast.value) == "SchedulerDecision." + which]
    pa, st = decision_nodes("PAUSE"), decision_nodes("STOP")
    if len(pa) != 1 or not st:
        raise AnchorError("DEHB.on_trial_result: PAUSE / STOP decisions not found")
    common = None
    for n in pa + [x for x in st if _expanded_dom_atoms(ctx, f, cfg, x) & _expanded_dom_atoms(ctx, f, cfg, pa[0])]:
        at = _expanded_dom_atoms(ctx, f, cfg, n)
        common = at if common is None else (common & at)
    guard = {_norm_atom(a) for a in _expanded_dom_atoms(ctx, f, cfg, pa[0]) - (common or set())}
    g = c.methods["_suggest"]
    cg = cfg_of(g)
    res = [n.id for n in cg.nodes for x in cg.node_walk(n.id) if isinstance(x, ast.Call) and fn_name(x) == "_promote_trial_and_make_suggestion"]
    prom = [n.id for n in cg.nodes for x in cg.node_walk(n.id) if isinstance(x, ast.Call) and fn_name(x) == "_encoded_config_by_promotion"]
    if len(res) != 1 or len(prom) != 1:
        raise AnchorError("DEHB._suggest: resume (_promote_trial_and_make_suggestion) / promotion source not found")
    from ..engine import var_from_call, vars_assigned_from
    roles = {var_from_call(g, "next_job", 0): "bracket_id"}     # the local that holds the slot's bracket in _suggest
    consumer = {_norm_atom(a, roles) for a in _expanded_dom_atoms(ctx, g, cg, res[0]) | _expanded_dom_atoms(ctx, g, cg, prom[0])}
    extra = sorted(map(str, guard - consumer))
    rep.put(bool(guard) and not extra, "S6", "agreement",
            "DEHB.on_trial_result: PAUSE is decided under no more conditions than _suggest tests before it resumes a trial", f, cfg.nodes[pa[0]].ast,
            f"PAUSE | {sorted(map(str, guard))}; resume | {sorted(map(str, consumer))}",
            f"the PAUSE decision additionally requires {extra}, which the resume path in _suggest does not test: a first-bracket trial for "
            "which it is false is STOPped - the backend deletes its checkpoint - and is still resumed by promotion later")
    # synchronous Hyperband: every trial that reaches its milestone is paused (promotion resumes it); no STOP at a milestone
    h = P.method("SynchronousHyperbandScheduler", "on_trial_result")
    ch = cfg_of(h)
    pa2 = [n.id for n in ch.nodes if n.kind == "stmt" and isinstance(n.ast, ast.Assign) and U(n.ast.value) == "SchedulerDecision.PAUSE"]
    from ..core.facts import atoms_of
    lev = vars_assigned_from(h, lambda v: isinstance(v, ast.Attribute) and v.attr == "level")      # milestone = slot.level
    ms = [n for n in ch.nodes if n.kind == "test" and any(a[0] == "le" and a[1] in lev for a in atoms_of(n.ast, True))]
    ok = len(pa2) == 1 and len(ms) >= 1
    if ok:
        # from the true edge of `resource >= milestone` every path to the exit passes the PAUSE assignment and no STOP/CONTINUE follows it
        starts = [s_ for s_, l in ch.succ[ms[0].id] if isinstance(l, tuple) and l[0] == "cond" and l[2] is True]
        later = [n.id for n in ch.nodes if n.kind == "stmt" and isinstance(n.ast, ast.Assign) and U(n.ast.value).startswith("SchedulerDecision.")
                 and n.id != pa2[0] and n.id in ch.reachable([s_ for s_, l in ch.succ[pa2[0]]])]
        ok = bool(starts) and ch.path(starts, ch.exit, deleted={pa2[0]}, skip_labels=("exc",)) is None and not later
    rep.put(ok, "S6", "must_follow", "SynchronousHyperbandScheduler.on_trial_result: a trial that reaches its milestone is PAUSEd (never stopped)", h,
            ch.nodes[pa2[0]].ast if pa2 else None, "", "a trial that reaches its rung level can be STOPped: its checkpoint is deleted although the "
            "bracket may promote (resume) it when the rung completes")


def run(ctx, rep, tier="quick"):
    s1(ctx, rep)
    s2(ctx, rep)
    s3(ctx, rep)
    s4(ctx, rep)
    s5(ctx, rep)
    s7(ctx, rep)
    # S7 a trial the scheduler paused gets no further result of the same poll delivered (the synchronous schedulers answer
    # STOP for a trial that is no longer pending, and stop_trial deletes the checkpoint the promotion needs): shared with C02-S1
    from . import c02
    sub = type(rep)(rep.prop)
    c02.s1(ctx, sub, clause="S7")
    for i in sub.items:
        rep.items.append(i)
    # S6 shared with C01-S3
    P = ctx.P
    tb = P.cls("TrialBackend")
    f = tb.methods["resume_trial"]
    sch = ctx.nodes(f, ctx.sel_call(selfcall="_schedule"), "may", 0)
    ok = bool(sch) and all(ctx.has_fact(f, n, lambda a: a[0] == "eq" and a[3] is True and "Status.paused" in (a[1], a[2])) for n in sch)
    rep.put(ok, "S6", "guarded_by", "TrialBackend.resume_trial: only a paused trial is resumed", f, None, "")
