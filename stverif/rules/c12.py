"""C12 - tuning terminates on the stopping criterion and leaves nothing running."""
import ast
import dataclasses

from ..core.model import AnchorError
from ..core.cfg import walk_shallow, cfg_of
from ..core.facts import U, atoms_of
from ..engine import (argn, fn_name, kwarg, local_defs, returns_of, stmts_in, dominating_edges, prop_satisfiable,
                      stores_between)
from . import common

EXPLANATION = (
    "Decides structural clauses of C12: S1 the criterion variable the loop tests is re-evaluated on every path through the "
    "loop body, and no new task can be scheduled once it holds or the space is exhausted (edge dominators + propositional "
    "check); S2 on_tuning_end, stop_all and mark_running_job_as_stopped are unconditional statements of the finally suite "
    "that encloses the loop, in that order, on normal and exceptional exits, and the failure error names the trial; "
    "S3 stop_all inspects all trial ids and stops those in progress; S4 every StoppingCriterion field is read by __call__ and "
    "compared in the right direction with the TuningStatus quantity of the matching name; S5 the criterion built for "
    "simulated time carries over every other field; S6 status counters agree by name with Status members and derive from "
    "one map written only by update/mark_running_job_as_stopped; S7 StopIteration is raised exactly on 'no suggestion' and "
    "caught only around _schedule_new_tasks; S8 every trial started in a scheduling step is registered in the running set and "
    "the status before the step can fail or end (so exhaustion in mid-batch leaves nothing untracked); S9 the criteria are "
    "consulted independently: with every threshold configured, none crossed and at least one result reported, the test of each "
    "threshold field is still reachable in __call__ (abstract path feasibility over {configured, not crossed}) - no criterion "
    "is chained behind another one. NOT decided: run-time overshoot <= n_workers (follows from C01-S8 under its "
    "assumptions), exceptions raised inside the finally suite itself.")

FLOOR = {"S1": 3, "S2": 5, "S3": 2, "S4": 8, "S5": 7, "S6": 6, "S7": 2, "S8": 2, "S9": 8}


def s1(ctx, rep):
    P = ctx.P
    f = P.method("Tuner", "run")
    cfg = cfg_of(f)
    whiles = [n for n in cfg.nodes if n.kind == "test" and isinstance(n.stmt, ast.While)]
    if len(whiles) != 1:
        raise AnchorError("Tuner.run: expected one while loop")
    w = whiles[0]
    # the criterion variable: a local assigned from self._stop_condition()
    crit = None
    for name in {x.id for x in ast.walk(w.ast) if isinstance(x, ast.Name)}:
        if any(not isinstance(d, tuple) and isinstance(d, ast.Call) and fn_name(d) == "_stop_condition"
               for d in local_defs(f, name)):
            crit = name
    if crit is None:
        raise AnchorError("Tuner.run: the loop test does not read a variable assigned from self._stop_condition()")
    upd = {n.id for n in cfg.nodes if n.kind == "stmt" and isinstance(n.ast, ast.Assign) and
           isinstance(n.ast.targets[0], ast.Name) and n.ast.targets[0].id == crit and
           isinstance(n.ast.value, ast.Call) and fn_name(n.ast.value) == "_stop_condition"}
    body_start = [s for s, l in cfg.succ[w.id] if isinstance(l, tuple) and l[2] is True]
    p = cfg.path(body_start, w.id, deleted=upd, skip_labels=("exc",))
    rep.put(p is None, "S1", "must_pass", f"Tuner.run: {crit} = self._stop_condition() on every path through the loop body", f,
            w.stmt, "the criterion is re-evaluated at the end of every iteration",
            "an iteration can return to the loop test without re-evaluating the stopping criterion",
            witness=cfg.describe_path(p) if p else None)
    # _stop_condition combines the user criterion with the failure limit
    g = P.method("Tuner", "_stop_condition")
    rv = [r.value for r in returns_of(g)]
    ok = len(rv) == 1 and isinstance(rv[0], ast.BoolOp) and isinstance(rv[0].op, ast.Or) and \
        any(isinstance(v, ast.Call) and "stop_criterion" in U(v.func) for v in rv[0].values) and \
        any(("lt", "self.max_failures", "self.tuning_status.num_trials_failed") in atoms_of(v, True) for v in rv[0].values)
    rep.put(ok, "S1", "agreement", "Tuner._stop_condition: criterion or failure limit", g, None,
            "stop_criterion(status) or num_trials_failed > max_failures")
    # scheduling unreachable once the criterion holds / space exhausted
    sites = ctx.calls_in(f, selfcall="_schedule_new_tasks")
    if len(sites) != 1:
        raise AnchorError("Tuner.run: expected one _schedule_new_tasks call")
    nid, call = sites[0]
    doms = dominating_edges(cfg, nid)
    conds = [(c, t) for (_, c, t) in doms]
    for tn, c, t in doms:
        names = {x.id for x in ast.walk(c) if isinstance(x, ast.Name)}
        bad = stores_between(cfg, tn, nid, {crit}) if crit in names else None
        if bad is not None:
            rep.bad("S1", "guarded_by", "Tuner.run: criterion variable stable between test and scheduling", f,
                    cfg.nodes[bad].stmt, f"{crit} is reassigned between the loop test and _schedule_new_tasks")
    exh = None
    for st in walk_shallow(f.node):
        if isinstance(st, ast.ExceptHandler) and st.type is not None and "StopIteration" in U(st.type):
            for s2 in st.body:
                if isinstance(s2, ast.Assign) and isinstance(s2.value, ast.Constant) and s2.value.value is True:
                    exh = s2.targets[0].id
    if exh is None:
        raise AnchorError("Tuner.run: exhaustion flag set in `except StopIteration` not found")
    for var, what in ((crit, "the stopping criterion holds"), (exh, "the configuration space is exhausted")):
        m = prop_satisfiable(conds, [(ast.Name(id=var), True)])
        rep.put(m is None, "S1", "guarded_by", f"Tuner.run: _schedule_new_tasks unreachable when {var}", f, call,
                f"branch conditions dominating the call are unsatisfiable together with {var}",
                f"_schedule_new_tasks is reachable while {what}: " + str({k: v for k, v in (m or {}).items()}))


def _anc(x):
    p_ = getattr(x, "_parent", None)
    while p_ is not None:
        yield p_
        p_ = getattr(p_, "_parent", None)


def s2(ctx, rep, clause="S2"):
    P = ctx.P
    f = P.method("Tuner", "run")
    tries = [st for st in f.node.body if isinstance(st, ast.Try) and st.finalbody]
    if len(tries) != 1:
        raise AnchorError("Tuner.run: outermost try/finally not found")
    tr = tries[0]
    loop_in_try = any(isinstance(s, ast.While) for s in stmts_in(tr.body))
    before = [s for s in f.node.body[: f.node.body.index(tr)] if not common.stmt_is_trivial(s)]
    calls_before = [s for s in before if any(isinstance(x, ast.Call) and ctx.call_targets(f, x) and
                                             any(not isinstance(t, tuple) for t, h in ctx.call_targets(f, x))
                                             for x in walk_shallow(s))]
    rep.put(loop_in_try and not calls_before, clause, "finally", "Tuner.run: the tuning loop is inside the try whose finally cleans up",
            f, tr, "nothing that can start trials runs outside the try")
    order = []
    for i, st in enumerate(tr.finalbody):
        # unconditional top-level statement (or a for-loop over callbacks whose body is the call)
        inner = st.body if isinstance(st, ast.For) and "callbacks" in U(st.iter) else [st]
        for s in inner:
            if isinstance(s, ast.Expr) and isinstance(s.value, ast.Call):
                nm = fn_name(s.value)
                if nm in ("on_tuning_end", "stop_all", "mark_running_job_as_stopped"):
                    order.append((nm, i, s))
        if isinstance(st, ast.If) and any(isinstance(x, ast.Call) and fn_name(x) == "_handle_failure" for x in walk_shallow(st)):
            order.append(("_handle_failure", i, st))
    names = [o[0] for o in order]
    for nm in ("on_tuning_end", "stop_all", "mark_running_job_as_stopped"):
        rep.put(names.count(nm) == 1, clause, "finally", f"Tuner.run finally: unconditional {nm}", f,
                [o[2] for o in order if o[0] == nm][0] if nm in names else tr,
                "top-level statement of the finally suite: runs on normal and exceptional exit",
                f"{nm} is not an unconditional statement of the finally suite of run(): "
                + {"on_tuning_end": "final results are not stored on some exit",
                   "stop_all": "trials are left running in the backend on some exit",
                   "mark_running_job_as_stopped": "status counters still show running trials after run() returns"}[nm])
    want = ["on_tuning_end", "stop_all", "mark_running_job_as_stopped", "_handle_failure"]
    got = [n for n in names if n in want]
    rep.put(got == want, clause, "order", "Tuner.run finally: results stored ≺ stop_all ≺ status marked ≺ failure raised", f, tr,
            " ≺ ".join(got), "order in finally is " + " ≺ ".join(got))
    # CFG cross-check: every exit of run (normal and raising, from inside the try) passes stop_all
    cfg = cfg_of(f)
    bn = ctx.nodes(f, ctx.sel_call(method="stop_all", recv="TrialBackend"), "must", 0)
    first_try_nodes = [n.id for n in cfg.nodes if n.stmt is not None and any(n.stmt is s for s in stmts_in(tr.body))]
    p = cfg.path(first_try_nodes[:1], [cfg.exit, cfg.raise_exit], deleted=bn) if first_try_nodes else None
    rep.put(bool(bn) and p is None, clause, "must_follow", "Tuner.run: every exit after entering the try passes trial_backend.stop_all()",
            f, tr, f"{len(bn)} copies of the finally suite, none can be bypassed",
            witness=cfg.describe_path(p) if p else None)
    # the failure check looks at every trial that finished during the run, not at the last iteration's ones
    hf = [x for x in walk_shallow(f.node) if isinstance(x, ast.Call) and fn_name(x) == "_handle_failure"]
    acc = {U(x.func.value) for x in walk_shallow(f.node) if isinstance(x, ast.Call) and fn_name(x) == "update" and isinstance(x.func, ast.Attribute)
           and isinstance(x.func.value, ast.Name) and x.args and isinstance(argn(x, 0), ast.Name)
           and any(isinstance(p_, (ast.While, ast.For)) for p_ in _anc(x))}
    okh = len(hf) == 1 and (kwarg(hf[0], "done_trials_statuses", 0) is not None) and U(kwarg(hf[0], "done_trials_statuses", 0)) in acc
    rep.put(okh, clause, "taint", "Tuner.run: _handle_failure is given the record accumulated over the whole run", f, hf[0] if hf else None,
            f"accumulated in the loop: {sorted(acc)}", f"`{U(hf[0])[:80] if hf else ''}` is not given the dictionary the loop accumulates into "
            f"({sorted(acc)}): a failure that happened before the last iteration is not reported when the limit is exceeded")
    # the error names the failed trial
    g = P.method("Tuner", "_handle_failure")
    raises = [n for n in walk_shallow(g.node) if isinstance(n, ast.Raise)]
    lp = [s_ for s_ in walk_shallow(g.node) if isinstance(s_, ast.For) and isinstance(s_.iter, ast.Call) and fn_name(s_.iter) == "items"
          and isinstance(s_.target, ast.Tuple)]
    if len(lp) != 1:
        raise AnchorError("Tuner._handle_failure: loop over (trial id, (trial, status)) not found")
    tidv = U(lp[0].target.elts[0])
    # the id named in the error is the loop's trial id, or a local that takes its value from it (first failed trial found)
    named = {tidv} | {x.targets[0].id for x in walk_shallow(g.node) if isinstance(x, ast.Assign) and len(x.targets) == 1
                      and isinstance(x.targets[0], ast.Name) and U(x.value) == tidv}
    ok = False
    for r in raises:
        fs = [x for x in ast.walk(r) if isinstance(x, ast.FormattedValue)]
        if any(U(x.value) in named for x in fs):
            ok = True
    cg = cfg_of(g)
    rn = [n.id for n in cg.nodes if n.kind == "stmt" and isinstance(n.ast, ast.Raise)]
    from .common import dom_guard
    guarded = bool(rn) and all(any(a[0] == "eq" and a[3] is True and "Status.failed" in (a[1], a[2]) for a in dom_guard(ctx, g, n)) for n in rn)
    rep.put(ok and guarded, clause, "agreement", "Tuner._handle_failure raises an error naming a failed trial", g,
            raises[0] if raises else None, "raise ... f'{trial_id}' guarded by status == Status.failed")


def s3(ctx, rep):
    P = ctx.P
    f = P.method("TrialBackend", "stop_all")
    ok = False
    for n in walk_shallow(f.node):
        if isinstance(n, ast.Call) and fn_name(n) == "_all_trial_results" and argn(n, 0) is not None and U(argn(n, 0)) == "self.trial_ids":
            ok = True
    rep.put(ok, "S3", "agreement", "TrialBackend.stop_all inspects all trial ids", f, None,
            "_all_trial_results(self.trial_ids)", "stop_all does not look at every trial the backend ever started")
    sites = ctx.calls_in(f, selfcall="stop_trial")
    if not sites:
        raise AnchorError("TrialBackend.stop_all: no stop_trial call")
    for nid, c in sites:
        g = ctx.has_fact(f, nid, lambda a: a[0] == "eq" and a[3] is True and "Status.in_progress" in (a[1], a[2]))
        others = [a for a in ctx.facts(f).at(nid) if not (a[0] == "eq" and "Status.in_progress" in (a[1], a[2]))]
        rep.put(g and not others, "S3", "guarded_by", "TrialBackend.stop_all: stop_trial | status == in_progress (only)", f, c,
                "every trial still in progress is stopped",
                "stop_trial in stop_all is guarded by something other than 'status == in_progress': " + str(others))
    # no subclass overrides stop_all without calling super
    for sub in ctx.P.all_subclasses(P.cls("TrialBackend")):
        if "stop_all" in sub.methods:
            m = sub.methods["stop_all"]
            sup = any(isinstance(x, ast.Call) and fn_name(x) == "stop_all" and isinstance(x.func.value, ast.Call)
                      and fn_name(x.func.value) == "super" for x in walk_shallow(m.node))
            rep.put(sup, "S3", "sibling", f"{sub.name}.stop_all calls super().stop_all()", m, None, "")


STATUS_OF_FIELD = {
    "max_wallclock_time": "wallclock_time", "max_num_trials_started": "num_trials_started",
    "max_num_trials_completed": "num_trials_completed", "max_cost": "cost",
    "max_num_trials_finished": "num_trials_finished", "max_num_evaluations": "count",
}


def dataclass_fields(cls):
    return [a for a in cls.class_annots]


def s4(ctx, rep):
    P = ctx.P
    c = P.cls("StoppingCriterion")
    f = c.methods["__call__"]
    cfg = cfg_of(f)
    fields = dataclass_fields(c)
    if len(fields) < 8:
        raise AnchorError(f"StoppingCriterion: expected >= 8 fields, found {fields}")
    true_returns = [n for n in cfg.nodes if n.kind == "stmt" and isinstance(n.ast, ast.Return) and
                    isinstance(n.ast.value, ast.Constant) and n.ast.value.value is True]
    for fld in fields:
        sf = "self." + fld
        hits = []
        for n in true_returns:
            from .common import dom_guard
            at = set(ctx.facts(f).at(n.id)) | set(dom_guard(ctx, f, n.id))
            nn = any(a[0] == "is" and a[1] == sf and a[2] == "None" and a[3] is False for a in at)
            if not nn:
                continue
            hits.append((n, at))
        if not hits:
            rep.bad("S4", "agreement", f"StoppingCriterion.{fld} honoured by __call__", f, None,
                    f"no `return True` is guarded by `{sf} is not None`: the field is ignored")
            continue
        ok = False
        detail = ""
        for n, at in hits:
            if fld in STATUS_OF_FIELD:
                want = STATUS_OF_FIELD[fld]
                for a in at:
                    if a[0] == "lt" and a[1] == sf and a[2].startswith("status.") and a[2].split(".")[-1] == want:
                        ok, detail = True, f"{a[2]} > {sf}"
            elif fld in ("max_metric_value", "min_metric_value"):
                side = fld[:3]
                # loop over self.<fld>.items(): (metric, accepted); observed from <side>_metrics
                loops = [h for h in cfg.nodes if h.kind == "for" and U(h.ast.iter) == f"{sf}.items()"]
                for h in loops:
                    acc = U(h.ast.target.elts[1]) if isinstance(h.ast.target, ast.Tuple) else None
                    for a in at:
                        if a[0] == "lt":
                            lo, hi = a[1], a[2]
                            obs = hi if side == "max" else lo
                            thr = lo if side == "max" else hi
                            if thr == acc and "[" in obs:
                                src = obs.split("[")[0]
                                d = [U(x) for x in local_defs(f, src) if not isinstance(x, tuple)]
                                if d and d[0].endswith(f".{side}_metrics"):
                                    ok, detail = True, f"{obs} {'>' if side == 'max' else '<'} {thr} with {src} = {d[0]}"
            else:
                # a field this rule has no table entry for: must at least be compared with a status quantity
                ok = any(sf in (a[1], a[2]) and "status." in a[1] + a[2] for a in at if a[0] in ("lt", "le"))
                detail = "compared with a status quantity"
        rep.put(ok, "S4", "agreement", f"StoppingCriterion.{fld} honoured by __call__", f, hits[0][0].ast, detail,
                f"`return True` under `{sf} is not None` does not compare the field with the matching status quantity in "
                "the documented direction")
    # falls through to False
    rf = [r for r in returns_of(f) if isinstance(r.value, ast.Constant) and r.value.value is False]
    rep.put(bool(rf), "S4", "agreement", "StoppingCriterion.__call__ returns False when no atomic criterion holds", f, None, "")


def s5(ctx, rep):
    P = ctx.P
    c = P.cls("StoppingCriterion")
    fields = dataclass_fields(c)
    f = P.method("SimulatorCallback", "_modify_stop_criterion")
    ctor = [x for x in walk_shallow(f.node) if isinstance(x, ast.Call) and isinstance(x.func, ast.Name)
            and x.func.id == "StoppingCriterion"]
    if len(ctor) != 1:
        raise AnchorError("_modify_stop_criterion: StoppingCriterion(...) reconstruction not found")
    call = ctor[0]
    # the original criterion variable
    orig = None
    for name in {x.id for x in ast.walk(f.node) if isinstance(x, ast.Name)}:
        if any(not isinstance(d, tuple) and U(d).endswith(".stop_criterion") for d in local_defs(f, name)):
            orig = name
    if orig is None:
        raise AnchorError("_modify_stop_criterion: original criterion variable not found")
    kw = {k.arg: k.value for k in call.keywords if k.arg}
    for i, a in enumerate(call.args):
        if i < len(fields):
            kw[fields[i]] = a
    star = [k for k in call.keywords if k.arg is None]
    for fld in fields:
        if fld == "max_wallclock_time":
            continue
        construct = f"SimulatorCallback._modify_stop_criterion carries over {fld}"
        if star and fld not in kw:
            # **dataclasses.asdict(orig)-style copy
            ok = any(orig in U(s.value) for s in star)
            rep.put(ok, "S5", "ctor_coverage", construct, f, call, "copied through ** expansion of the original")
            continue
        v = kw.get(fld)
        if v is None:
            rep.bad("S5", "ctor_coverage", construct, f, call,
                    f"the criterion used in simulation is rebuilt without `{fld}`: a run that should stop on it does not")
            continue
        src = U(v)
        if isinstance(v, ast.Name):
            ds = [U(d) for d in local_defs(f, v.id) if not isinstance(d, tuple)]
            src = " | ".join(ds)
        ok = f"{orig}.{fld}" in src
        rep.put(ok, "S5", "ctor_coverage", construct, f, v, f"{fld} = {src}",
                f"`{fld}` of the rebuilt criterion is `{src}`, which does not contain the original {orig}.{fld}: "
                "the user's setting is lost in simulation")
    # the wallclock budget is translated into a threshold on simulated time
    v = kw.get("max_metric_value")
    src = U(v) if v is not None else ""
    if isinstance(v, ast.Name):
        src = " | ".join(U(d) for d in local_defs(f, v.id) if not isinstance(d, tuple))
        # also in-place updates  x[ST_TUNER_TIME] = ...
        for st in walk_shallow(f.node):
            if isinstance(st, ast.Assign) and isinstance(st.targets[0], ast.Subscript) and U(st.targets[0].value) == v.id:
                src += " | " + U(st)
    from ..engine import flows_into
    ok = "ST_TUNER_TIME" in src and v is not None and (
        flows_into(f, v, lambda y: isinstance(y, ast.Attribute) and y.attr == "max_wallclock_time") or any(
            isinstance(st, ast.Assign) and isinstance(st.targets[0], ast.Subscript) and isinstance(v, ast.Name) and U(st.targets[0].value) == v.id
            and flows_into(f, st.value, lambda y: isinstance(y, ast.Attribute) and y.attr == "max_wallclock_time") for st in walk_shallow(f.node)))
    rep.put(ok, "S5", "ctor_coverage", "SimulatorCallback._modify_stop_criterion maps max_wallclock_time to ST_TUNER_TIME threshold",
            f, call, src)
    # the original is restored at the end
    g = P.method("SimulatorCallback", "on_tuning_end")
    ok = any(isinstance(s, ast.Assign) and U(s.targets[0]).endswith(".stop_criterion") and "_backup_stop_criterion" in U(s.value)
             for s in walk_shallow(g.node))
    rep.info("S5", "agreement", "SimulatorCallback.on_tuning_end restores the criterion", g, None, str(ok))


def s6(ctx, rep):
    P = ctx.P
    c = P.cls("TuningStatus")
    status = P.cls("Status")
    table = {"num_trials_completed": {"completed"}, "num_trials_failed": {"failed"},
             "num_trials_running": {"in_progress"},
             "num_trials_finished": {"completed", "stopped", "stopping", "failed"}}
    for prop, want in table.items():
        f = c.methods.get(prop)
        if f is None:
            raise AnchorError(f"TuningStatus.{prop} vanished")
        for w in want:
            if w not in status.class_attrs:
                raise AnchorError(f"Status.{w} vanished")
        rets = returns_of(f)
        got = set()
        ok_shape = False
        for r in rets:
            if isinstance(r.value, ast.Call) and fn_name(r.value) == "_num_trials":
                ok_shape = True
                arg = kwarg(r.value, "status", 0)
                exprs = [arg]
                if isinstance(arg, ast.Name):
                    exprs = [d for d in local_defs(f, arg.id) if not isinstance(d, tuple)]
                for e in exprs:
                    for x in ast.walk(e):
                        if isinstance(x, ast.Attribute) and isinstance(x.value, ast.Name) and x.value.id == "Status":
                            got.add(x.attr)
        rep.put(ok_shape and got == want, "S6", "agreement", f"TuningStatus.{prop} counts Status.{'/'.join(sorted(want))}", f, None,
                f"counts {sorted(got)}", f"counts {sorted(got)}, the name promises {sorted(want)}")
    g = c.methods["_num_trials"]
    # a count over the last-seen table: sum(<status> in <wanted> for ...) or sum(1 for ... if <status> in <wanted>)
    ok = False
    for x in walk_shallow(g.node):
        if isinstance(x, ast.Call) and fn_name(x) == "sum" and x.args and isinstance(x.args[0], (ast.GeneratorExp, ast.ListComp)) \
                and len(x.args[0].generators) == 1:
            ge = x.args[0]
            gen = ge.generators[0]
            if not ("self.last_trial_status_seen" in U(gen.iter) and fn_name(gen.iter) in ("values", "items")):
                continue
            tv = {y.id for y in ast.walk(gen.target) if isinstance(y, ast.Name)}
            member = lambda e: isinstance(e, ast.Compare) and len(e.ops) == 1 and isinstance(e.ops[0], ast.In) and \
                isinstance(e.left, ast.Name) and e.left.id in tv
            if (member(ge.elt) and not gen.ifs) or (isinstance(ge.elt, ast.Constant) and ge.elt.value == 1 and len(gen.ifs) == 1 and member(gen.ifs[0])):
                ok = True
    rep.put(ok, "S6", "agreement", "TuningStatus._num_trials sums membership over last_trial_status_seen", g, None, "")
    ws = ctx.writers("last_trial_status_seen", classes=["TuningStatus"])
    allowed = {"__init__", "update", "mark_running_job_as_stopped"}
    bad = [(f, n, k) for f, n, k in ws if not (f.cls is c and f.name in allowed)]
    rep.put(not bad and len(ws) >= 3, "S6", "who_may_write", "TuningStatus.last_trial_status_seen writers", c, None,
            f"{len(ws)} write sites in {sorted(allowed)}", "foreign writer: " + ", ".join(f.short for f, n, k in bad))
    m = c.methods["mark_running_job_as_stopped"]
    ok = False
    for x in walk_shallow(m.node):
        if isinstance(x, ast.DictComp) and isinstance(x.value, ast.IfExp):
            ie = x.value
            at = atoms_of(ie.test, True)
            # v if v != in_progress else stopped
            if any(a[0] == "eq" and a[3] is False and "Status.in_progress" in (a[1], a[2]) for a in at) and \
                    U(ie.orelse) == "Status.stopped" and U(ie.body) == U(x.generators[0].target.elts[1]):
                ok = True
            if any(a[0] == "eq" and a[3] is True and "Status.in_progress" in (a[1], a[2]) for a in at) and \
                    U(ie.body) == "Status.stopped" and U(ie.orelse) == U(x.generators[0].target.elts[1]):
                ok = True
    rep.put(ok, "S6", "agreement", "TuningStatus.mark_running_job_as_stopped rewrites exactly in_progress → stopped", m, None, "")


def s7(ctx, rep, clause="S7"):
    P = ctx.P
    f = P.method("Tuner", "_schedule_new_task")
    cfg = cfg_of(f)
    from ..engine import var_from_call
    sv = var_from_call(f, "suggest")
    if sv is None:
        raise AnchorError("Tuner._schedule_new_task: no variable receives scheduler.suggest(...)")
    rn = [n for n in cfg.nodes if n.kind == "stmt" and isinstance(n.ast, ast.Raise) and "StopIteration" in U(n.ast)]
    ok = len(rn) == 1 and ctx.has_fact(f, rn[0].id, lambda a: a[0] == "is" and a[1] == sv and a[2] == "None" and a[3] is True)
    # no backend call reachable on that edge
    back = ctx.nodes(f, ctx.sel_or(ctx.sel_call(method="start_trial", recv="TrialBackend"),
                                   ctx.sel_call(method="resume_trial", recv="TrialBackend")), "may", 0)
    after = cfg.reachable(rn[0].id) if rn else set()
    rep.put(ok and not (after & back), clause, "guarded_by", "Tuner._schedule_new_task: StopIteration exactly on suggestion is None", f,
            rn[0].ast if rn else None, "no backend call on that edge")
    # backend calls are guarded by suggestion is not None
    for nid in sorted(back):
        g = ctx.has_fact(f, nid, lambda a: a[0] == "is" and a[1] == sv and a[2] == "None" and a[3] is False)
        rep.put(g, clause, "guarded_by", f"Tuner._schedule_new_task: backend call at node needs a suggestion (L{cfg.nodes[nid].lineno})".replace(
            f" (L{cfg.nodes[nid].lineno})", "") + f" [{'start' if 'start_trial' in U(cfg.nodes[nid].ast) else 'resume'}]", f, cfg.nodes[nid].stmt, "")
    r = P.method("Tuner", "run")
    hs = [h for h in walk_shallow(r.node) if isinstance(h, ast.ExceptHandler) and h.type is not None and "StopIteration" in U(h.type)]
    ok = len(hs) == 1
    if ok:
        tr = hs[0]._parent
        ok = len(tr.body) == 1 and isinstance(tr.body[0], ast.Expr) and isinstance(tr.body[0].value, ast.Call) \
            and fn_name(tr.body[0].value) == "_schedule_new_tasks"
    rep.put(ok, clause, "agreement", "Tuner.run: StopIteration caught only around _schedule_new_tasks", r, hs[0] if hs else None, "")


def s6b(ctx, rep):
    """guard table (found thin by the generic mutation audit)"""
    from .common import require_guard, call_nodes
    P = ctx.P
    f = P.method("TuningStatus", "mark_running_job_as_stopped")
    cfg = cfg_of(f)
    st = [n.id for n in cfg.nodes if n.kind == "stmt" and isinstance(n.ast, ast.Assign) and isinstance(n.ast.targets[0], ast.Subscript)
          and U(n.ast.targets[0].slice) == "'status'" and U(n.ast.value) == "Status.stopped"]
    require_guard(ctx, rep, "S6", f, "TuningStatus.mark_running_job_as_stopped: a row is marked stopped | it was in progress", st,
                  [("row['status'] == Status.in_progress", lambda a: a[0] == "eq" and a[3] is True and "Status.in_progress" in (a[1], a[2]))],
                  "finished trials are re-labelled as stopped and running ones keep 'in progress' after run() returned")
    dc = [x for x in walk_shallow(f.node) if isinstance(x, ast.DictComp) and isinstance(x.value, ast.IfExp)]
    ok = len(dc) == 1
    if ok:
        ie = dc[0].value
        t, a_t, a_f = ie.test, ie.body, ie.orelse
        while isinstance(t, ast.UnaryOp) and isinstance(t.op, ast.Not):
            t, a_t, a_f = t.operand, a_f, a_t
        at = atoms_of(t, True)
        is_run = any(a[0] == "eq" and "Status.in_progress" in (a[1], a[2]) for a in at)
        pos = any(a[0] == "eq" and a[3] is True for a in at)
        stopped_arm, keep_arm = (a_t, a_f) if pos else (a_f, a_t)
        ok = is_run and U(stopped_arm) == "Status.stopped" and U(keep_arm) == U(dc[0].generators[0].target.elts[1])
    rep.put(ok, "S6", "agreement", "TuningStatus.mark_running_job_as_stopped: last-seen status map: in_progress -> stopped, everything else kept", f,
            dc[0] if dc else None, "", "the status map relabels the wrong trials: num_trials_running / num_trials_finished are wrong after run() returned")
    g = P.method("SimulatorCallback", "_modify_stop_criterion")
    cg = cfg_of(g)
    repl = [n.id for n in cg.nodes if n.kind == "stmt" and isinstance(n.ast, ast.Assign) and any(U(t).endswith(".stop_criterion") for t in n.ast.targets)]
    require_guard(ctx, rep, "S5", g, "SimulatorCallback._modify_stop_criterion: the criterion is replaced | it is a StoppingCriterion with max_wallclock_time", repl,
                  [("isinstance(stop_criterion, StoppingCriterion)", lambda a: a[0] == "isinstance" and a[2] == "StoppingCriterion" and a[3] is True),
                   ("max_wallclock_time is not None", lambda a: a[0] == "is" and a[1].endswith(".max_wallclock_time") and a[3] is False)],
                  "a wallclock budget is not translated to simulated time (the simulated run never ends on it), or a criterion without a budget is rewritten")
    # the rewrite is actually applied, once per run, on every path of on_tuning_start; the scheduler and the backend share one clock
    # (a wallclock budget is compared with the time stamps the backend's time keeper produces) and the tuner does not really sleep
    h = P.method("SimulatorCallback", "on_tuning_start")
    ch = cfg_of(h)
    for what, pred, why in (
            ("the stopping criterion is rewritten onto simulated time", lambda x: isinstance(x, ast.Call) and fn_name(x) == "_modify_stop_criterion",
             "a wallclock budget stays a real-time budget: the simulated experiment runs far beyond it (real seconds, not simulated ones, are counted)"),
            ("the clock is started", lambda x: isinstance(x, ast.Call) and fn_name(x) == "start_of_time",
             "simulated time is not started with the run"),):
        marks = {n.id for n in ch.nodes if any(pred(x) for x in ch.node_walk(n.id))}
        ok_ = bool(marks) and ch.path([ch.entry], ch.exit, deleted=marks, skip_labels=("exc",)) is None
        rep.put(ok_, "S5", "must_follow", f"SimulatorCallback.on_tuning_start: {what} on every path", h, None, "", why)
    tk = [x for x in walk_shallow(h.node) if isinstance(x, ast.Call) and fn_name(x) == "set_time_keeper"]
    src = [x for x in walk_shallow(h.node) if isinstance(x, ast.Assign) and any(U(t) == "self._time_keeper" for t in x.targets)]
    ok_ = len(tk) == 1 and len(src) == 1 and U(src[0].value).endswith(".time_keeper") and argn(tk[0], 0) is not None and U(argn(tk[0], 0)) in ("self._time_keeper", U(src[0].value))
    rep.put(ok_, "S5", "agreement", "SimulatorCallback.on_tuning_start: the scheduler is given the backend's own time keeper", h, tk[0] if tk else None, "",
            "scheduler and backend measure time on different clocks: time-based decisions and the simulated-time budget disagree")


def s9(ctx, rep):
    """every configured criterion is consulted: with all thresholds configured, none of them crossed and at least one
    result reported, the test of each threshold is still reached (no criterion is hidden behind another one)."""
    P = ctx.P
    c = P.cls("StoppingCriterion")
    f = c.methods["__call__"]
    cfg = cfg_of(f)
    fields = [a for a in c.class_annots if not a.startswith("_")]
    if len(fields) < 6:
        raise AnchorError(f"StoppingCriterion: only {len(fields)} threshold fields found")
    # loop variables bound over a threshold dict stand for thresholds too
    thr_names = set()
    for x in walk_shallow(f.node):
        if isinstance(x, ast.For) and any(isinstance(y, ast.Attribute) and U(y) in {"self." + a for a in fields} for y in ast.walk(x.iter)):
            thr_names |= {y.id for y in ast.walk(x.target) if isinstance(y, ast.Name)}

    def mentions_threshold(e):
        return any((isinstance(y, ast.Attribute) and U(y) in {"self." + a for a in fields}) or (isinstance(y, ast.Name) and y.id in thr_names)
                   for y in ast.walk(e))

    def ev(e):
        if isinstance(e, ast.UnaryOp) and isinstance(e.op, ast.Not):
            v = ev(e.operand)
            return None if v is None else not v
        if isinstance(e, ast.BoolOp):
            vs = [ev(v) for v in e.values]
            if isinstance(e.op, ast.And):
                return False if any(v is False for v in vs) else (True if all(v is True for v in vs) else None)
            return True if any(v is True for v in vs) else (False if all(v is False for v in vs) else None)
        if isinstance(e, ast.Compare) and len(e.ops) == 1:
            a, b, op = e.left, e.comparators[0], e.ops[0]
            if isinstance(op, (ast.Is, ast.IsNot)) and "None" in (U(a), U(b)):
                other = b if U(a) == "None" else a
                if isinstance(other, ast.Attribute) and U(other) in {"self." + x for x in fields}:
                    return isinstance(op, ast.IsNot)          # every criterion is configured
            if isinstance(op, (ast.Gt, ast.GtE, ast.Lt, ast.LtE)):
                if mentions_threshold(e):
                    return False                              # no threshold is crossed
                if (U(b) == "0" and isinstance(op, ast.Gt) and "count" in U(a)) or (U(a) == "0" and isinstance(op, ast.Lt) and "count" in U(b)):
                    return True                               # at least one result has been reported
        return None

    def edge_ok(label):
        if isinstance(label, tuple) and label[0] == "cond":
            v = ev(label[1])
            return v is None or v == label[2]
        return label != "exc"
    reach = cfg.reachable(cfg.entry, edge_ok=edge_ok)
    for a in fields:
        tests = [n.id for n in cfg.nodes if n.kind == "test" and any(isinstance(y, ast.Attribute) and U(y) == "self." + a for y in ast.walk(n.ast))
                 and any(isinstance(y, ast.Compare) and isinstance(y.ops[0], (ast.Is, ast.IsNot)) and "self." + a in (U(y.left), U(y.comparators[0]))
                         for y in ast.walk(n.ast))]
        if not tests:
            rep.bad("S9", "exhaustive", f"StoppingCriterion.__call__ tests `{a}`", f, None, f"the criterion `{a}` can be configured but is never consulted")
            continue
        ok = any(t in reach for t in tests)
        rep.put(ok, "S9", "independent", f"StoppingCriterion.__call__: `{a}` is consulted whatever the other criteria are", f, cfg.nodes[tests[0]].ast, "",
                f"with every other criterion configured (and not yet met) the test of `{a}` is not reached: it is chained behind another "
                "criterion (elif / early exit), so tuning continues although this criterion holds")


def run(ctx, rep, tier="quick"):
    s1(ctx, rep)
    s2(ctx, rep)
    s3(ctx, rep)
    s4(ctx, rep)
    s5(ctx, rep)
    s6(ctx, rep)
    s7(ctx, rep)
    s6b(ctx, rep)
    # the status a finished trial is counted under (completed vs paused) - shared with C01-S5
    from . import c01 as _c01
    _c01.s5b(ctx, rep, clause="S6")
    _c01.s5c(ctx, rep, clause="S6")
    s9(ctx, rep)
    from . import c01
    c01.s10(ctx, rep, clause="S8")
    # nothing is left running / more than n_workers never run because the running set is what it should be: finished trials leave it,
    # and only the trials that finished in this iteration (shared with C01-S7) - a resumed trial must not be dropped again
    sub = type(rep)(rep.prop)
    c01.s7(ctx, sub)
    for i in sub.items:
        i.clause = "S8"
        rep.items.append(i)
