"""C03 - stopping-type asynchronous Hyperband decides by the documented quantile rule."""
import ast

from ..core.model import AnchorError
from ..core.cfg import walk_shallow, cfg_of
from ..core.facts import U, atoms_of
from ..engine import argn, fn_name, kwarg, local_defs, returns_of, stmts_in, dict_items, vars_assigned_from, var_from_call
from ..kinds import parity

EXPLANATION = (
    "Decides structural clauses of C03: S1 the trial's own value is inserted into the rung before the rung's quantile is "
    "compared (same rung object); S2 a trial enters a rung at most once and only at the rung's level (guards 'not in rung', "
    "'resource >= level', exact-level edge), and Rung.add/pop keep the entry list and the id set in step; S3 with fewer than "
    "two entries there is no cutoff (quantile() returns None on len < 2) and 'no cutoff' - and only that - means continue; "
    "S4 the continue test is a dual pair over the mode (<= for min, >= for max, equality continues) between the trial's "
    "value and the cutoff; S5 decisions are taken only over the trial's own rungs: the scan iterates "
    "_milestone_rungs(skip_rungs) with skip_rungs derived from the trial's bracket, highest rung first, stopping at the first "
    "rung reached; S6 the default answer at max_t is 'does not continue' and only resources below max_t consult the rung "
    "system; the scheduler maps 'does not continue' to STOP for stopping-type; S7 promotion quantiles are level / next "
    "level (zip of the level list with its shift extended by max_t), and a rung level is the rounding of a closed form in "
    "(r_min, eta, k) - no already rounded level is scaled and rounded again; S8 RUSH only sharpens (conjunction with the base "
    "decision). NOT decided: Rung.quantile equals numpy.quantile (arithmetic), the closed form of the levels itself.")

FLOOR = {"S1": 1, "S2": 4, "S3": 4, "S4": 1, "S5": 3, "S6": 3, "S7": 4, "S8": 3}

MODE_FLAGS = (("self._is_min", "min"),)


def s1(ctx, rep):
    P = ctx.P
    f = P.method("StoppingRungSystem", "on_task_report")
    cfg = cfg_of(f)
    adds = [(nid, c) for nid, c in ctx.calls_in(f, method="add", recv="Rung")]
    cmps = [(nid, c) for nid, c in ctx.calls_in(f, selfcall="_task_continues")]
    if len(adds) != 1 or len(cmps) != 1:
        raise AnchorError("StoppingRungSystem.on_task_report: rung.add / _task_continues sites not found")
    (an, ac), (bn, bc) = adds[0], cmps[0]
    same = U(ac.func.value) == U(kwarg(bc, "rung", 2))
    from ..engine import deref
    entry = deref(f, argn(ac, 0))
    val_ok = isinstance(entry, ast.Call) and fn_name(entry) == "RungEntry" and U(kwarg(entry, "metric_val", 1)) == U(kwarg(bc, "metric_val", 1)) \
        and U(kwarg(entry, "trial_id", 0)) == U(kwarg(bc, "trial_id", 0))
    p = cfg.path(cfg.entry, bn, deleted={an})
    rep.put(same and val_ok and p is None, "S1", "must_precede", "StoppingRungSystem.on_task_report: rung.add(own value) ≺ _task_continues(same rung)",
            f, bc, "the quantile is taken over the rung including the reporting trial",
            "the decision can be taken before (or without) the trial's own value being inserted into the rung it is compared with",
            witness=cfg.describe_path(p) if p else None)


def s2(ctx, rep):
    P = ctx.P
    f = P.method("StoppingRungSystem", "on_task_report")
    an, ac = ctx.calls_in(f, method="add", recv="Rung")[0]
    rung = U(ac.func.value)
    at = ctx.facts(f).at(an)
    from ..engine import deref
    entry = deref(f, argn(ac, 0))
    if not isinstance(entry, ast.Call):
        raise AnchorError("StoppingRungSystem.on_task_report: rung.add argument is not a RungEntry(...) value")
    tid = U(kwarg(entry, "trial_id", 0))
    g1 = any(a[0] == "in" and a[3] is False and a[1] == tid and a[2] == rung for a in at)
    rep.put(g1, "S2", "guarded_by", "StoppingRungSystem.on_task_report: rung.add | trial not yet in the rung", f, ac, "",
            "a trial can be inserted into the same rung twice (it re-reports the level after a restart): the rung statistics count it twice")
    from ..engine import vars_assigned_from
    rv = vars_assigned_from(f, lambda v: isinstance(v, ast.Subscript) and "_resource_attr" in U(v.slice))
    mv = vars_assigned_from(f, lambda v: U(v) == f"{rung}.level")
    if len(rv) != 1 or len(mv) != 1:
        raise AnchorError("StoppingRungSystem.on_task_report: resource / rung-level variables not identified")
    rv, mv = rv[0], mv[0]
    g2 = any(a[0] == "le" and a[1] == mv and a[2] == rv for a in at) and any(a[0] == "le" and a[1] == rv and a[2] == mv for a in at)
    rep.put(g2, "S2", "guarded_by", "StoppingRungSystem.on_task_report: rung.add | resource == rung level (not below, not above)", f, ac,
            "resource >= level and not resource > level")
    rep.put(True, "S2", "agreement", "StoppingRungSystem.on_task_report: the level compared is the rung's own level", f, None, f"{mv} = {rung}.level")
    r = P.cls("Rung")
    add, pop = r.methods["add"], r.methods["pop"]
    ok = any(isinstance(x, ast.Call) and fn_name(x) == "add" and U(x.func.value) == "self.data" for x in walk_shallow(add.node)) and \
        any(isinstance(x, ast.Call) and fn_name(x) == "add" and U(x.func.value) == "self._trial_ids" for x in walk_shallow(add.node))
    ok2 = any(isinstance(x, ast.Call) and fn_name(x) == "pop" and U(x.func.value) == "self.data" for x in walk_shallow(pop.node)) and \
        any(isinstance(x, ast.Call) and fn_name(x) in ("remove", "discard") and U(x.func.value) == "self._trial_ids" for x in walk_shallow(pop.node))
    rep.put(ok and ok2, "S2", "agreement", "Rung.add / Rung.pop update data and _trial_ids together", r, None, "")
    c = r.methods["__contains__"]
    rep.put("self._trial_ids" in U(c.node), "S2", "agreement", "Rung.__contains__ tests the id set", c, None, "")


def s3(ctx, rep):
    P = ctx.P
    q = P.method("Rung", "quantile")
    cfg = cfg_of(q)
    nones = [n for n in cfg.nodes if n.kind == "stmt" and isinstance(n.ast, ast.Return) and isinstance(n.ast.value, ast.Constant)
             and n.ast.value.value is None]
    ok = len(nones) == 1
    if ok:
        at = ctx.facts(q).at(nones[0].id)
        lv = [a for a in at if a[0] == "lt" and a[2] == "2"]
        ok = len(lv) == 1 and len(at) == 1
        if ok:
            ds = [d for d in local_defs(q, lv[0][1]) if not isinstance(d, tuple)]
            ok = len(ds) == 1 and U(ds[0]) == "len(self.data)"
    rep.put(ok, "S3", "guarded_by", "Rung.quantile: None exactly when the rung has fewer than two entries", q, None, "len(self.data) < 2")
    for cname in ("StoppingRungSystem",):
        f = P.method(cname, "_task_continues")
        cf = cfg_of(f)
        trues = [n for n in cf.nodes if n.kind == "stmt" and isinstance(n.ast, ast.Return) and isinstance(n.ast.value, ast.Constant)
                 and n.ast.value.value is True]
        cut = None
        for name in {x.id for x in ast.walk(f.node) if isinstance(x, ast.Name)}:
            if any(isinstance(d, ast.Call) and fn_name(d) == "quantile" for d in local_defs(f, name) if not isinstance(d, tuple)):
                cut = name
        if cut is None:
            raise AnchorError("_task_continues: cutoff = rung.quantile() not found")
        ok = len(trues) == 1
        detail = ""
        if ok:
            at = ctx.facts(f).at(trues[0].id)
            ok = at == {("is", cut, "None", True)}
            detail = str(sorted(at))
        rep.put(ok, "S3", "guarded_by", f"{cname}._task_continues: unconditional 'continue' exactly when the cutoff is None", f,
                trues[0].ast if trues else None, detail,
                f"`return True` is reached under {detail or 'several paths'}, not exactly `{cut} is None`: a cutoff that is a legal value "
                "(e.g. 0.0) is treated as 'no cutoff' and a trial worse than the quantile continues")
        # every other return compares value and cutoff
        others = [n for n in cf.nodes if n.kind == "stmt" and isinstance(n.ast, ast.Return) and n not in trues]
        ok = bool(others) and all(cut in U(n.ast.value) and "metric_val" in U(n.ast.value) for n in others)
        rep.put(ok, "S3", "agreement", f"{cname}._task_continues: every other return compares the value with the cutoff", f, None, "")


def s4(ctx, rep, clause="S4"):
    P = ctx.P
    f = P.method("StoppingRungSystem", "_task_continues")
    from ..engine import value_choices
    ch = [c_ for c_ in value_choices(f) if parity.mode_test(c_[1]) is not None and
          (c_[4] == "return" or any(r.value is c_[0] for r in returns_of(f)))]
    if len(ch) != 1:
        raise AnchorError("StoppingRungSystem._task_continues: no single two-way choice of the returned comparison on the mode")
    ie, tst, a_t, a_f, _ = ch[0]
    m = parity.mode_test(tst)
    arm_min, arm_max = (a_t, a_f) if m == "min" else (a_f, a_t)
    ok = parity.dual_compare(arm_min, arm_max)
    cm = parity.cmp_canon(arm_min)
    # direction: for min, value <= cutoff continues (equality continues)
    dirok = cm is not None and ((cm[0] is ast.LtE and cm[1] == "metric_val") or (cm[0] is ast.GtE and cm[2] == "metric_val"))
    rep.put(ok and dirok, clause, "parity", "StoppingRungSystem._task_continues: min-arm and max-arm are a dual pair (<= / >=, equality continues)",
            f, ie, U(ie), f"`{U(ie)}`: the two arms are not mirror images (value <= cutoff for min, value >= cutoff for max): "
            "minimising f and maximising -f decide differently, or a value equal to the quantile is stopped")


def s5(ctx, rep):
    P = ctx.P
    f = P.method("StoppingRungSystem", "on_task_report")
    loops = [n for n in walk_shallow(f.node) if isinstance(n, ast.For)]
    ok = len(loops) == 1 and isinstance(loops[0].iter, ast.Call) and fn_name(loops[0].iter) == "_milestone_rungs" \
        and U(argn(loops[0].iter, 0)) == "skip_rungs"
    rep.put(ok, "S5", "agreement", "StoppingRungSystem.on_task_report scans _milestone_rungs(skip_rungs)", f, loops[0] if loops else None, "",
            "the scan is not restricted to the trial's own rung levels: a trial of a higher bracket is judged at a level that is "
            "not one of its milestones")
    # leaves the loop at the first rung reached (break follows the decision)
    cfg = cfg_of(f)
    an = ctx.calls_in(f, method="add", recv="Rung")[0][0]
    head = [n.id for n in cfg.nodes if n.kind == "for"][0]
    p = cfg.path([s for s, l in cfg.succ[an]], head, skip_labels=("exc",))
    rep.put(p is None, "S5", "must_follow", "StoppingRungSystem.on_task_report: the scan ends at the first rung reached", f, None, "",
            "after a decision at one rung the scan continues to lower rungs", witness=cfg.describe_path(p) if p else None)
    g = P.method("RungSystem", "_milestone_rungs")
    rv = [U(r.value) for r in returns_of(g)]
    from .c01 import _dom_atoms
    cg = cfg_of(g)
    sliced = [n.id for n in cg.nodes if n.kind == "stmt" and isinstance(n.ast, ast.Return) and n.ast.value is not None
              and U(n.ast.value) == "self._rungs[:-skip_rungs]"]
    ok = set(rv) == {"self._rungs[:-skip_rungs]", "self._rungs"} and len(sliced) == 1 and ("lt", "0", "skip_rungs") in _dom_atoms(cg, sliced[0])
    rep.put(ok, "S5", "agreement", "RungSystem._milestone_rungs drops the skip_rungs lowest rungs (list is highest first)", g, None, str(rv))
    init = P.method("RungSystem", "__init__")
    ok = any(isinstance(x, ast.Call) and fn_name(x) == "reversed" and "zip(rung_levels, promote_quantiles)" in U(x) for x in walk_shallow(init.node))
    rep.put(ok, "S5", "agreement", "RungSystem.__init__ stores rungs highest level first, each with its own quantile", init, None, "")
    # skip_rungs at the call flows from the trial's bracket
    h = P.method("HyperbandBracketManager", "on_task_report")
    from ..engine import var_from_call
    # which position of _get_rung_system's result is the rung system / the number of rungs to skip: the positions that
    # carry the two results of _get_rung_system_for_bracket_id (derived from the callee, not assumed)
    g2 = P.method("HyperbandBracketManager", "_get_rung_system")
    r2 = [r.value for r in returns_of(g2) if isinstance(r.value, ast.Tuple)]
    if len(r2) != 1:
        raise AnchorError("HyperbandBracketManager._get_rung_system does not return one tuple")
    pos = {}
    for i, e in enumerate(r2[0].elts):
        if isinstance(e, ast.Name):
            for d in local_defs(g2, e.id):
                if isinstance(d, tuple) and d[0] == "unpack" and fn_name(d[1]) == "_get_rung_system_for_bracket_id":
                    pos[d[2]] = i
    if set(pos) != {0, 1}:
        raise AnchorError("_get_rung_system: results of _get_rung_system_for_bracket_id not found in the returned tuple")
    skv = var_from_call(h, "_get_rung_system", pos[1])
    rsv = var_from_call(h, "_get_rung_system", pos[0])
    call = [x for x in walk_shallow(h.node) if isinstance(x, ast.Call) and fn_name(x) == "on_task_report" and U(x.func.value) == rsv]
    ok = len(call) == 1 and skv is not None and U(kwarg(call[0], "skip_rungs", 2)) == skv
    ds = local_defs(h, skv) if skv else []
    ok = ok and len(ds) == 1 and isinstance(ds[0], tuple) and fn_name(ds[0][1]) == "_get_rung_system" and U(argn(ds[0][1], 0)) == "trial_id"
    ok = ok and "self._task_info[trial_id]" in U(g2.node)
    # every other unpacking of _get_rung_system takes the rung system from the same position
    for m_ in P.cls("HyperbandBracketManager").methods.values():
        for x in walk_shallow(m_.node):
            if isinstance(x, ast.Assign) and isinstance(x.value, ast.Call) and fn_name(x.value) == "_get_rung_system" and isinstance(x.targets[0], ast.Tuple):
                t_ = x.targets[0].elts
                ok = ok and len(t_) == len(r2[0].elts)
                used = [i for i, e in enumerate(t_) if isinstance(e, ast.Name) and e.id != "_"
                        and any(isinstance(y, ast.Attribute) and isinstance(y.value, ast.Name) and y.value.id == e.id for y in walk_shallow(m_.node))]
                ok = ok and all(i == pos[0] for i in used)
    bracket_offset(ctx, rep, "S5")
    rep.put(ok, "S5", "taint", "HyperbandBracketManager.on_task_report: skip_rungs comes from the reporting trial's bracket", h, None, "")


def s6(ctx, rep):
    P = ctx.P
    h = P.method("HyperbandBracketManager", "on_task_report")
    d = None
    dv = None
    for st in walk_shallow(h.node):
        if isinstance(st, ast.Assign) and isinstance(st.value, ast.Dict):
            d = dict_items(st.value)
            dv = U(st.targets[0])
    # the answer is a dictionary made for this call: what one report writes into it (the rung system's answer is merged in) must not
    # be what the next report - of any trial - starts from
    rets = [r.value for r in returns_of(h) if r.value is not None]
    fresh = bool(rets) and all(isinstance(r, ast.Name) and r.id == dv for r in rets)
    rep.put(fresh, "S6", "aliasing", "HyperbandBracketManager.on_task_report: the answer is a dictionary created in this call", h, rets[0] if rets else None, "",
            "the returned answer is not a dictionary literal built in on_task_report (an attribute or another shared object is updated and returned): a report at "
            "max_t gets whatever the previous report left in it - 'continue' at the maximum resource")
    if not fresh:
        return
    ok = d is not None and "task_continues" in d and isinstance(d["task_continues"], ast.Constant) and d["task_continues"].value is False \
        and isinstance(d.get("milestone_reached"), ast.Constant) and d["milestone_reached"].value is True
    rep.put(ok, "S6", "agreement", "HyperbandBracketManager.on_task_report: default answer is 'stop, milestone reached'", h, None, "")
    cfg = cfg_of(h)
    # the node that asks the rung system (its answer is merged into the default answer)
    upd = [n for n in cfg.nodes if any(isinstance(x, ast.Call) and fn_name(x) == "on_task_report" for x in cfg.node_walk(n.id))]
    mrg = [n for n in cfg.nodes if any(isinstance(x, ast.Call) and fn_name(x) == "update" and U(x.func.value) == dv for x in cfg.node_walk(n.id))]
    ok = len(upd) == 1 and len(mrg) == 1 and ctx.facts(h).at(upd[0].id) >= {("lt", "result[self._resource_attr]", "self._max_t")} \
        and ctx.facts(h).at(mrg[0].id) >= {("lt", "result[self._resource_attr]", "self._max_t")}
    rep.put(ok, "S6", "guarded_by", "HyperbandBracketManager.on_task_report: the rung system is consulted only below max_t", h, None, "",
            "a report at (or beyond) max_t can be answered 'continue' by the rung system: the trial runs past the maximum resource")
    s = P.method("HyperbandScheduler", "on_trial_result")
    cs = cfg_of(s)
    stops = [n for n in cs.nodes if n.kind == "stmt" and isinstance(n.ast, ast.Assign) and U(n.ast.value) == "SchedulerDecision.STOP"]
    ok = len(stops) == 1
    if ok:
        at = ctx.facts(s).at(stops[0].id)
        tcv = vars_assigned_from(s, lambda v: isinstance(v, ast.Subscript) and U(v.slice) == "'task_continues'")
        ok = len(tcv) == 1 and any(a[0] == "truth" and a[1] == tcv[0] and a[2] is False for a in at)
        ors = [a for a in at if a[0] == "or"]
        ok = ok and len(ors) == 1 and "does_pause_resume" in repr(ors[0]) and "self.max_t" in repr(ors[0])
    rep.put(ok, "S6", "guarded_by", "HyperbandScheduler.on_trial_result: not task_continues → STOP if stopping-type or resource >= max_t", s,
            stops[0].ast if stops else None, "")
    st = P.method("StoppingRungSystem", "on_task_report")
    cst = cfg_of(st)
    from ..engine import dict_items as _di
    ret = [(_di(r.value) or {}) for r in returns_of(st)]
    # the places where the answer 'does not continue' is fixed: the flag set to False, or a result returned with the constant False
    tcns = {U(d_["task_continues"]) for d_ in ret if "task_continues" in d_ and isinstance(d_["task_continues"], ast.Name)}
    rvn = vars_assigned_from(st, lambda v: isinstance(v, ast.Subscript) and "_resource_attr" in U(v.slice))
    f0 = [n for n in cst.nodes if n.kind == "stmt" and isinstance(n.ast, ast.Assign) and U(n.ast.targets[0]) in tcns
          and isinstance(n.ast.value, ast.Constant) and n.ast.value.value is False]
    f0 += [n for n in cst.nodes if n.kind == "stmt" and isinstance(n.ast, ast.Return) and isinstance((_di(n.ast.value) or {}).get("task_continues"), ast.Constant)
           and (_di(n.ast.value) or {})["task_continues"].value is False]
    ok = len(f0) == 1 and len(rvn) == 1 and any(a[0] == "eq" and a[3] is True and {a[1], a[2]} == {rvn[0], "self._max_t"}
                                                   for a in ctx.facts(st).at(f0[0].id))
    rep.put(ok, "S6", "guarded_by", "StoppingRungSystem.on_task_report: at max_t the task does not continue", st, None, "")


def s7(ctx, rep):
    P = ctx.P
    f = P.method("HyperbandBracketManager", "__init__")
    lcs0 = [x for x in walk_shallow(f.node) if isinstance(x, ast.ListComp) and any(k.arg == "promote_quantiles" for c_ in ast.walk(x.elt) if isinstance(c_, ast.Call) for k in c_.keywords)]
    pqn = None
    if lcs0:
        for c_ in ast.walk(lcs0[0].elt):
            if isinstance(c_, ast.Call) and kwarg(c_, "promote_quantiles") is not None:
                v_ = kwarg(c_, "promote_quantiles")
                pqn = U(v_.value) if isinstance(v_, ast.Subscript) else U(v_)
    if pqn is None:
        raise AnchorError("HyperbandBracketManager.__init__: promote_quantiles argument of the rung systems not found")
    pq = [d for d in local_defs(f, pqn) if not isinstance(d, tuple)]
    ok = len(pq) == 1 and isinstance(pq[0], ast.ListComp)
    why = "promote_quantiles is not a comprehension over (level, next level) pairs"
    if ok:
        lc = pq[0]
        g = lc.generators[0]
        from ..engine import deref
        ok = isinstance(lc.elt, ast.BinOp) and isinstance(lc.elt.op, ast.Div) and isinstance(g.target, ast.Tuple) and len(g.target.elts) == 2 \
            and isinstance(g.iter, ast.Call)
        if ok and fn_name(g.iter) == "zip" and len(g.iter.args) == 2:
            # pairs (level, next level) from zip(levels, levels[1:] + [max_t])
            a0, a1 = g.iter.args
            ok = [U(e) for e in g.target.elts] == [U(lc.elt.left), U(lc.elt.right)] and U(a0) == "rung_levels" and \
                U(deref(f, a1)).replace(" ", "") == "rung_levels[1:]+[max_t]"
        elif ok and fn_name(g.iter) == "enumerate" and len(g.iter.args) == 1:
            # level / next_levels[j] for j, level in enumerate(levels)
            jv, lv_ = U(g.target.elts[0]), U(g.target.elts[1])
            r_ = lc.elt.right
            ok = U(g.iter.args[0]) == "rung_levels" and U(lc.elt.left) == lv_ and isinstance(r_, ast.Subscript) and U(r_.slice) == jv and \
                U(deref(f, r_.value)).replace(" ", "") == "rung_levels[1:]+[max_t]"
        else:
            ok = False
        why = f"promote_quantiles = {U(lc)} with second list {U(argn(g.iter, 1)) if isinstance(g.iter, ast.Call) and len(g.iter.args) > 1 else '?'}"
    rep.put(ok, "S7", "agreement", "HyperbandBracketManager.__init__: q_j = level_j / level_{j+1} (last: / max_t)", f, pq[0] if pq else None, "",
            why + ": the promotion quantile is not level / next level")
    # each rung system gets levels and quantiles with the same offset
    lcs = lcs0
    ok = len(lcs) == 1 and isinstance(lcs[0].elt, ast.Call)
    if ok:
        a1, a2 = kwarg(lcs[0].elt, "rung_levels"), kwarg(lcs[0].elt, "promote_quantiles")
        ok = isinstance(a1, ast.Subscript) and isinstance(a2, ast.Subscript) and U(a1.value) == "rung_levels" and U(a2.value) == pqn \
            and U(a1.slice) == U(a2.slice) and isinstance(a1.slice, ast.Slice) and a1.slice.upper is None
    rep.put(ok, "S7", "agreement", "HyperbandBracketManager.__init__: levels and quantiles sliced with the same bracket offset", f,
            lcs[0] if lcs else None, "")


def s8(ctx, rep, clause="S8"):
    P = ctx.P
    f = P.method("RUSHStoppingRungSystem", "_task_continues")
    from ..engine import deref
    rv = returns_of(f)
    ok = len(rv) == 1 and isinstance(rv[0].value, ast.Call) and fn_name(rv[0].value) == "task_continues"
    if ok:
        v = deref(f, kwarg(rv[0].value, "task_continues", 0))
        ok = isinstance(v, ast.Call) and fn_name(v) == "_task_continues" and isinstance(v.func, ast.Attribute) and isinstance(v.func.value, ast.Call) \
            and fn_name(v.func.value) == "super"
    rep.put(ok, clause, "agreement", "RUSHStoppingRungSystem._task_continues feeds the base decision into the RUSH decider", f, None, "")
    d = P.method("RUSHDecider", "task_continues")
    cfg = cfg_of(d)
    first = [s for s in d.node.body if not isinstance(s, ast.Expr)][0]
    ok = isinstance(first, ast.If) and atoms_of(first.test, True) == {("truth", "task_continues", False)} and \
        isinstance(first.body[0], ast.Return) and isinstance(first.body[0].value, ast.Constant) and first.body[0].value.value is False
    rep.put(ok, clause, "guarded_by", "RUSHDecider.task_continues returns False whenever the base decision is False (only sharpens)", d, first, "",
            "RUSH can let a trial continue that the quantile rule stops")
    rb = P.method("RUSHDecider", "_return_better")
    ifs = [s for s in walk_shallow(rb.node) if isinstance(s, ast.If)]
    ok = len(ifs) == 1 and parity.mode_test(ifs[0].test) is not None
    if ok:
        m = parity.mode_test(ifs[0].test)
        amin, amax = (ifs[0].body, ifs[0].orelse) if m == "min" else (ifs[0].orelse, ifs[0].body)
        ok = parity.arms_are_dual(amin, amax, oriented=True)
    rep.put(ok, clause, "parity", "RUSHDecider._return_better: min/max arms are a dual pair", rb, ifs[0] if ifs else None, "")


def s9(ctx, rep):
    """rung level k is the rounding of the closed form r_min * eta^k: no rounded value is scaled and rounded again."""
    from ..engine import flows_into
    P = ctx.P
    f = P.func("syne_tune.optimizer.schedulers.utils.successive_halving.successive_halving_rung_levels")

    def is_round(y):
        return isinstance(y, ast.Call) and fn_name(y) in ("round", "int", "floor", "ceil", "rint", "around", "trunc")
    n = 0
    for c in [x for x in walk_shallow(f.node) if is_round(x) and x.args]:
        n += 1
        bad = None
        for y in ast.walk(argn(c, 0)):
            if isinstance(y, ast.BinOp) and isinstance(y.op, (ast.Mult, ast.Pow, ast.Div, ast.FloorDiv)):
                for side in (y.left, y.right):
                    if any(is_round(z) for z in ast.walk(side)):
                        continue    # int(round(a * b)): the nesting itself
                    if flows_into(f, side, is_round):
                        bad = (y, side)
        rep.put(bad is None, "S7", "taint", f"successive_halving_rung_levels: `{U(c)[:50]}` rounds a closed form, not an already rounded level", f, c, "",
                f"`{U(bad[0]) if bad else ''}`: `{U(bad[1]) if bad else ''}` is itself the result of a rounding, then scaled and rounded again - rounding "
                "errors accumulate from level to level, so for a non-integer reduction factor the levels are not round(r_min * eta^k) and "
                "decisions are taken at the wrong resource levels with the wrong quantiles")
    if n == 0:
        raise AnchorError("successive_halving_rung_levels: no rounding found (levels no longer integers?)")


def s10(ctx, rep):
    """Rung.quantile: q (or 1 - q) and everything computed from it count positions in ascending order, the entry list is
    best-first; a position derived from q addresses the list only inside the min/max switch (shared with C15-S1)"""
    from . import c15
    P = ctx.P
    f = P.method("Rung", "quantile")
    from ..engine import value_choices
    # the choice between q and 1 - q on the mode, written as a conditional expression or as if/else assigning the same local
    def _compl(a, b):
        a, b = U(a).replace(" ", ""), U(b).replace(" ", "")
        return b == f"1-{a}" or a == f"1-{b}"
    ch = [c_ for c_ in value_choices(f) if parity.mode_test(c_[1], c15.FLAGS) is not None and _compl(c_[2], c_[3]) and "prom_quant" in U(c_[2])]
    if len(ch) != 1:
        raise AnchorError("Rung.quantile: the choice `q = prom_quant under min, 1 - prom_quant under max` not found")
    sites = [ch[0][0]]
    bad = c15._mode_typed_positions_used_raw(f, ch[0][1] if ch[0][4] == "expr" else ch[0][2])
    rep.put(not bad, "S3", "parity", "Rung.quantile: positions derived from q address the entry list only inside the mode switch", f,
            bad[0] if bad else sites[0], "", f"`{U(bad[0])[:60] if bad else ''}` indexes the best-first entry list with an ascending-order position "
            "outside the min/max switch: the cutoff is the mirrored entry for mode 'max'")


def s5c(ctx, rep, clause="S5"):
    """every call that tells a rung system how many of its lowest rungs to skip passes the number that belongs to the trial's
    bracket: the second result of _get_rung_system_for_bracket_id (directly, or through _get_rung_system at the position
    that carries it) - never the bracket id or anything else of type int"""
    P = ctx.P
    c = P.cls("HyperbandBracketManager")
    g2 = c.methods["_get_rung_system"]
    r2 = [r.value for r in returns_of(g2) if isinstance(r.value, ast.Tuple)]
    pos_skip = None
    for i, e in enumerate(r2[0].elts if r2 else []):
        if isinstance(e, ast.Name):
            for d in local_defs(g2, e.id):
                if isinstance(d, tuple) and d[0] == "unpack" and fn_name(d[1]) == "_get_rung_system_for_bracket_id" and d[2] == 1:
                    pos_skip = i
    if pos_skip is None:
        raise AnchorError("_get_rung_system: position of the skip count not found")
    # callee parameters called skip_rungs, by position
    rs = P.cls("RungSystem")
    skip_param_pos = {}
    for k in P.all_subclasses(rs, strict=False):
        for m in k.methods.values():
            ps = [p_ for p_ in m.params if p_ != "self"]
            if "skip_rungs" in ps:
                skip_param_pos.setdefault(m.name, ps.index("skip_rungs"))
    n = 0
    for m in c.methods.values():
        skipvars = set()
        for x in walk_shallow(m.node):
            if isinstance(x, ast.Assign) and isinstance(x.value, ast.Call) and isinstance(x.targets[0], ast.Tuple):
                cal = fn_name(x.value)
                idx = 1 if cal == "_get_rung_system_for_bracket_id" else pos_skip if cal == "_get_rung_system" else None
                if idx is not None and idx < len(x.targets[0].elts) and isinstance(x.targets[0].elts[idx], ast.Name):
                    skipvars.add(x.targets[0].elts[idx].id)
        for x in walk_shallow(m.node):
            if isinstance(x, ast.Call) and fn_name(x) in skip_param_pos and isinstance(x.func, ast.Attribute) and not (
                    isinstance(x.func.value, ast.Name) and x.func.value.id == "self"):
                a = kwarg(x, "skip_rungs", skip_param_pos[fn_name(x)])
                if a is None:
                    continue
                n += 1
                ok = isinstance(a, ast.Name) and a.id in skipvars
                rep.put(ok, clause, "taint", f"HyperbandBracketManager.{m.name}: {fn_name(x)}(skip_rungs=...) gets the skip count of the trial's bracket", m, x,
                        f"skip_rungs={U(a)}", f"`{U(a)}` is passed as skip_rungs but is not the skip count returned for the bracket (with a rung system "
                        "per bracket the skip count is 0 and the bracket id is not): the trial's own lowest rung levels are skipped, or pending "
                        "levels are registered up to a milestone that is not the trial's first one")
    if n < 4:
        raise AnchorError(f"HyperbandBracketManager: {n} calls with a skip_rungs argument (5 confirmed)")


def s7b(ctx, rep):
    """None is how 'not given' travels from the scheduler's arguments to successive_halving_rung_levels (where a reduction
    factor takes precedence over a rung increment): neither may be defaulted on the way, except the one place that
    defaults the factor when BOTH are missing"""
    from .common import dom_guard
    P = ctx.P
    mod = P.cls("HyperbandScheduler").module
    dd = None
    for st in mod.tree.body:
        if isinstance(st, ast.Assign) and U(st.targets[0]) == "_DEFAULT_OPTIONS":
            dd = dict_items(st.value)
            node = st
    if dd is None:
        raise AnchorError("hyperband.py: _DEFAULT_OPTIONS not found")
    bad = sorted(set(dd) & {"reduction_factor", "rung_increment"})
    rep.put(not bad, "S7", "agreement", "HyperbandScheduler: reduction_factor / rung_increment have no blanket default", f"{mod.relpath}:{node.lineno}", None, "",
            f"_DEFAULT_OPTIONS defaults {bad}: the value is then never None, the rung-level function lets it take precedence and a rung_increment "
            "(or factor) given by the user is silently ignored - decisions are taken at other levels with other quantiles than documented")
    init = P.method("HyperbandScheduler", "__init__")
    ci = cfg_of(init)
    dfl = [n.id for n in ci.nodes if n.kind == "stmt" and isinstance(n.ast, ast.Assign) and isinstance(n.ast.targets[0], ast.Subscript)
           and U(n.ast.targets[0].slice) in ("'reduction_factor'", "'rung_increment'")]
    ok = True
    for nid in dfl:
        at = dom_guard(ctx, init, nid)
        ok = ok and any(a[0] == "is" and a[3] is True and "reduction_factor" in a[1] for a in at) and any(a[0] == "is" and a[3] is True and "rung_increment" in a[1] for a in at)
    rep.put(ok, "S7", "guarded_by", "HyperbandScheduler.__init__: a default factor is filled in only if neither factor nor increment is given", init,
            ci.nodes[dfl[0]].ast if dfl else None, f"{len(dfl)} defaulting store(s)",
            "a default reduction factor / increment is filled in although the user gave the other one")


def s11(ctx, rep):
    """found thin by the generic mutation audit"""
    from . import c15
    P = ctx.P
    r = P.cls("Rung")
    c = r.methods["__contains__"]
    rv = returns_of(c)
    ok = len(rv) == 1 and isinstance(rv[0].value, ast.Compare) and len(rv[0].value.ops) == 1 and isinstance(rv[0].value.ops[0], ast.In) \
        and U(rv[0].value.comparators[0]) == "self._trial_ids"
    rep.put(ok, "S2", "agreement", "Rung.__contains__: membership in the id set the entries are recorded in", c, rv[0] if rv else None, "",
            "`trial in rung` does not mean 'has an entry': a trial is entered twice, or never")
    # both mode switches of Rung.quantile are mirror images AND attached to the right modes
    q = r.methods["quantile"]
    n = 0
    for f_, node in c15.sites(ctx, [q.module.relpath]):
        if f_ is not q:
            continue
        shape, ok_, detail = c15.classify(ctx, f_, node)
        if shape is None and c15._mirror_when_specialised(f_):
            # written in a way the shape table does not know: decided on the function with the mode fixed either way - mirror
            # images, and the complement of the quantile belongs to 'max' (best-first list read from its other end)
            consts = dict(f_.module.constants)
            tmin = U(ast.Module(body=parity.specialise(q.node, "min", c15.FLAGS, consts), type_ignores=[])).replace(" ", "")
            tmax = U(ast.Module(body=parity.specialise(q.node, "max", c15.FLAGS, consts), type_ignores=[])).replace(" ", "")
            if "1-self.prom_quant" not in tmin and "1-self.prom_quant" in tmax:
                shape, ok_, detail = "specialised", True, "the function specialised to 'min' and to 'max' are mirror images, 1 - q under 'max'"
        n += 1
        rep.put(bool(ok_), "S3", "parity", f"Rung.quantile: {shape} over the mode", q, node, detail,
                f"{detail}: the cutoff is taken from the wrong end of the best-first entry list for one of the modes")
    if n < 2:
        raise AnchorError(f"Rung.quantile: {n} mode-dependent sites (2 confirmed: q / 1-q and the window)")


def bracket_offset(ctx, rep, clause="S5"):
    """(rung system, number of lowest rungs to skip) for a bracket: its own system without skipping, or the shared system
    skipping `bracket` rungs - never both offsets at once (shared with C04: a new trial's first milestone comes from here)"""
    P = ctx.P
    g3 = P.method("HyperbandBracketManager", "_get_rung_system_for_bracket_id")
    r3 = [r.value for r in returns_of(g3) if isinstance(r.value, ast.Tuple) and len(r.value.elts) == 2]
    ok3 = len(r3) == 1 and isinstance(r3[0].elts[0], ast.Subscript) and U(r3[0].elts[0].value) == "self._rung_systems"
    if ok3:
        sysv, skipv = U(r3[0].elts[0].slice), U(r3[0].elts[1])
        arms = [s_ for s_ in walk_shallow(g3.node) if isinstance(s_, ast.If)]
        ok3 = len(arms) == 1
        if ok3:
            def arm_vals(body):
                return {U(t.targets[0]): U(t.value) for t in body if isinstance(t, ast.Assign)}
            a_, b_ = arm_vals(arms[0].body), arm_vals(arms[0].orelse)
            per, shared = (a_, b_) if ("truth", "self._rung_system_per_bracket", True) in atoms_of(arms[0].test, True) else (b_, a_)
            ok3 = per.get(sysv) == "bracket_id" and per.get(skipv) == "0" and shared.get(sysv) == "0" and shared.get(skipv) == "bracket_id"
    rep.put(ok3, clause, "agreement", "_get_rung_system_for_bracket_id: own rung system without skipping, or the shared one skipping `bracket` rungs", g3, None, "",
            "the pair (rung system, number of lowest rungs to skip) is not (own, 0) / (shared, bracket id)")
    g3 = P.method("HyperbandBracketManager", "_get_rung_system_for_bracket_id")
    cf = cfg_of(g3)
    r3 = [r.value for r in returns_of(g3) if isinstance(r.value, ast.Tuple) and len(r.value.elts) == 2]
    skn = U(r3[0].elts[1]) if r3 else "?"
    sk = [n for n in cf.nodes if n.kind == "stmt" and isinstance(n.ast, ast.Assign) and U(n.ast.targets[0]) == skn]
    vals = {U(n.ast.value): ctx.facts(g3).at(n.id) for n in sk}
    ok = set(vals) == {"0", "bracket_id"} and any(a[0] == "truth" and a[2] is False for a in vals.get("bracket_id", ()))
    rep.put(ok, clause, "agreement", "bracket offset: skip_rungs = bracket_id when all brackets share one rung system", g3, None, "")


def s5d(ctx, rep, clause="S5"):
    """the bracket a trial is judged in is the bracket it was added to: on_task_add records trial -> bracket on every path and
    hands the trial to the rung system of that same bracket; on_task_remove forgets the record when the trial leaves"""
    P = ctx.P
    f = P.method("HyperbandBracketManager", "on_task_add")
    cfg = cfg_of(f)
    tid = f.params[1]
    stores = [n for n in cfg.nodes if n.kind == "stmt" and isinstance(n.ast, ast.Assign) and any(
        isinstance(t, ast.Subscript) and U(t.value) == "self._task_info" and U(t.slice) == tid for t in n.ast.targets)]
    ok = len(stores) == 1 and cfg.path([cfg.entry], cfg.exit, deleted={stores[0].id}, skip_labels=("exc",)) is None
    bv = U(stores[0].ast.value) if stores else "?"
    from ..engine import deref
    src = deref(f, stores[0].ast.value) if stores else None
    ok = ok and src is not None and isinstance(src, ast.Subscript) and U(src.slice) == "'bracket'"
    rep.put(ok, clause, "must_follow", "HyperbandBracketManager.on_task_add records trial -> bracket (the bracket it was started in) on every path", f,
            stores[0].ast if stores else None, "", "a running trial has no (or another) bracket on record: its reports are judged with another bracket's rung levels "
            "(KeyError at its first report, or decisions at levels that are not its milestones)")
    sysc = [x for x in walk_shallow(f.node) if isinstance(x, ast.Assign) and isinstance(x.value, ast.Call) and fn_name(x.value) == "_get_rung_system_for_bracket_id"]
    oks = len(sysc) == 1 and argn(sysc[0].value, 0) is not None and (
        U(deref(f, argn(sysc[0].value, 0))) in (U(src), f"self._task_info[{tid}]") or U(argn(sysc[0].value, 0)) == bv) if src is not None else False
    adds = [x for x in walk_shallow(f.node) if isinstance(x, ast.Call) and fn_name(x) == "on_task_add"]
    oka = len(adds) == 1 and isinstance(sysc[0].targets[0], ast.Tuple) and U(adds[0].func.value) == U(sysc[0].targets[0].elts[0]) and \
        kwarg(adds[0], "skip_rungs", 1) is not None and U(kwarg(adds[0], "skip_rungs", 1)) == U(sysc[0].targets[0].elts[1]) if oks and adds else False
    rep.put(bool(oks) and bool(oka), clause, "agreement", "HyperbandBracketManager.on_task_add: the trial is added to the rung system (and skip count) of that bracket", f,
            adds[0] if adds else None, "")
    g = P.method("HyperbandBracketManager", "on_task_remove")
    dels = [x for x in walk_shallow(g.node) if isinstance(x, ast.Delete) and any(isinstance(t, ast.Subscript) and U(t.value) == "self._task_info" for t in x.targets)] + \
           [x for x in walk_shallow(g.node) if isinstance(x, ast.Call) and fn_name(x) == "pop" and U(x.func.value) == "self._task_info"]
    rep.put(bool(dels), clause, "agreement", "HyperbandBracketManager.on_task_remove forgets the trial's bracket", g, None, "",
            "a finished trial keeps its bracket record: when it is resumed it is still judged in the old bracket")


def run(ctx, rep, tier="quick"):
    s5d(ctx, rep)
    s1(ctx, rep)
    s2(ctx, rep)
    s3(ctx, rep)
    s4(ctx, rep)
    s5(ctx, rep)
    s6(ctx, rep)
    s7(ctx, rep)
    s8(ctx, rep)
    s9(ctx, rep)
    s10(ctx, rep)
    s7b(ctx, rep)
    s5c(ctx, rep)
    s11(ctx, rep)
