"""C11 - seeded runs are reproducible."""
import ast

from ..core.model import AnchorError, FuncInfo, ClassInfo
from ..core.cfg import walk_shallow, cfg_of
from ..core.facts import U, atoms_of
from ..engine import argn, fn_name, kwarg, local_defs, returns_of, stmts_in

EXPLANATION = (
    "Decides structural clauses of C11 for the classes that accept random_seed (subclasses of TrialSchedulerWithSearcher and "
    "StochasticSearcher) and the code they reach over type-resolved call edges: S1 no draw from a process-global generator "
    "(numpy.random.<fn>, random.<fn>) is reachable, except the documented fallback that derives a master seed when no seed is "
    "given - and that fallback is taken exactly on 'seed is None'; S2 the seeded generator is passed down: sampling helpers "
    "called from seeded code receive a random_state argument that is not None; S3 one master stream: RandomState objects "
    "inside seeded classes are seeded from the seed generator / the given seed, never from a literal or the clock, and the "
    "internal random searcher shares the owner's generator; S4 no dependence on hash order: no iteration over a set whose "
    "elements may be strings (or tuples/frozensets of them) feeds an order-sensitive sink unless sorted; S5 no state shared "
    "between instances (no writes to module globals or class attributes, no mutable default arguments) in seeded classes. "
    "NOT decided: bit-equality of GP fits across processes; run-time independence of instances.")

FLOOR = {"S1": 3, "S2": 3, "S3": 3, "S4": 2, "S5": 1, "S6": 3}

DRAWS = {"rand", "randn", "randint", "random", "random_sample", "choice", "uniform", "normal", "shuffle", "permutation", "beta",
         "binomial", "sample", "gamma", "poisson", "exponential", "multivariate_normal", "standard_normal", "bytes", "randrange",
         "gauss", "betavariate", "triangular", "getrandbits", "choices"}

PROPERTY_FILES = [
    "syne_tune/optimizer/schedulers/random_seeds.py", "syne_tune/optimizer/schedulers/scheduler_searcher.py",
    "syne_tune/optimizer/schedulers/searchers/searcher_base.py", "syne_tune/optimizer/schedulers/hyperband.py",
    "syne_tune/optimizer/schedulers/pbt.py", "syne_tune/optimizer/schedulers/synchronous/dehb.py",
    "syne_tune/optimizer/schedulers/searchers/model_based_searcher.py",
    "syne_tune/optimizer/schedulers/searchers/bayesopt/gpautograd/gp_model.py",
]


def seeded_classes(ctx):
    P = ctx.P
    out = set()
    for b in ("TrialSchedulerWithSearcher", "StochasticSearcher"):
        out |= ctx.down(b)
    return out


def global_draws(ctx, f):
    """[(call, dotted)] module-level draws from numpy.random / random in f"""
    out = []
    for c, tg in ctx.R.calls(f):
        for t, h in tg:
            if isinstance(t, tuple) and t[0] == "ext":
                d = t[1]
                if (d.startswith("numpy.random.") or d.startswith("autograd.numpy.random.") or d.startswith("random.")) \
                        and d.split(".")[-1] in DRAWS and d.count(".") <= 3:
                    out.append((c, d))
    return out


def reachable_from(ctx, roots, depth=8):
    # breadth first: every function is reached at its smallest depth, so the result does not depend on the order in
    # which roots and callees are visited
    from collections import deque
    seen = {}
    todo = deque((r, 0, None) for r in sorted(roots, key=lambda f: f.qualname))
    while todo:
        f, d, par = todo.popleft()
        if f in seen or d > depth:
            continue
        seen[f] = par
        for c, tg in ctx.R.calls(f):
            for t, h in sorted(((t, h) for t, h in tg if isinstance(t, FuncInfo) and h == "type"), key=lambda x: x[0].qualname):
                todo.append((t, d + 1, f))
    return seen


def s1(ctx, rep):
    P = ctx.P
    sc = seeded_classes(ctx)
    roots = [m for c in sc for m in c.methods.values()]
    reach = reachable_from(ctx, roots)
    n = 0
    for f in sorted(P.functions.values(), key=lambda f: f.qualname):
        draws = global_draws(ctx, f)
        if not draws:
            continue
        top = f
        while top.parent is not None:
            top = top.parent
        r = top in reach or f in reach
        names = sorted({d.split(".")[-1] for _, d in draws})
        construct = f"global RNG draw in {top.short}"
        if not r:
            rep.info("S1", "global_rng", construct, f, draws[0][0], f"{names}; not reachable from a seeded class over typed call edges")
            continue
        n += 1
        chain = []
        g = top if top in reach else f
        while g is not None and len(chain) < 8:
            chain.append(g.short)
            g = reach.get(g)
        rep.bad("S1", "global_rng", construct, f, draws[0][0],
                f"np.random/random.{'/'.join(names)} drawn from the process-global generator, reachable from a class that accepts "
                f"random_seed ({' ← '.join(chain[:5])}): two objects created with the same seed diverge when the global state differs")
    # a seed that was not given is recognised by `is None`: 0 is a legal seed (sweep over every function of the optimizer
    # and backend packages that takes an optional integer seed)
    from .common import numeric_optional_params, truthiness_uses
    ns = 0
    for f in sorted(P.functions.values(), key=lambda f: f.qualname):
        if not f.module.name.startswith(("syne_tune.optimizer", "syne_tune.backend", "syne_tune.blackbox_repository")):
            continue
        for p_ in numeric_optional_params(f):
            if "seed" not in p_:
                continue
            ns += 1
            uses = truthiness_uses(f, p_)
            rep.put(not uses, "S1", "guarded_by", f"{f.short}: optional seed `{p_}` is tested with `is None`, not for truth", f, uses[0] if uses else None, "",
                    f"`{U(uses[0])[:70] if uses else ''}` treats `{p_} = 0` as 'no seed given': the object is then seeded at random (or from the "
                    "global generator), so two objects created with random_seed=0 behave differently")
    if ns < 3:
        raise AnchorError(f"C11-S1: only {ns} optional integer seed parameters found")
    # the seed a searcher creates its generator from is never None (RandomState(None) seeds from OS entropy): what
    # extract_random_seed returns is a generated seed, the given seed, or the fixed default - a raw `kwargs.get(...)` result
    # (None when the caller forwards random_seed=None explicitly) is replaced under `is None`
    from .common import maybe_none_reaches
    ex = P.func("syne_tune.optimizer.schedulers.searchers.searcher_base.extract_random_seed")
    cex = cfg_of(ex)
    rets_ = [n for n in cex.nodes if n.kind == "stmt" and isinstance(n.ast, ast.Return) and isinstance(n.ast.value, ast.Tuple) and n.ast.value.elts
             and isinstance(n.ast.value.elts[0], ast.Name)]
    if len(rets_) != 1:
        raise AnchorError("extract_random_seed: `return <seed variable>, <kwargs>` not found")
    sv_ = rets_[0].ast.value.elts[0].id
    leaks = maybe_none_reaches(ctx, ex, sv_, {rets_[0].id})
    rep.put(not leaks, "S1", "nullness", "extract_random_seed never returns None as the seed", ex, leaks[0][0] if leaks else None, "",
            f"`{U(leaks[0][0])[:70] if leaks and leaks[0][0] is not None else ''}` can be None when it is returned (a key that is present with value None "
            "is not covered by a dict.get default): RandomState(None) is seeded from OS entropy, so searchers created with random_seed=None "
            "forwarded explicitly differ from run to run although the scheduler was given a seed",
            witness=cex.describe_path(leaks[0][1]) if leaks else None)
    # the accepted fallback: generate_random_seed() without generator only when no seed was given
    gs = P.func("syne_tune.optimizer.schedulers.random_seeds.generate_random_seed")
    dflt = gs.param_default("random_state")
    if dflt is None or U(dflt) != "np.random":
        raise AnchorError("generate_random_seed: default generator is no longer np.random; re-read rule S1")
    for f, call in ctx.all_calls_anywhere(func=gs):
        if call.args or call.keywords:
            arg = argn(call, 0) if call.args else call.keywords[0].value
            ok = "random_state" in U(arg) or "_random_state" in U(arg)
            rep.put(ok, "S1", "global_rng", f"{f.short}: generate_random_seed draws from an owned generator", f, call, U(arg))
            continue
        top = f
        while top.parent is not None:
            top = top.parent
        cfg = cfg_of(top)
        nid = [x.id for x in cfg.nodes if any(y is call for y in cfg.node_walk(x.id))]
        ok = False
        why = "the call is evaluated unconditionally"
        # the variable that receives the fallback is the one that was tested (`if s is None: s = generate_random_seed()`)
        st = getattr(call, "_parent", None)
        while st is not None and not isinstance(st, ast.stmt):
            st = getattr(st, "_parent", None)
        tgts = [U(t) for t in st.targets] if isinstance(st, ast.Assign) else []

        def is_seed(v):
            return v in tgts or "seed" in v
        if nid:
            at = ctx.facts(top).at(nid[0])
            ok = any(a[0] == "is" and a[2] == "None" and a[3] is True and is_seed(a[1]) for a in at)
            # inside a short-circuit / conditional expression the statement-level facts do not see the guard
            par = getattr(call, "_parent", None)
            if isinstance(par, (ast.BoolOp, ast.IfExp)):
                ok = False
                if isinstance(par, ast.IfExp):
                    at2 = atoms_of(par.test, par.orelse is call)
                    ok = any(a[0] == "is" and a[2] == "None" and a[3] is True and is_seed(a[1]) for a in at2)
                why = f"the fallback is selected by `{U(par)[:70]}`, a truthiness test: the legal seed 0 is treated as 'no seed'"
        rep.put(ok, "S1", "guarded_by", f"{top.short}: seed fallback generate_random_seed() only when the seed is None", top, call,
                "guarded by `<seed> is None`", why + "; the master seed then comes from the global generator although a seed was given")
        n += 1
    return n


SAMPLERS = {"sample_random_configuration", "random_config", "random_configs", "sample"}


def _under_isinstance(call, clsname):
    """the receiver of `call` is tested with isinstance(<receiver>, clsname) by an enclosing `if` whose body holds the call"""
    if not isinstance(call.func, ast.Attribute):
        return False
    recv = U(call.func.value)
    node, par = call, getattr(call, "_parent", None)
    while par is not None and not isinstance(par, (ast.FunctionDef, ast.AsyncFunctionDef)):
        if isinstance(par, ast.If) and any(node is s for s in par.body):
            for y in ast.walk(par.test):
                if isinstance(y, ast.Call) and fn_name(y) == "isinstance" and len(y.args) == 2 and U(argn(y, 0)) == recv and U(argn(y, 1)) == clsname:
                    return True
        node, par = par, getattr(par, "_parent", None)
    return False


def s2(ctx, rep):
    P = ctx.P
    sc = seeded_classes(ctx)
    n = 0
    for c in sorted(sc, key=lambda c: c.qualname):
        for m in c.methods.values():
            for x in walk_shallow(m.node, include_lambda=True):
                if not (isinstance(x, ast.Call) and fn_name(x) in SAMPLERS):
                    continue
                name = fn_name(x)
                if name == "sample":
                    # Domain.sample(...) only
                    t = ctx.R.infer(m, x.func.value) if isinstance(x.func, ast.Attribute) else None
                    dom = P.cls("Domain")
                    if not (t is not None and t.cls is not None and dom in P.mro(t.cls)) and not _under_isinstance(x, "Domain"):
                        continue
                rs = kwarg(x, "random_state")
                if rs is None and name in ("random_config", "random_configs") and x.args:
                    rs = argn(x, 0)
                if rs is None and name == "sample_random_configuration" and len(x.args) >= 2:
                    rs = argn(x, 1)
                n += 1
                ok = rs is not None and "random_state" in U(rs) and not (isinstance(rs, ast.Constant) and rs.value is None)
                rep.put(ok, "S2", "taint", f"{m.short}: {name}(...) receives the owner's generator", m, x,
                        f"random_state={U(rs) if rs is not None else None}",
                        f"`{U(x)[:70]}` is called without the seeded generator: the helper falls back to the process-global generator")
    return n


def s3(ctx, rep):
    P = ctx.P
    sc = seeded_classes(ctx)
    owned = set(sc)
    # owned helper objects of the schedulers named by the property
    for name in ("HyperbandBracketManager", "RandomSeedGenerator"):
        if P.has_cls(name):
            owned.add(P.cls(name))
    n = 0
    for c in sorted(owned, key=lambda c: c.qualname):
        for m in c.methods.values():
            for x in walk_shallow(m.node):
                if isinstance(x, ast.Call) and fn_name(x) == "RandomState":
                    n += 1
                    arg = argn(x, 0) if x.args else kwarg(x, "seed")
                    src = U(arg) if arg is not None else ""
                    if isinstance(arg, ast.Name):
                        ds = [U(d) if not isinstance(d, tuple) else U(d[1]) for d in local_defs(m, arg.id)]
                        src = src + " <- " + " | ".join(ds)
                    ok = arg is not None and any(w in src for w in ("random_seed", "master_seed", "seed_generator", "extract_random_seed"))
                    rep.put(ok, "S3", "taint", f"{m.short}: RandomState seeded from the master seed", m, x, src,
                            f"RandomState({src}) is not derived from the given random_seed / the seed generator: the stream is the same for "
                            "every seed, or unseeded")
    f = P.method("ModelBasedSearcher", "_assign_random_searcher")
    cfg = cfg_of(f)
    mk = [n_.id for n_ in cfg.nodes if any(isinstance(x, ast.Call) and fn_name(x) == "RandomSearcher" for x in cfg.node_walk(n_.id))]
    sh = [n_.id for n_ in cfg.nodes if any(isinstance(x, ast.Call) and fn_name(x) == "set_random_state" and U(argn(x, 0)) == "self.random_state"
                                            for x in cfg.node_walk(n_.id))]
    ok = bool(mk) and bool(sh) and cfg.path([s for s, l in cfg.succ[mk[0]]], cfg.exit, deleted=set(sh), skip_labels=("exc",)) is None
    rep.put(ok, "S3", "must_follow", "ModelBasedSearcher._assign_random_searcher: the internal searcher shares self.random_state", f, None, "",
            "the internal random searcher keeps its own generator (seeded with a constant): initial random configurations do not depend "
            "on the given seed")
    g = P.method("StochasticSearcher", "__init__")
    ok = any(isinstance(x, ast.Call) and fn_name(x) == "extract_random_seed" for x in walk_shallow(g.node))
    rep.put(ok, "S3", "taint", "StochasticSearcher.__init__ derives its seed through extract_random_seed", g, None, "")
    return n


ORDER_SAFE = {"sorted", "min", "max", "len", "any", "all", "sum", "set", "frozenset", "bool"}


def _elem_kind(ctx, f, e):
    """'int' / 'str' / '?' for the elements of a set-typed expression, from its add/constructor sites."""
    kinds = set()

    def of_value(g, v):
        t = ctx.R.infer(g, v)
        if t is not None and t.name in ("int", "str"):
            return t.name
        if isinstance(v, ast.Call) and isinstance(v.func, ast.Name) and v.func.id in ("int", "str", "frozenset", "tuple"):
            return {"int": "int", "str": "str"}.get(v.func.id, "str")
        if isinstance(v, ast.Name):
            p = g.param_node(v.id)
            if p is not None and p.annotation is not None:
                a = U(p.annotation)
                return "int" if a == "int" else ("str" if a == "str" else "?")
            if p is not None and g.cls is not None:
                # un-annotated parameter: look at what the callers inside the class pass
                ks = set()
                pos = [q for q in g.params if q != "self"].index(v.id)
                for h in g.cls.methods.values():
                    for nid_, call_ in ctx.calls_in(h, selfcall=g.name):
                        a_ = call_.args[pos] if len(call_.args) > pos else kwarg(call_, v.id)
                        if isinstance(a_, ast.Name):
                            pn = h.param_node(a_.id)
                            if pn is not None and pn.annotation is not None:
                                ks.add(U(pn.annotation))
                if ks == {"str"}:
                    return "str"
                if ks == {"int"}:
                    return "int"
        if isinstance(v, ast.Attribute) and v.attr == "trial_id":
            return "?"
        return "?"
    if isinstance(e, ast.BinOp):
        # set algebra: the elements are those of the left operand (a keys view: the keys of the dict)
        l = e.left
        if isinstance(l, ast.Call) and isinstance(l.func, ast.Attribute) and l.func.attr == "keys" and isinstance(l.func.value, ast.Name):
            for d in local_defs(f, l.func.value.id):
                if isinstance(d, ast.DictComp):
                    return of_value(f, d.key)
                if isinstance(d, ast.Dict) and d.keys and d.keys[0] is not None:
                    return of_value(f, d.keys[0])
            return "?"
        return _elem_kind(ctx, f, l)
    base = e
    while isinstance(base, ast.Subscript):
        base = base.value
    key = U(base)
    scope = [f]
    if key.startswith("self.") and f.cls is not None:
        scope = list(f.cls.methods.values())
    for g in scope:
        for x in walk_shallow(g.node):
            if isinstance(x, ast.Call) and fn_name(x) == "add" and U(x.func.value).startswith(key) and x.args:
                kinds.add(of_value(g, argn(x, 0)))
            if isinstance(x, ast.Assign) and U(x.targets[0]).startswith(key) and isinstance(x.value, ast.Call) and fn_name(x.value) == "set" \
                    and x.value.args:
                inner = argn(x.value, 0)
                if isinstance(inner, (ast.GeneratorExp, ast.ListComp)):
                    kinds.add(of_value(g, inner.elt))
                else:
                    # set(<expression of an annotated container type>), e.g. set(keys(...)) with keys() -> List[str]
                    ti = ctx.R.infer(g, inner)
                    el = ti.elem() if ti is not None else None
                    if el is not None and el.name in ("int", "str"):
                        kinds.add(el.name)
    if isinstance(e, ast.Call) and fn_name(e) == "set" and e.args and isinstance(argn(e, 0), (ast.GeneratorExp, ast.ListComp)):
        kinds.add(of_value(f, argn(e, 0).elt))
    if not kinds:
        return "?"
    if kinds == {"int"}:
        return "int"
    if "str" in kinds:
        return "str"
    return "?"


def _is_set_expr(ctx, f, e):
    if isinstance(e, (ast.Set, ast.SetComp)):
        return True
    # set algebra: keys-view / set combined with -, &, |, ^ gives a set
    if isinstance(e, ast.BinOp) and isinstance(e.op, (ast.Sub, ast.BitAnd, ast.BitOr, ast.BitXor)):
        def setty(x):
            return _is_set_expr(ctx, f, x) or (isinstance(x, ast.Call) and isinstance(x.func, ast.Attribute) and x.func.attr in ("keys", "items"))
        if setty(e.left) or (setty(e.right) and isinstance(e.op, (ast.BitAnd, ast.BitOr, ast.BitXor))):
            return True
    if isinstance(e, ast.Call) and isinstance(e.func, ast.Name) and e.func.id in ("set", "frozenset"):
        return True
    t = ctx.R.infer(f, e)
    if t is not None and t.name == "set":
        return True
    if isinstance(e, ast.Subscript):
        # dict of sets:  self.x[k] where self.x[k] = set() somewhere
        base = U(e.value)
        scope = list(f.cls.methods.values()) if (base.startswith("self.") and f.cls is not None) else [f]
        for g in scope:
            for x in walk_shallow(g.node):
                if isinstance(x, ast.Assign) and isinstance(x.targets[0], ast.Subscript) and U(x.targets[0].value) == base \
                        and isinstance(x.value, ast.Call) and fn_name(x.value) == "set":
                    return True
    return False


def hash_order_sites(ctx, funcs):
    """[(f, node, iterable expr, how)] iterations over set-typed expressions whose order can leak."""
    out = []
    for f in funcs:
        for x in walk_shallow(f.node, include_lambda=True):
            it = None
            how = None
            if isinstance(x, ast.For):
                it, how = x.iter, "for"
            elif isinstance(x, ast.comprehension):
                it, how = x.iter, "comprehension"
            elif isinstance(x, ast.Call) and isinstance(x.func, ast.Name) and x.func.id in ("list", "tuple", "enumerate", "iter", "next") and x.args:
                it, how = argn(x, 0), x.func.id
            elif isinstance(x, ast.Call) and fn_name(x) in ("combinations", "permutations", "product", "chain", "islice") and x.args:
                it, how = argn(x, 0), fn_name(x)
            if it is None:
                continue
            if isinstance(it, ast.Call) and isinstance(it.func, ast.Name) and it.func.id in ORDER_SAFE and it.func.id not in ("set", "frozenset"):
                continue
            if not _is_set_expr(ctx, f, it):
                continue
            # the result is consumed order-insensitively?
            par = getattr(x, "_parent", None)
            if how == "comprehension":
                comp = par
                cpar = getattr(comp, "_parent", None)
                if isinstance(comp, ast.SetComp):
                    continue    # (a dict comprehension is NOT order-free: the dict keeps the insertion order)
                if isinstance(cpar, ast.Call) and isinstance(cpar.func, ast.Name) and cpar.func.id in ORDER_SAFE:
                    continue
            if how in ("list", "tuple", "iter") and isinstance(par, ast.Call) and isinstance(par.func, ast.Name) and par.func.id in ORDER_SAFE:
                continue
            out.append((f, x, it, how))
    return out


def s4(ctx, rep, sweep=False):
    P = ctx.P
    sc = seeded_classes(ctx)
    owned = set(sc)
    for c in list(sc):
        # rung systems / bracket managers / helpers constructed by seeded classes
        for m in c.methods.values():
            for call, tg in ctx.R.calls(m):
                for t, h in tg:
                    if isinstance(t, ClassInfo) and h == "type" and t.module.name.startswith("syne_tune.optimizer"):
                        owned.add(t)
    for b in ("RungSystem",):
        owned |= ctx.down(b)
    funcs = [m for c in owned for m in c.methods.values()]
    # ... and everything they reach over type-resolved call edges (helpers such as the hyperparameter-range encoders)
    roots = [m for c in sc for m in c.methods.values()]
    for g in reachable_from(ctx, roots):
        if g not in funcs and g.module.name.startswith("syne_tune.optimizer"):
            funcs.append(g)
    n = 0
    seen_constructs = set()
    for f, node, it, how in hash_order_sites(ctx, funcs):
        kind = _elem_kind(ctx, f, it)
        construct = f"{f.short}: iteration over set `{U(it)[:50]}`"
        if construct in seen_constructs:
            continue
        seen_constructs.add(construct)
        if kind == "int":
            rep.ok("S4", "hash_order", construct, f, node, "elements are ints: iteration order does not depend on PYTHONHASHSEED")
            n += 1
            continue
        # order-insensitive loop bodies: only keyed updates / membership / asserts
        if isinstance(node, ast.For) and all(_order_free_stmt(s) for s in node.body):
            rep.ok("S4", "hash_order", construct, f, node, "loop body is order-free (keyed updates / asserts only)")
            n += 1
            continue
        if kind == "?":
            rep.info("S4", "hash_order", construct, f, node, f"element type undecided ({how}); not judged")
            continue
        if _consumed_as_set(ctx, f, node):
            rep.ok("S4", "hash_order", construct, f, node, "the list is stored in the state and read back only through set(...)")
            n += 1
            continue
        n += 1
        rep.bad("S4", "hash_order", construct, f, node,
                f"{how} over a set whose elements are (tuples of) strings, not wrapped in sorted(): the order depends on PYTHONHASHSEED, "
                "so two fresh processes with the same seed take different decisions")
    # positive example the rule must accept
    ou = P.func("syne_tune.optimizer.schedulers.searchers.bayesopt.gpautograd.optimization_utils._inplace_param_dict_randomization")
    ok = any(isinstance(x, ast.For) and isinstance(x.iter, ast.Call) and fn_name(x.iter) == "sorted" for x in walk_shallow(ou.node))
    rep.put(ok, "S4", "hash_order", "_inplace_param_dict_randomization iterates sorted(...) when drawing restarts", ou, None, "",
            "optimiser restarts are randomised in dict/hash order: the draws are assigned to parameters in a process-dependent order")
    return n


def _consumed_as_set(ctx, f, node):
    """list(<set>) written under a state key that the class's restore method wraps in set(...) again"""
    par = getattr(node, "_parent", None)
    key = None
    if isinstance(par, ast.Dict):
        for k, v in zip(par.keys, par.values):
            if v is node and isinstance(k, ast.Constant):
                key = k.value
    if key is None or f.cls is None:
        return False
    for m in f.cls.methods.values():
        if m is f:
            continue
        for x in walk_shallow(m.node):
            if isinstance(x, ast.Call) and isinstance(x.func, ast.Name) and x.func.id in ("set", "frozenset") and x.args and \
                    isinstance(argn(x, 0), ast.Subscript) and isinstance(argn(x, 0).slice, ast.Constant) and argn(x, 0).slice.value == key:
                return True
    return False


def _order_free_stmt(s):
    if isinstance(s, (ast.Assert, ast.Pass)):
        return True
    if isinstance(s, ast.Assign) and all(isinstance(t, ast.Subscript) for t in s.targets):
        return True
    if isinstance(s, ast.Expr) and isinstance(s.value, ast.Call) and fn_name(s.value) in ("add", "discard", "update"):
        return True
    if isinstance(s, ast.If):
        return all(_order_free_stmt(x) for x in s.body + s.orelse)
    return False


def s5(ctx, rep):
    P = ctx.P
    sc = seeded_classes(ctx)
    bad = []
    n = 0
    for c in sorted(sc, key=lambda c: c.qualname):
        for m in c.methods.values():
            n += 1
            for x in walk_shallow(m.node):
                if isinstance(x, ast.Global):
                    bad.append((m, x, "global statement"))
                if isinstance(x, (ast.Assign, ast.AugAssign)):
                    for t in (x.targets if isinstance(x, ast.Assign) else [x.target]):
                        b = t
                        while isinstance(b, ast.Subscript):
                            b = b.value
                        if isinstance(b, ast.Attribute) and isinstance(b.value, ast.Name) and b.value.id in ("cls", c.name):
                            bad.append((m, x, f"class attribute write {U(t)}"))
            for d in m.node.args.defaults + [k for k in m.node.args.kw_defaults if k is not None]:
                if isinstance(d, (ast.List, ast.Dict, ast.Set)) or (isinstance(d, ast.Call) and isinstance(d.func, ast.Name) and d.func.id[:1].isupper()):
                    bad.append((m, d, f"mutable default argument {U(d)[:40]}"))
    for m, x, what in bad:
        rep.bad("S5", "shared_state", f"{m.short}: {what}", m, x, "state shared between instances created in one process")
    rep.put(not bad, "S5", "shared_state", "seeded classes keep no state in module globals, class attributes or mutable defaults", None, None,
            f"{n} methods of {len(sc)} classes scanned")


def s7_defaults(ctx, rep):
    """a second experiment in the same process starts from the same defaults as the first: the module-level option tables are never
    written to - neither directly, nor through check_and_merge_defaults, which receives them as `default_options`"""
    from .common import _MUTATORS
    P = ctx.P
    f = P.func("syne_tune.optimizer.schedulers.searchers.utils.default_arguments.check_and_merge_defaults")
    dp = "default_options"
    if dp not in f.params:
        raise AnchorError("check_and_merge_defaults: parameter `default_options` not found")
    owned = {dp}
    for x in walk_shallow(f.node, include_lambda=True):
        if isinstance(x, (ast.For, ast.comprehension)) and any(isinstance(y, ast.Name) and y.id == dp for y in ast.walk(x.iter)):
            for t in ast.walk(x.target):
                if isinstance(t, ast.Name) and fn_name(x.iter) in ("items", "values"):
                    owned.add(t.id)
    # the value element of `for key, value in default_options.items()` (keys are immutable strings)
    bad = []
    for x in walk_shallow(f.node):
        if isinstance(x, ast.Call) and isinstance(x.func, ast.Attribute) and x.func.attr in _MUTATORS and isinstance(x.func.value, ast.Name) and x.func.value.id in owned:
            bad.append(x)
        if isinstance(x, (ast.Assign, ast.AugAssign, ast.Delete)):
            for t in (x.targets if not isinstance(x, ast.AugAssign) else [x.target]):
                if isinstance(t, ast.Subscript) and isinstance(t.value, ast.Name) and t.value.id in owned:
                    bad.append(x)
    rep.put(not bad, "S5", "aliasing", "check_and_merge_defaults leaves the table of defaults (and its entries) as they are", f, bad[0] if bad else None, f"owned names {sorted(owned)}",
            f"`{U(bad[0])[:60] if bad else ''}` writes into the defaults it was given - a module-level table: what one scheduler's options put there is the default of "
            "every scheduler created afterwards in the process, so two runs with equal arguments and seed differ depending on what ran before")
    n = 0
    for g in sorted(P.functions.values(), key=lambda g_: g_.qualname):
        if not g.module.relpath.startswith("syne_tune/optimizer/"):
            continue
        consts = {t.id for st in g.module.tree.body if isinstance(st, (ast.Assign, ast.AnnAssign)) for t in (st.targets if isinstance(st, ast.Assign) else [st.target])
                  if isinstance(t, ast.Name) and t.id.lstrip("_").isupper() and isinstance(getattr(st, "value", None), (ast.Dict, ast.Set, ast.List))}
        if not consts:
            continue
        n += 1
        for x in walk_shallow(g.node):
            hit = None
            if isinstance(x, ast.Call) and isinstance(x.func, ast.Attribute) and x.func.attr in _MUTATORS and isinstance(x.func.value, ast.Name) and x.func.value.id in consts:
                hit = x
            if isinstance(x, (ast.Assign, ast.AugAssign, ast.Delete)):
                for t in (x.targets if not isinstance(x, ast.AugAssign) else [x.target]):
                    if isinstance(t, ast.Subscript) and isinstance(t.value, ast.Name) and t.value.id in consts:
                        hit = x
            if hit is not None and not any(isinstance(d_, (ast.Assign,)) and any(isinstance(t_, ast.Name) and t_.id in consts for t_ in d_.targets) for d_ in walk_shallow(g.node)):
                rep.bad("S5", "aliasing", f"{g.short}: module-level option tables are not modified", g, hit,
                        f"`{U(hit)[:60]}` changes a module-level table at run time: later experiments in the process start from other defaults")
    if n < 5:
        raise AnchorError("module-level option tables of the optimizer package not found")


def run(ctx, rep, tier="quick"):
    s1(ctx, rep)
    s2(ctx, rep)
    s3(ctx, rep)
    s4(ctx, rep, tier == "thorough")
    s5(ctx, rep)
    s7_defaults(ctx, rep)
    # S6 simulated experiments: a fixed backend seed (0 included) is used for every trial, a per-trial seed is drawn once
    # and kept (shared with C10-S3)
    from . import c10
    sub = type(rep)(rep.prop)
    c10.s3(ctx, sub)
    for i in sub.items:
        i.clause = "S6"
        rep.items.append(i)
