"""C08 - GP posterior, likelihood and incremental updates equal the dense definition (structural clauses only)."""
import ast

from ..core.model import AnchorError
from ..core.cfg import walk_shallow, cfg_of
from ..core.facts import U
from ..engine import argn, fn_name, kwarg, local_defs, returns_of, vars_assigned_from, var_from_call, flows_into
from ..kinds.taint import tainted_returns
from ..kinds import shapes

EXPLANATION = (
    "Decides only the clauses of C08 that are visible in the shape of the code: S1 variance floor - every variance / new "
    "Cholesky diagonal leaves through maximum(., MIN_*) before it is returned or its square root is taken; S2 fantasy "
    "columns share one covariance - the variance outputs and the Cholesky factor have no data dependence on the targets / "
    "the prediction matrix (non-interference), and the prediction matrix is obtained from the targets by one triangular "
    "solve with that factor; S3 the incremental update appends exactly the target it sampled and reuses the column it "
    "computed; S4 symbolic shape typing of the dense formulas with pairwise distinct symbolic dimensions (n data points, "
    "d features, m target columns, t test points): every matmul / solve / broadcast conforms and every function returns the "
    "documented shape - which rejects transposition and axis slips that square or single-column test cases hide; S5 the input-warping wrapper evaluates the wrapped kernel at warped "
    "inputs on every path of forward and diagonal (the diagonal may see the raw input only on the edge where the inner "
    "diagonal does not depend on it), so that diagonal(X) and diag(K(X, X)) are the same function; S6 joint samples are mean + L z: the lower Cholesky factor "
    "of the posterior covariance multiplies the standard-normal draws from the left (orientation typing L / U / N - the factor "
    "is square, so shape typing cannot see a missing transpose); S7 the jitter search adds diagonal-typed terms only to the "
    "matrix (diag / eye * c / a helper returning one): a scalar term would be broadcast to every entry; S8 the log-determinant "
    "of the likelihood is accumulated in the log domain (sum of logs of the Cholesky diagonal, never the log of their product, which leaves "
    "the double range for a few hundred points). "
    "NOT decided (the bulk of C08): that means, variances, likelihood values and updates equal the textbook expressions - "
    "a wrong sign, factor or a mathematically wrong but shape-correct formula is invisible to these rules.")

FLOOR = {"S1": 3, "S2": 4, "S3": 8, "S4": 5, "S5": 2, "S6": 1, "S7": 1, "S8": 1}

MODP = "syne_tune.optimizer.schedulers.searchers.bayesopt.gpautograd.posterior_utils."


def _floor_calls(f, const):
    return [x for x in walk_shallow(f.node) if isinstance(x, ast.Call) and fn_name(x) == "maximum" and const in U(x)]


def s1(ctx, rep):
    P = ctx.P
    f = P.func(MODP + "predict_posterior_marginals")
    # the second returned value is floored
    r = returns_of(f)
    ok = len(r) == 1 and isinstance(r[0].value, ast.Tuple) and len(r[0].value.elts) == 2
    if ok:
        v = r[0].value.elts[1]
        inner = [x for x in ast.walk(v) if isinstance(x, ast.Call) and fn_name(x) == "maximum"]
        ok = len(inner) == 1 and "MIN_POSTERIOR_VARIANCE" in U(inner[0]) and \
            flows_into(f, argn(inner[0], 0), lambda y: isinstance(y, ast.Call) and fn_name(y) == "diagonal")
    rep.put(ok, "S1", "taint", "predict_posterior_marginals: variances returned through maximum(., MIN_POSTERIOR_VARIANCE)", f, r[0] if r else None, "",
            "a predictive variance can be returned without the floor: round-off makes it negative / zero and the acquisition functions "
            "divide by its square root")
    g = P.func(MODP + "sample_and_cholesky_update")
    sq = [x for x in walk_shallow(g.node) if isinstance(x, ast.Call) and fn_name(x) == "sqrt"]
    ok = len(sq) == 1 and isinstance(argn(sq[0], 0), ast.Call) and fn_name(argn(sq[0], 0)) == "maximum" and "MIN_POSTERIOR_VARIANCE" in U(argn(sq[0], 0))
    rep.put(ok, "S1", "taint", "sample_and_cholesky_update: sqrt only of the floored variance", g, sq[0] if sq else None, "")
    h = P.func(MODP + "cholesky_update")
    sq = [x for x in walk_shallow(h.node) if isinstance(x, ast.Call) and fn_name(x) == "sqrt"]
    ok = len(sq) == 1
    if ok:
        a = argn(sq[0], 0)
        ds = [a] if not isinstance(a, ast.Name) else [d for d in local_defs(h, a.id) if not isinstance(d, tuple)]
        ok = len(ds) == 1 and isinstance(ds[0], ast.Call) and fn_name(ds[0]) == "maximum" and "MIN_CHOLESKY_DIAGONAL_VALUE" in U(ds[0])
    rep.put(ok, "S1", "taint", "cholesky_update: the new diagonal entry is the sqrt of a value floored at MIN_CHOLESKY_DIAGONAL_VALUE**2", h,
            sq[0] if sq else None, "")


def _component_sources(f, call, idx, _depth=0):
    """for `a, b = helper(...)` with helper a function of the same module that returns one tuple display: the argument
    expressions component idx of the result depends on (None: unknown callee - every argument counts)"""
    if _depth > 2 or not isinstance(call, ast.Call) or not isinstance(call.func, ast.Name):
        return None
    h = f.module.functions.get(call.func.id) if hasattr(f.module, "functions") else None
    if h is None or any(isinstance(a, ast.Starred) for a in call.args) or any(k.arg is None for k in call.keywords):
        return None
    rets = returns_of(h)
    if len(rets) != 1 or not isinstance(rets[0].value, ast.Tuple) or idx >= len(rets[0].value.elts):
        return None
    used = {y.id for y in ast.walk(rets[0].value.elts[idx]) if isinstance(y, ast.Name)}
    params = list(h.params)
    out = []
    for i, p_ in enumerate(params):
        if _depends(h, used | ({p_} & used), [p_], _depth + 1) or p_ in used:
            a = argn(call, i) if i < len(call.args) else kwarg(call, p_)
            if a is not None:
                out.append(a)
    return out


def _depends(f, target_names, sources, _depth=0):
    """names in target_names whose value (transitively, flow-insensitively) depends on a source name; the components of a
    tuple returned by a helper of the same module are tracked separately"""
    dep = {s: True for s in sources}
    changed = True
    names = {x.id for x in ast.walk(f.node) if isinstance(x, ast.Name)}
    while changed:
        changed = False
        for nm in names:
            if dep.get(nm):
                continue
            for d in local_defs(f, nm):
                if isinstance(d, tuple) and d[0] == "unpack":
                    srcs = _component_sources(f, d[1], d[2], _depth)
                    exprs = srcs if srcs is not None else [d[1]]
                else:
                    exprs = [d[1] if isinstance(d, tuple) else d]
                if any(isinstance(e, ast.AST) and any(isinstance(y, ast.Name) and dep.get(y.id) for y in ast.walk(e)) for e in exprs):
                    dep[nm] = True
                    changed = True
    return [t for t in target_names if dep.get(t)]


def s2(ctx, rep):
    P = ctx.P
    f = P.func(MODP + "predict_posterior_marginals")
    r = returns_of(f)[0].value.elts[1]
    used = {x.id for x in ast.walk(r) if isinstance(x, ast.Name)}
    bad = _depends(f, used, ["pred_mat"])
    rep.put(not bad, "S2", "noninterference", "predict_posterior_marginals: variances do not depend on pred_mat (targets)", f, r, "",
            f"the returned variances depend on the prediction matrix through {bad}: fantasy columns would no longer share one covariance")
    m = returns_of(f)[0].value.elts[0]
    used = {x.id for x in ast.walk(m) if isinstance(x, ast.Name)}
    ok = bool(_depends(f, used, ["pred_mat"]))
    rep.put(ok, "S2", "noninterference", "predict_posterior_marginals: means depend on pred_mat", f, m, "")
    g = P.func(MODP + "cholesky_computations")
    cr = [r.value for r in returns_of(g) if isinstance(r.value, ast.Tuple) and len(r.value.elts) == 2]
    if not cr:
        raise AnchorError("cholesky_computations does not return (factor, prediction matrix)")
    from ..engine import deref
    cfn, pmn = U(cr[0].elts[0]), U(cr[0].elts[1])
    bad = _depends(g, [cfn], ["targets"])
    rep.put(not bad, "S2", "noninterference", "cholesky_computations: the Cholesky factor does not depend on the targets", g, None, "",
            "the factor depends on the targets: independent target columns would interact")
    pm = [deref(g, cr[0].elts[1])]
    ok = isinstance(pm[0], ast.Call) and fn_name(pm[0]) == "solve_triangular" and U(argn(pm[0], 0)) == cfn and \
        U(kwarg(pm[0], "lower")) == "True"
    if ok:
        cy = [deref(g, argn(pm[0], 1))]
        ok = isinstance(cy[0], ast.BinOp) and isinstance(cy[0].op, ast.Sub) and U(cy[0].left) == "targets" and "mean(features)" in U(cy[0].right)
    rep.put(ok, "S2", "agreement", "cholesky_computations: P = solve_triangular(L, Y - mean(X), lower=True), column by column", g, None, "")
    h = P.func(MODP + "cholesky_update")
    sqv = vars_assigned_from(h, lambda v: any(isinstance(x, ast.Call) and fn_name(x) == "sqrt" for x in ast.walk(v)))
    mxv = vars_assigned_from(h, lambda v: isinstance(v, ast.Call) and fn_name(v) == "maximum")
    bad = _depends(h, sqv + mxv, ["target", "pred_mat"])
    rep.put(not bad, "S2", "noninterference", "cholesky_update: the new diagonal entry does not depend on the targets", h, None, "", str(bad))


def s3(ctx, rep):
    P = ctx.P
    g = P.func(MODP + "sample_and_cholesky_update")
    call = [x for x in walk_shallow(g.node) if isinstance(x, ast.Call) and fn_name(x) == "cholesky_update"]
    lvn = var_from_call(g, "_compute_lvec")
    r = returns_of(g)
    tgn = U(r[0].value.elts[-1]) if len(r) == 1 and isinstance(r[0].value, ast.Tuple) else "?"
    ok = len(call) == 1 and lvn is not None and U(kwarg(call[0], "lvec")) == lvn and U(kwarg(call[0], "target")) == tgn and \
        U(kwarg(call[0], "feature")) == "feature" and U(kwarg(call[0], "chol_fact")) == "chol_fact" and U(kwarg(call[0], "pred_mat")) == "pred_mat"
    tdef = [d for d in local_defs(g, tgn) if not isinstance(d, tuple)]
    ok = ok and len(tdef) == 1 and any(isinstance(x, ast.Call) and fn_name(x) == "multiply" for x in ast.walk(tdef[0]))
    rep.put(ok, "S3", "agreement", "sample_and_cholesky_update: updates with the column it computed and the target it sampled, and returns that target", g,
            call[0] if call else None, "", "the state is updated with a different target (or column) than the one sampled and returned")
    from ..engine import deref
    fn = [deref(g, r[0].value.elts[2])] if len(r) == 1 and isinstance(r[0].value, ast.Tuple) and len(r[0].value.elts) >= 3 else []
    ok = len(fn) == 1 and U(fn[0]).replace(" ", "") == "anp.concatenate([features,feature],axis=0)"
    rep.put(ok, "S3", "agreement", "sample_and_cholesky_update: the new feature row is appended last", g, None, "")


def s3b(ctx, rep):
    """sibling calls inside posterior_utils forward a parameter under its own name unchanged"""
    P = ctx.P
    mod = P.modules[MODP[:-1]]
    n = 0
    for f in mod.functions.values():
        for x in walk_shallow(f.node):
            if not (isinstance(x, ast.Call) and isinstance(x.func, ast.Name) and x.func.id in mod.functions):
                continue
            g = mod.functions[x.func.id]
            ps = [p_ for p_ in g.params]
            pairs = [(ps[i], a, False) for i, a in enumerate(x.args) if i < len(ps) and not isinstance(a, ast.Starred)] + \
                    [(kw_.arg, kw_.value, True) for kw_ in x.keywords if kw_.arg]
            for pn, a, by_name in pairs:
                if pn not in f.params or pn not in g.params:
                    continue
                if pn == "kernel" and "covariance_scale" in g.params:
                    continue        # this callee takes the kernel and its covariance scale separately
                if not by_name and not (isinstance(a, ast.Name) and a.id in f.params):
                    continue
                n += 1
                ok = isinstance(a, ast.Name) and a.id == pn
                rep.put(ok, "S3", "agreement", f"{f.name} → {g.name}: parameter `{pn}` forwarded unchanged", f, a, "",
                        f"`{pn}={U(a)}`: {g.name} receives something other than the caller's own `{pn}` (e.g. the kernel "
                        "without its covariance scale): the incremental update no longer agrees with recomputing from scratch")
    return n


def s4(ctx, rep):
    P = ctx.P
    checks = shapes.check_posterior_utils(ctx)
    for name, ok, detail, node, f in checks:
        rep.put(ok, "S4", "shape", f"{name}: symbolic shapes conform (n, d, m, t pairwise distinct)", f, node, detail if ok else "",
                f"shape error with symbolic dimensions: {detail}. Square or single-column test data hide it; with n != t (or m > 1) the "
                "dense formula is not the one computed")


def s5(ctx, rep):
    """wrapper kernel: K_warped(x, x') = K(w(x), w(x')) and its diagonal agree - the wrapped kernel is evaluated at
    warped inputs on every path, except that its diagonal may get the raw input where it does not depend on it."""
    from ..core.facts import atoms_of
    P = ctx.P
    c = P.cls("WarpedKernel")
    EXEMPT = ("truth", "self.kernel.diagonal_depends_on_X()", False)
    n = 0
    for mname in ("forward", "diagonal"):
        f = c.methods[mname]
        cfg = cfg_of(f)
        sites = [(nd.id, x) for nd in cfg.nodes for x in cfg.node_walk(nd.id)
                 if isinstance(x, ast.Call) and x.args and (U(x.func) == "self.kernel" or U(x.func) == "self.kernel.diagonal")]
        if not sites:
            raise AnchorError(f"WarpedKernel.{mname}: call of the wrapped kernel not found")

        def ok_value(e, env, facts):
            """is e a warped value (or, for the diagonal, exempt under the facts of its arm)?"""
            if isinstance(e, ast.Call) and U(e.func) == "self._apply_warpings":
                return True
            if isinstance(e, ast.Name):
                return env.get(e.id, False) or (mname == "diagonal" and EXEMPT in facts)
            if isinstance(e, ast.IfExp):
                return ok_value(e.body, env, facts | atoms_of(e.test, True)) and ok_value(e.orelse, env, facts | atoms_of(e.test, False))
            return mname == "diagonal" and EXEMPT in facts

        for nid, call in sites:
            bad = []

            def walk(node, env, facts, seen):
                if node == nid:
                    for a in call.args:
                        if not ok_value(a, env, facts):
                            bad.append((U(a), sorted(map(str, facts))))
                    return
                nd = cfg.nodes[node]
                if nd.kind == "stmt" and isinstance(nd.ast, ast.Assign) and len(nd.ast.targets) == 1 and isinstance(nd.ast.targets[0], ast.Name):
                    env = dict(env)
                    env[nd.ast.targets[0].id] = ok_value(nd.ast.value, env, facts)
                for s_, l in cfg.succ[node]:
                    if s_ in seen or l == "exc":
                        continue
                    f2 = facts | atoms_of(l[1], l[2]) if isinstance(l, tuple) and l[0] == "cond" else facts
                    walk(s_, env, f2, seen | {s_})
            walk(cfg.entry, {}, frozenset(), {cfg.entry})
            n += 1
            rep.put(not bad, "S5", "agreement", f"WarpedKernel.{mname}: the wrapped kernel is evaluated at warped inputs on every path", f, call,
                    "arguments come from self._apply_warpings(...)" + (" (raw input only where the inner diagonal does not depend on X)" if mname == "diagonal" else ""),
                    f"on a path with {bad[0][1] if bad else ''} the argument `{bad[0][0] if bad else ''}` reaches the wrapped kernel unwarped: "
                    "diagonal(X) != diag(K(X, X)), predictive variances and the incremental update no longer equal the dense definition")
    return n


def s6(ctx, rep):
    """joint samples are mean + L z with L the LOWER Cholesky factor of the posterior covariance (cov = L L^T): in every
    product of the factor with the standard-normal draws the factor is on the left as it is, or on the right transposed.
    A square factor hides the slip from shape typing."""
    from ..engine import deref, flows_into
    P = ctx.P
    f = P.func(MODP + "sample_posterior_joint")

    def orient(e, depth=4):
        """'L' / 'U' if e is the Cholesky factor / its transpose, 'N' / 'NT' if it is (the transpose of) the normal draws"""
        e0 = e
        e = deref(f, e)
        if isinstance(e, ast.Call) and fn_name(e) == "cholesky_factorization":
            return "L"
        if isinstance(e, ast.Call) and fn_name(e) == "transpose" and e.args and depth > 0:
            o = orient(argn(e, 0), depth - 1)
            return {"L": "U", "U": "L", "N": "NT", "NT": "N"}.get(o)
        if isinstance(e, ast.Attribute) and e.attr == "T" and depth > 0:
            o = orient(e.value, depth - 1)
            return {"L": "U", "U": "L", "N": "NT", "NT": "N"}.get(o)
        if flows_into(f, e0, lambda y: isinstance(y, ast.Call) and fn_name(y) == "normal") and \
                not flows_into(f, e0, lambda y: isinstance(y, ast.Call) and fn_name(y) == "cholesky_factorization"):
            return "N"
        return None
    n = 0
    for x in walk_shallow(f.node):
        a = b = None
        if isinstance(x, ast.Call) and fn_name(x) in ("dot", "matmul") and len(x.args) == 2:
            a, b = x.args
        elif isinstance(x, ast.BinOp) and isinstance(x.op, ast.MatMult):
            a, b = x.left, x.right
        if a is None:
            continue
        oa, ob = orient(a), orient(b)
        if {oa, ob} & {"L", "U"} and {oa, ob} & {"N", "NT"}:
            n += 1
            ok = (oa, ob) in (("L", "N"), ("NT", "U"))
            rep.put(ok, "S6", "agreement", "sample_posterior_joint: samples = L z (lower factor on the left, or z^T L^T)", f, x, f"{oa} · {ob}",
                    f"`{U(x)[:80]}` multiplies {oa} · {ob}: the samples have covariance L^T L instead of L L^T = the posterior covariance "
                    "(the factor is square, so every shape still fits; means are unaffected)")
    if n != 1:
        raise AnchorError(f"sample_posterior_joint: {n} products of the Cholesky factor with the normal draws found (1 confirmed)")


def s7(ctx, rep):
    """the jitter search changes the diagonal only: in AddJitterOp the matrix is summed only with DIAG-typed terms
    (diag(v), eye(n) * c, a local helper that returns one) - a scalar term would be broadcast to every entry"""
    P = ctx.P
    f = P.func("syne_tune.optimizer.schedulers.searchers.bayesopt.gpautograd.custom_op.AddJitterOp")
    # the matrix: the reshaped input
    mats = set()
    for x in walk_shallow(f.node):
        if isinstance(x, ast.Assign):
            tg, vs = x.targets[0], x.value
            pairs = list(zip(tg.elts, vs.elts)) if isinstance(tg, ast.Tuple) and isinstance(vs, ast.Tuple) and len(tg.elts) == len(vs.elts) else [(tg, vs)]
            for t_, v_ in pairs:
                if isinstance(t_, ast.Name) and isinstance(v_, ast.Call) and fn_name(v_) == "reshape":
                    mats.add(t_.id)
    if not mats:
        raise AnchorError("AddJitterOp: the reshaped input matrix not found")

    def is_diag(e, depth=3):
        if isinstance(e, ast.Call) and fn_name(e) in ("diag", "eye", "identity", "diagflat"):
            return True
        if isinstance(e, ast.BinOp) and isinstance(e.op, ast.Mult):
            return is_diag(e.left, depth) or is_diag(e.right, depth)
        if isinstance(e, ast.Call) and isinstance(e.func, ast.Name) and e.func.id in f.nested and depth > 0:
            h = f.nested[e.func.id]
            rs = returns_of(h)
            return bool(rs) and all(r.value is not None and is_diag(r.value, depth - 1) for r in rs)
        if isinstance(e, ast.Name) and depth > 0:
            ds = [d for d in local_defs(f, e.id) if not isinstance(d, tuple)]
            return bool(ds) and all(is_diag(d, depth - 1) for d in ds)
        return False

    def terms(e):
        if isinstance(e, ast.BinOp) and isinstance(e.op, ast.Add):
            return terms(e.left) + terms(e.right)
        return [e]
    n = 0
    for x in walk_shallow(f.node, include_lambda=True):
        if isinstance(x, ast.BinOp) and isinstance(x.op, ast.Add) and not (isinstance(getattr(x, "_parent", None), ast.BinOp)
                                                                              and isinstance(x._parent.op, ast.Add)):
            ts = terms(x)
            if not any(isinstance(t, ast.Name) and t.id in mats for t in ts):
                continue
            n += 1
            bad = [t for t in ts if not (isinstance(t, ast.Name) and t.id in mats) and not is_diag(t)]
            rep.put(not bad, "S7", "shape", "AddJitterOp: the matrix is summed with diagonal terms only", f, x, U(x)[:80],
                    f"`{U(bad[0]) if bad else ''}` in `{U(x)[:80]}` is not a diagonal matrix: a scalar (or full) term is added to every entry, the "
                    "off-diagonal covariances change and the factor is no longer that of K + sigma^2 I")
    if n < 1:
        raise AnchorError("AddJitterOp: no sum involving the input matrix found")


def s8(ctx, rep):
    """the log-determinant is accumulated in the log domain: log is applied to the diagonal entries and the logs are summed.
    `log(prod(diag L))` is the same number on paper and leaves the double range (-> +-inf) once n times log L_ii exceeds
    about 700 in magnitude - small noise with near-duplicate inputs, or a few hundred points"""
    from ..engine import deref
    P = ctx.P
    f = P.func(MODP + "negative_log_marginal_likelihood")
    cf = f.params[0]
    n = 0
    for x in walk_shallow(f.node):
        if isinstance(x, ast.Call) and fn_name(x) in ("log", "log2", "log10", "log1p") and x.args:
            a = deref(f, argn(x, 0))
            inner = [y for y in ast.walk(a) if isinstance(y, ast.Name) and y.id == cf]
            for y in list(ast.walk(a)):
                if isinstance(y, ast.Name) and y.id != cf:
                    d = deref(f, y)
                    inner += [z for z in ast.walk(d) if isinstance(z, ast.Name) and z.id == cf]
            if not inner:
                continue
            n += 1
            prods = [y for y in ast.walk(a) if isinstance(y, ast.Call) and fn_name(y) in ("prod", "cumprod", "det", "reduce")]
            par, summed = getattr(x, "_parent", None), False
            while par is not None and not isinstance(par, ast.stmt):
                if isinstance(par, ast.Call) and fn_name(par) in ("sum", "nansum", "trace"):
                    summed = True
                par = getattr(par, "_parent", None)
            if not summed:      # the log may be bound to a local that is summed afterwards
                st = par
                if isinstance(st, ast.Assign) and len(st.targets) == 1 and isinstance(st.targets[0], ast.Name):
                    v = st.targets[0].id
                    summed = any(isinstance(c_, ast.Call) and fn_name(c_) in ("sum", "nansum") and any(isinstance(z, ast.Name) and z.id == v for z in ast.walk(c_))
                                 for c_ in walk_shallow(f.node))
            rep.put(not prods and summed, "S8", "agreement", "negative_log_marginal_likelihood: the log-determinant is a sum of logs of the diagonal", f, x,
                    U(x)[:80], f"`{U(x)[:80]}`: " + ("the diagonal entries are multiplied before the log is taken" if prods else "the logs of the diagonal are not summed") +
                    " - the product of n diagonal entries under- or overflows long before its logarithm does, the criterion becomes +-inf")
    if n < 1:
        raise AnchorError("negative_log_marginal_likelihood: no logarithm of the Cholesky diagonal found")


def s9(ctx, rep):
    """a fit always ends with posterior states computed from the data it was given: `_recompute_states(data)` closes every normal
    path of fit - also when every optimisation restart failed (the parameters were reset / restored, the data is new)"""
    P = ctx.P
    n = 0
    for c in [P.cls("GaussianProcessOptimizeModel")]:       # the model the property anchors in; MCMC / HyperTune variants assemble their states differently
        f = c.methods.get("fit")
        if f is None or all(isinstance(s_, (ast.Raise, ast.Pass, ast.Expr)) for s_ in f.node.body):
            continue
        n += 1
        cfg = cfg_of(f)
        dp = f.params[1]
        marks = {nd.id for nd in cfg.nodes for x in cfg.node_walk(nd.id) if isinstance(x, ast.Call) and fn_name(x) in ("_recompute_states", "recompute_states")
                 and argn(x, 0) is not None and U(argn(x, 0)) == dp}
        ok = bool(marks) and cfg.path([cfg.entry], cfg.exit, deleted=marks, skip_labels=("exc",)) is None
        rep.put(ok, "S3", "must_follow", f"{c.name}.fit: the posterior states are recomputed from the data given to fit on every path", f, None, "",
                "fit can return without recomputing the posterior states: predictions come from the previous fit's data (and factorisation) combined with "
                "the current parameters - not the posterior of anything")
    if n < 1:
        raise AnchorError("no fit method of a GaussianProcessModel subclass found")


def s7b_jitter_series(ctx, rep, clause="S7"):
    """the jitter series of AddJitterOp is  0, j0, j0 * g, j0 * g^2, ... : after the first failure the initial jitter is tried as it
    is; the growth factor is applied only from the second failure on (`jitter == 0` selects between the two)"""
    from .common import dom_guard
    f = ctx.P.func("syne_tune.optimizer.schedulers.searchers.bayesopt.gpautograd.custom_op.AddJitterOp")
    cfg = cfg_of(f)
    from ..engine import canon_text
    # the jitter variable, by role: the local that is updated with the growth factor (a parameter of the operator)
    jv = sorted({U(n.ast.targets[0]) for n in cfg.nodes if n.kind == "stmt" and isinstance(n.ast, ast.Assign) and isinstance(n.ast.targets[0], ast.Name)
                 and "jitter_growth" in canon_text(f, n.ast.value)})
    if len(jv) != 1:
        raise AnchorError("AddJitterOp: the local that is grown by jitter_growth is not identified")
    jv = jv[0]
    asg = [n for n in cfg.nodes if n.kind == "stmt" and isinstance(n.ast, ast.Assign) and U(n.ast.targets[0]) == jv
           and not (isinstance(n.ast.value, ast.Constant))]
    grow = [n for n in asg if "jitter_growth" in canon_text(f, n.ast.value)]
    init = [n for n in asg if "initial_jitter_factor" in canon_text(f, n.ast.value) and n not in grow]
    zero = lambda a, truth: a[0] == "eq" and a[3] is truth and jv in (a[1], a[2]) and ({a[1], a[2]} & {"0.0", "0"})
    ok = bool(grow) and bool(init) and all(any(zero(a, False) for a in dom_guard(ctx, f, n.id)) for n in grow) and \
        all(any(zero(a, True) for a in dom_guard(ctx, f, n.id)) for n in init)
    rep.put(ok, clause, "guarded_by", "AddJitterOp: first retry with the initial jitter, growth factor only from the second failure on", f,
            (grow or asg)[0].ast, "", "the growth factor is applied to the first retry as well (or the initial jitter is never tried as it is): the matrix "
            "that is factorised carries ten times the minimal documented jitter - predictive variances and the likelihood are off")


def run(ctx, rep, tier="quick"):
    s7b_jitter_series(ctx, rep)
    s1(ctx, rep)
    s2(ctx, rep)
    s3(ctx, rep)
    s3b(ctx, rep)
    s4(ctx, rep)
    s5(ctx, rep)
    s6(ctx, rep)
    s7(ctx, rep)
    s8(ctx, rep)
    s9(ctx, rep)
