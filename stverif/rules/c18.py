"""C18 - metrics reported by a training script arrive unchanged at the tuner."""
import ast

from ..core.model import AnchorError, FuncInfo
from ..core.cfg import walk_shallow, cfg_of
from ..core.facts import U
from ..engine import argn, fn_name, kwarg, local_defs, returns_of, const_str, vars_assigned_from

EXPLANATION = (
    "Decides structural clauses of C18: S1 writer/reader agreement of the line format - the literal text the reporter's "
    "f-string prints before the payload equals the literal prefix of the regular expression the parser searches for "
    "(regex parsed to its AST), both built from the same tag constant, with exactly one capture group over a JSON object that "
    "cannot span lines, parsed by json.loads in findall order; S2 the payload is json.dumps without indent, printed "
    "newline-terminated; S3 the reserved-namespace assert precedes every store of an st_ key and the print; S4 the report "
    "counter is read then incremented exactly once per report and is definitely initialised by the constructor; S5 the "
    "json `default=` hook returns a converted value or raises TypeError on every path (no fall-through to None), and the "
    "size assert precedes returning the string. NOT decided: foreign output containing '}' after a report on the same line; "
    "numeric equality of converted numpy scalars.")

FLOOR = {"S1": 6, "S2": 3, "S3": 2, "S4": 3, "S5": 2}


def fold_str(ctx, f, e):
    """Constant-fold a string expression (literals, +, module constants, f-strings with constant parts).
    Placeholders that are not constant become the marker \\x00."""
    if isinstance(e, ast.Constant) and isinstance(e.value, str):
        return e.value
    if isinstance(e, ast.BinOp) and isinstance(e.op, ast.Add):
        a, b = fold_str(ctx, f, e.left), fold_str(ctx, f, e.right)
        return None if a is None or b is None else a + b
    if isinstance(e, ast.JoinedStr):
        out = ""
        for v in e.values:
            if isinstance(v, ast.Constant):
                out += v.value
            elif isinstance(v, ast.FormattedValue):
                s = const_str(ctx, f, v.value)
                out += s if (s is not None and v.format_spec is None and v.conversion == -1) else "\x00"
        return out
    if isinstance(e, (ast.Name, ast.Attribute)):
        s = const_str(ctx, f, e)
        if s is not None:
            return s
        if isinstance(e, ast.Name):
            ds = [d for d in local_defs(f, e.id) if not isinstance(d, tuple)]
            if len(ds) == 1:
                return fold_str(ctx, f, ds[0])
    return None


def regex_shape(pattern):
    """(literal prefix, list of group sub-patterns, trailing items) from re's own parser."""
    import re._parser as sp
    try:
        import re._constants as sc
    except ImportError:  # pragma: no cover
        import sre_constants as sc
    p = sp.parse(pattern)
    prefix = ""
    i = 0
    items = list(p)
    while i < len(items) and items[i][0] == sc.LITERAL:
        prefix += chr(items[i][1])
        i += 1
    groups = [it for it in items[i:] if it[0] == sc.SUBPATTERN]
    rest = [it for it in items[i:] if it[0] != sc.SUBPATTERN]
    return prefix, groups, rest, sc


def s1(ctx, rep):
    P = ctx.P
    from .common import require_guard
    enc = [g_ for g_ in P.functions.values() if g_.qualname.endswith("dump_json_with_numpy.<locals>.np_encoder") or g_.qualname.endswith("util.np_encoder")]
    if len(enc) == 1:
        ce = cfg_of(enc[0])
        items = [n.id for n in ce.nodes if n.kind == "stmt" and isinstance(n.ast, ast.Return) and n.ast.value is not None
                 and any(isinstance(y, ast.Call) and fn_name(y) == "item" for y in ast.walk(n.ast.value))]
        require_guard(ctx, rep, "S2", enc[0], "np_encoder: `.item()` is returned | the object is a numpy scalar", items,
                      [("isinstance(obj, np.generic)", lambda a: a[0] == "isinstance" and a[2] == "np.generic" and a[3] is True)],
                      "numpy scalars in a report raise TypeError (and other objects are asked for .item())")
    w = P.func("syne_tune.report._report_logger")
    r = P.func("syne_tune.report.retrieve")
    # the user's metrics reach the writer through `**`: a named parameter of a function on that path would swallow the metric of
    # that name (and let it steer the function) instead of reporting it
    rc_ = P.method("Reporter", "__call__")
    captured = []
    for x in walk_shallow(rc_.node):
        if isinstance(x, ast.Call) and any(k_.arg is None and isinstance(k_.value, ast.Name) and k_.value.id == (rc_.node.args.kwarg.arg if rc_.node.args.kwarg else "")
                                            for k_ in x.keywords) and isinstance(x.func, ast.Name):
            g_ = P.resolve_name(rc_.module, x.func.id, None)
            if isinstance(g_, FuncInfo):
                a_ = g_.node.args
                named = [y.arg for y in a_.posonlyargs + a_.args + a_.kwonlyargs]
                captured += [(x, g_, named)] if named else []
                rep.put(not named, "S1", "agreement", f"{g_.name}: a function that takes the reported metrics by ** has no named parameter", g_, x, "",
                        f"{g_.name} has the named parameter(s) {named}: a metric the user reports under that name is bound to the parameter - it is "
                        "missing from the report (and changes what is printed)")
    if captured:
        return
    prints = [x for x in walk_shallow(w.node) if isinstance(x, ast.Call) and isinstance(x.func, ast.Name) and x.func.id == "print"]
    if len(prints) != 1 or not prints[0].args:
        raise AnchorError("_report_logger: expected exactly one print(...)")
    text = fold_str(ctx, w, argn(prints[0], 0))
    if text is None or text.count("\x00") != 1 or not text.endswith("\x00"):
        raise AnchorError(f"_report_logger: printed text is not `<literal><payload>`: {text!r}")
    wprefix = text[:-1]
    # reader
    fa = [x for x in walk_shallow(r.node) if isinstance(x, ast.Call) and fn_name(x) in ("findall", "finditer") ]
    if len(fa) != 1:
        raise AnchorError("retrieve: expected one re.findall")
    # re.findall(pattern, text) / re.finditer(..), or a compiled pattern's method: <P>.findall(text) with P = re.compile(pattern)
    pat_e, txt_e, plain = argn(fa[0], 0), argn(fa[0], 1), len(fa[0].args) == 2 and not fa[0].keywords
    recv_ = fa[0].func.value if isinstance(fa[0].func, ast.Attribute) else None
    if recv_ is not None and U(recv_) != "re":
        from ..engine import deref as _dr
        cdef = _dr(r, recv_)
        if isinstance(cdef, ast.Name):
            cdef = r.module.constants.get(cdef.id, cdef)
        if not (isinstance(cdef, ast.Call) and fn_name(cdef) == "compile" and cdef.args):
            raise AnchorError(f"retrieve: `{U(recv_)}` is not a pattern compiled with re.compile(<constant>)")
        pat_e, txt_e = cdef.args[0], argn(fa[0], 0)
        plain = len(cdef.args) == 1 and not cdef.keywords and len(fa[0].args) == 1 and not fa[0].keywords
    pat = fold_str(ctx, r, pat_e)
    if pat is None or "\x00" in pat:
        raise AnchorError("retrieve: regular expression is not a foldable constant")
    rprefix, groups, rest, sc = regex_shape(pat)
    rep.put(wprefix == rprefix, "S1", "agreement", "report line prefix: writer f-string == reader regex literal prefix", w,
            prints[0], f"both {wprefix!r}", f"writer prints {wprefix!r}, reader searches for {rprefix!r}: no report is ever parsed")
    # both sides use the same constant
    tagw = [U(v.value) for v in ast.walk(argn(prints[0], 0)) if isinstance(v, ast.FormattedValue)
            and const_str(ctx, w, v.value) is not None]
    tagr = [n.id for n in ast.walk(pat_e if not isinstance(pat_e, ast.Name) else
                                   local_defs(r, pat_e.id)[0]) if isinstance(n, ast.Name) and n.id.isupper()]
    rep.put(bool(tagw) and set(tagw) == set(tagr), "S1", "agreement", "report tag: same constant on both sides", r, fa[0],
            f"{tagw} / {tagr}")
    # exactly one group, covering a brace-delimited payload that cannot span lines; no flags
    ok = len(groups) == 1 and not rest and plain
    if ok:
        sub = list(groups[0][1][3])
        ok = len(sub) == 3 and sub[0] == (sc.LITERAL, ord("{")) and sub[2] == (sc.LITERAL, ord("}")) and \
            sub[1][0] in (sc.MAX_REPEAT,) and list(sub[1][1][2]) == [(sc.ANY, None)]
    rep.put(ok, "S1", "agreement", "report regex: one capture group `{.*}` on one line, no flags", r, fa[0], pat,
            f"regex {pat!r} does not capture exactly one single-line JSON object")
    # the searched text is the whole captured output: the parameter joined with newlines, nothing filtered out, and
    # the pattern is searched (findall), not anchored at line starts - reports may follow other output on the same line
    param = [p for p in r.params][0]
    txt = txt_e
    if isinstance(txt, ast.Name):
        ds = [d for d in local_defs(r, txt.id) if not isinstance(d, tuple)]
        txt = ds[0] if len(ds) == 1 else txt
    whole = isinstance(txt, ast.Call) and fn_name(txt) == "join" and len(txt.args) == 1 and isinstance(argn(txt, 0), ast.Name) \
        and argn(txt, 0).id == param and not [d for d in local_defs(r, param)]
    anchored = any(it[0] == sc.AT for it in rest) or pat.startswith("^")
    rep.put(whole and not anchored and fn_name(fa[0]) in ("findall", "finditer"), "S1", "taint",
            "retrieve: the pattern is searched over the entire captured output (no pre-filter, not anchored)", r, fa[0],
            f"findall over `{U(txt)}`",
            f"the text searched is `{U(txt)[:80]}`, not the whole of `{param}` joined: lines are filtered (or the pattern anchored) "
            "before the search, so a report that follows other output on the same line is dropped")
    # the lines are joined with a newline: `.` in the pattern does not match it, so one match cannot run from the `{` of one
    # report to the `}` of the next when the captured lines carry no trailing newline of their own
    sep = txt.func.value if isinstance(txt, ast.Call) and isinstance(txt.func, ast.Attribute) else None
    oks = isinstance(sep, ast.Constant) and isinstance(sep.value, str) and "\n" in sep.value
    rep.put(oks, "S1", "agreement", "retrieve: the captured lines are joined with a newline between them", r, txt, f"separator {U(sep) if sep is not None else '?'}",
            f"the lines are joined with {U(sep) if sep is not None else '?'}: lines that come without trailing newlines (log events, splitlines()) fuse, "
            "the greedy `{.*}` spans two reports and json.loads raises - or one report swallows the next")
    # payload parsed with json.loads and appended in match order
    loop = [n for n in walk_shallow(r.node) if isinstance(n, ast.For) and n.iter is fa[0]]
    ok = False
    # ... as a comprehension over the matches, or as a loop that appends
    from .common import returned_list_sites
    for x_, elt, at_, its in returned_list_sites(ctx, r):
        if isinstance(x_, ast.ListComp) and len(x_.generators) == 1 and x_.generators[0].iter is fa[0] and not at_ \
                and isinstance(x_.generators[0].target, ast.Name) and isinstance(elt, ast.Call) and U(elt.func) == "json.loads":
            tv_ = x_.generators[0].target.id
            pl_ = argn(elt, 0)
            if U(pl_) == tv_ or (fn_name(fa[0]) == "finditer" and isinstance(pl_, ast.Call) and fn_name(pl_) == "group"
                                 and U(pl_.func.value) == tv_ and len(pl_.args) == 1 and U(pl_.args[0]) == "1"):
                ok = True
    if loop:
        tv = loop[0].target.id if isinstance(loop[0].target, ast.Name) else None
        for st in loop[0].body:
            for x in walk_shallow(st):
                from ..engine import deref
                a0 = deref(r, argn(x, 0)) if isinstance(x, ast.Call) and fn_name(x) == "append" and x.args else None
                if isinstance(a0, ast.Call) and U(a0.func) == "json.loads":
                    pl = deref(r, argn(a0, 0))
                    # the match itself (findall with one group), or group 1 of the match object (finditer)
                    if U(argn(a0, 0)) == tv or (fn_name(fa[0]) == "finditer" and isinstance(pl, ast.Call) and fn_name(pl) == "group"
                                               and U(pl.func.value) == tv and len(pl.args) == 1 and U(pl.args[0]) == "1"):
                        ok = True
    rep.put(ok, "S1", "agreement", "retrieve: json.loads of each match appended in match order", r, None, "")


def s2(ctx, rep):
    P = ctx.P
    ser = P.func("syne_tune.report._serialize_report_dict")
    dj = P.func("syne_tune.util.dump_json_with_numpy")
    calls = [x for x in walk_shallow(ser.node) if isinstance(x, ast.Call) and ctx.is_call_to(ser, x, func=dj)]
    if not calls:
        raise AnchorError("_serialize_report_dict does not call dump_json_with_numpy")
    dumps = [x for x in walk_shallow(dj.node) if isinstance(x, ast.Call) and U(x.func) in ("json.dumps", "json.dump")]
    if len(dumps) < 2:
        raise AnchorError("dump_json_with_numpy: json.dumps/json.dump calls not found")
    bad = [d for d in dumps if kwarg(d, "indent") is not None and not (isinstance(kwarg(d, "indent"), ast.Constant)
                                                                       and kwarg(d, "indent").value is None)]
    rep.put(not bad, "S2", "agreement", "dump_json_with_numpy: JSON text without indent (single line)", dj, dumps[0],
            "json.dumps(..., default=...) - JSON text contains no raw newline",
            "json.dumps is called with indent: a report spans several lines and the line-based parser drops it")
    bad2 = [d for d in dumps if kwarg(d, "ensure_ascii") is not None and not (isinstance(kwarg(d, "ensure_ascii"), ast.Constant)
                                                                             and kwarg(d, "ensure_ascii").value is True)]
    rep.put(not bad2, "S2", "agreement", "dump_json_with_numpy: the JSON text is pure ASCII (ensure_ascii not disabled)", dj, bad2[0] if bad2 else dumps[0],
            "non-ASCII characters are written as \\uXXXX escapes",
            "json.dumps(..., ensure_ascii=False) writes raw non-ASCII characters into the report line: the size limit is then measured on a "
            "wide string (one such character multiplies sys.getsizeof), and printing depends on the stdout encoding - a valid report is "
            "rejected or raises UnicodeEncodeError")
    w = P.func("syne_tune.report._report_logger")
    pr = [x for x in walk_shallow(w.node) if isinstance(x, ast.Call) and isinstance(x.func, ast.Name) and x.func.id == "print"]
    ok = len(pr) == 1 and kwarg(pr[0], "end") is None and kwarg(pr[0], "file") is None and len(pr[0].args) == 1
    rep.put(ok, "S2", "agreement", "_report_logger: one print, newline-terminated, to stdout", w, pr[0] if pr else None, "")
    fl = [x for x in walk_shallow(w.node) if isinstance(x, ast.Call) and U(x.func) == "sys.stdout.flush"]
    rep.info("S2", "agreement", "_report_logger flushes stdout", w, None, str(bool(fl)))


def s3(ctx, rep):
    P = ctx.P
    f = P.method("Reporter", "__call__")
    cfg = cfg_of(f)
    kw = f.node.args.kwarg.arg if f.node.args.kwarg else None
    if kw is None:
        raise AnchorError("Reporter.__call__ has no **kwargs")
    asserts = set()
    for n in cfg.nodes:
        if n.kind == "stmt" and isinstance(n.ast, ast.Assert):
            for x in ast.walk(n.ast.test):
                if isinstance(x, ast.Call) and fn_name(x) == "startswith" and x.args and isinstance(argn(x, 0), ast.Constant):
                    pre = argn(x, 0).value
                    asserts.add((n.id, pre))
    if not asserts:
        rep.bad("S3", "must_precede", "Reporter.__call__: reserved-namespace check", f, None,
                "no assert on the reserved key prefix: a user key can overwrite st_worker_iter / st_worker_time")
        return
    pre = next(iter(asserts))[1]
    a_nodes = {n for n, _ in asserts}
    # reserved keys written by the reporter
    stores = {}
    for n in cfg.nodes:
        if n.kind == "stmt" and isinstance(n.ast, ast.Assign):
            for t in n.ast.targets:
                if isinstance(t, ast.Subscript) and isinstance(t.value, ast.Name) and t.value.id == kw:
                    stores[n.id] = const_str(ctx, f, t.slice)
    vals = [v for v in stores.values() if v is not None]
    rep.put(bool(vals) and all(v.startswith(pre) for v in vals), "S3", "agreement",
            "Reporter.__call__: keys written by the reporter lie in the reserved namespace the assert protects", f, None,
            f"prefix {pre!r}; keys {sorted(vals)}")
    rl = ctx.nodes(f, ctx.sel_call(func=P.func("syne_tune.report._report_logger")), "may", 0)
    b_nodes = set(stores) | rl
    _, viol = ctx.must_precede(f, None, None, a_nodes=a_nodes, b_nodes=b_nodes)
    rep.put(not viol, "S3", "must_precede", "Reporter.__call__: namespace assert ≺ reserved-key stores and print", f, None,
            f"{len(b_nodes)} sites all after the check",
            "a reserved key is stored (or the report printed) before user keys are checked against the reserved prefix",
            witness=viol[0][1] if viol else None)
    # the assert really tests the user's keys: any(key.startswith(..) for key in kwargs) negated
    n0 = cfg.nodes[next(iter(a_nodes))].ast
    t = n0.test
    ok = isinstance(t, ast.UnaryOp) and isinstance(t.op, ast.Not) and isinstance(t.operand, ast.Call) and \
        fn_name(t.operand) == "any" and kw in U(t.operand)
    ok = ok or (isinstance(t, ast.Call) and fn_name(t) == "all" and "not" in U(t) and kw in U(t))
    rep.put(ok, "S3", "agreement", "Reporter.__call__: assert rejects any user key with the reserved prefix", f, n0, U(t)[:80])


def s4(ctx, rep):
    P = ctx.P
    c = P.cls("Reporter")
    f = c.methods["__call__"]
    cfg = cfg_of(f)
    kw = f.node.args.kwarg.arg
    # the counter is read into the report (directly, or through a local loaded from it) and then advanced by one
    held = set(vars_assigned_from(f, lambda v: U(v) == "self.iter")) | {"self.iter"}
    reads = {n.id for n in cfg.nodes if n.kind == "stmt" and isinstance(n.ast, ast.Assign) and U(n.ast.value) in held
             and isinstance(n.ast.targets[0], ast.Subscript) and U(n.ast.targets[0].value) == kw}
    incs = {n.id for n in cfg.nodes if n.kind == "stmt" and isinstance(n.ast, ast.AugAssign) and U(n.ast.target) == "self.iter"
            and isinstance(n.ast.op, ast.Add) and isinstance(n.ast.value, ast.Constant) and n.ast.value.value == 1}
    incs |= {n.id for n in cfg.nodes if n.kind == "stmt" and isinstance(n.ast, ast.Assign) and U(n.ast.targets[0]) == "self.iter"
             and U(n.ast.value).replace(" ", "") in {f"{h_}+1" for h_ in held} | {f"1+{h_}" for h_ in held}}
    other = {n.id for n in cfg.nodes if n.kind == "stmt" and isinstance(n.ast, (ast.Assign, ast.AugAssign)) and
             any(U(t) == "self.iter" for t in (n.ast.targets if isinstance(n.ast, ast.Assign) else [n.ast.target]))} - incs
    rl = ctx.nodes(f, ctx.sel_call(func=P.func("syne_tune.report._report_logger")), "may", 0)
    if not rl:
        raise AnchorError("Reporter.__call__ does not call _report_logger")
    ok = len(reads) == 1 and len(incs) == 1 and not other
    if ok:
        r, i = next(iter(reads)), next(iter(incs))
        # read before increment, both on every path to the print, neither in a loop
        ok = cfg.path(cfg.entry, i, deleted={r}) is None and \
            all(cfg.path(cfg.entry, x, deleted={r}) is None and cfg.path(cfg.entry, x, deleted={i}) is None for x in rl) and \
            i not in cfg.reachable([s for s, l in cfg.succ[i]]) and r not in cfg.reachable([s for s, l in cfg.succ[r]])
    rep.put(ok, "S4", "must_precede", "Reporter.__call__: counter read ≺ counter += 1, once per report", f, None,
            "kwargs[ST_WORKER_ITER] = self.iter then self.iter += 1 on every path to the print",
            "the report counter is not read-then-incremented exactly once per report (counter not strictly increasing)")
    key = None
    for n in cfg.nodes:
        if n.id in reads:
            key = const_str(ctx, f, n.ast.targets[0].slice)
    rep.put(key is not None and key.endswith("iter"), "S4", "agreement", "Reporter.__call__: counter stored under ST_WORKER_ITER", f, None, str(key))
    # definite assignment in the constructor
    init = c.methods.get("__post_init__") or c.methods.get("__init__")
    if "iter" in c.class_attrs:
        rep.ok("S4", "definite_assignment", "Reporter: self.iter initialised on every constructor path", c, None, "class-level default")
        return
    if init is None:
        rep.bad("S4", "definite_assignment", "Reporter: self.iter initialised on every constructor path", c, None, "no constructor")
        return
    ci = cfg_of(init)
    st = {n.id for n in ci.nodes if n.kind == "stmt" and isinstance(n.ast, (ast.Assign, ast.AnnAssign)) and
          any(U(t) == "self.iter" for t in (n.ast.targets if isinstance(n.ast, ast.Assign) else [n.ast.target]))}
    p = ci.path(ci.entry, ci.exit, deleted=st, skip_labels=("exc",))
    rep.put(bool(st) and p is None, "S4", "definite_assignment", "Reporter: self.iter initialised on every constructor path", init, None,
            "self.iter assigned on every path of " + init.name,
            "a path through the constructor leaves self.iter unassigned; the first report then raises AttributeError "
            "(e.g. Reporter(add_time=False))", witness=ci.describe_path(p) if p else None)


def default_hooks(ctx):
    """(function, call, hook FuncInfo) for json.dumps/dump(default=<local def>) in the package."""
    out = []
    for f in ctx.P.functions.values():
        for x in walk_shallow(f.node):
            if isinstance(x, ast.Call) and U(x.func) in ("json.dumps", "json.dump"):
                d = kwarg(x, "default")
                if isinstance(d, ast.Name):
                    g = f
                    while g is not None:
                        if d.id in g.nested:
                            out.append((f, x, g.nested[d.id]))
                            break
                        g = g.parent
                    else:
                        r = ctx.P.resolve_name(f.module, d.id)
                        if isinstance(r, FuncInfo):
                            out.append((f, x, r))
    return out


def s5(ctx, rep):
    P = ctx.P
    dj = P.func("syne_tune.util.dump_json_with_numpy")
    hooks = [(f, x, h) for f, x, h in default_hooks(ctx) if f is dj]
    if not hooks:
        raise AnchorError("dump_json_with_numpy: json default= hook not found")
    seen = set()
    for f, x, h in hooks:
        if h in seen:
            continue
        seen.add(h)
        cfg = cfg_of(h)
        # every path to the normal exit must go through `return <non-None expr>`; falling off the end / bare return
        # yields None, which json encodes as null
        good = {n.id for n in cfg.nodes if n.kind == "stmt" and isinstance(n.ast, ast.Return) and n.ast.value is not None
                and not (isinstance(n.ast.value, ast.Constant) and n.ast.value.value is None)}
        p = cfg.path(cfg.entry, cfg.exit, deleted=good, skip_labels=("exc",))
        raises = [n for n in cfg.nodes if n.kind == "stmt" and isinstance(n.ast, ast.Raise)]
        rep.put(p is None, "S5", "fallthrough", f"{f.short}.{h.name}: json default hook converts or raises", h, None,
                f"{len(good)} converting returns, {len(raises)} raise(s), no fall-through",
                "the json `default=` hook can fall off the end (returns None): unserialisable values (sets, arrays, objects) are "
                "written as null instead of being rejected with TypeError", witness=cfg.describe_path(p) if p else None)
        if raises:
            ok = all("TypeError" in U(n.ast) for n in raises)
            rep.put(ok, "S5", "agreement", f"{f.short}.{h.name}: rejection raises TypeError", h, raises[0].ast, "")
    ser = P.func("syne_tune.report._serialize_report_dict")
    cfg = cfg_of(ser)
    a = {n.id for n in cfg.nodes if n.kind == "stmt" and isinstance(n.ast, ast.Assert) and "getsizeof" in U(n.ast.test)}
    b = {n.id for n in cfg.nodes if n.kind == "stmt" and isinstance(n.ast, ast.Return) and n.ast.value is not None}
    viol = [x for x in b if cfg.path(cfg.entry, x, deleted=a) is not None]
    rep.put(bool(a) and bool(b) and not viol, "S5", "must_precede", "_serialize_report_dict: size assert ≺ return of the string", ser, None, "")
    # errors are re-raised, not swallowed
    hs = [h for h in walk_shallow(ser.node) if isinstance(h, ast.ExceptHandler)]
    ok = all(any(isinstance(s, ast.Raise) for s in h.body) for h in hs)
    rep.put(ok, "S5", "agreement", "_serialize_report_dict: every handler re-raises", ser, None, f"{len(hs)} handlers")


def s6_local(ctx, rep):
    """the local backend hands the reader the complete captured output of the trial at every poll, and what the reader returns is
    the trial's metric list: no incremental parsing state (lines already parsed, a cached list) is kept between polls - a report
    that completes a line which was read while still open would fall between two increments"""
    from ..engine import deref
    P = ctx.P
    from .common import body_owner
    f = body_owner(ctx, P.method("LocalBackend", "_all_trial_results"),
                   lambda m: any(isinstance(x, ast.Call) and fn_name(x) == "retrieve" for x in walk_shallow(m.node)))
    calls = [x for x in walk_shallow(f.node) if isinstance(x, ast.Call) and fn_name(x) == "retrieve"]
    if len(calls) != 1:
        raise AnchorError("LocalBackend._all_trial_results: call of retrieve(...) not found exactly once")
    a0 = kwarg(calls[0], "log_lines", 0)
    src = deref(f, a0) if a0 is not None else None
    whole = isinstance(src, ast.Call) and fn_name(src) == "stdout" and isinstance(src.func, ast.Attribute) and U(src.func.value) == "self"
    rep.put(whole, "S1", "taint", "LocalBackend._all_trial_results: retrieve is given the whole captured output of the trial", f, calls[0], "",
            f"retrieve is given `{U(a0)[:60] if a0 is not None else '?'}`, not the complete self.stdout(trial_id): a report written onto a line that was already "
            "seen while it was still open is never parsed")
    # its result is what add_results gets
    ar = [x for x in walk_shallow(f.node) if isinstance(x, ast.Call) and fn_name(x) == "add_results"]
    mval = deref(f, kwarg(ar[0], "metrics", 0)) if len(ar) == 1 and kwarg(ar[0], "metrics", 0) is not None else None
    okm = mval is not None and isinstance(mval, ast.Call) and fn_name(mval) == "retrieve" and U(mval) == U(calls[0])
    rep.put(okm, "S1", "agreement", "LocalBackend._all_trial_results: the metrics recorded for the trial are exactly what retrieve returned", f, ar[0] if ar else None, "",
            "the recorded metric list is assembled from something else than this poll's retrieve(...) result (merged with a cache, filtered)")


def s1_only_writer(ctx, rep, clause="S1"):
    """the report line is the only place where the content of a report reaches the stream the reader scans: no other print of
    syne_tune/report.py writes a value taken from its arguments (an error message that echoes the rejected report can contain the
    tag and a `{...}` and is then parsed as a report)"""
    P = ctx.P
    n = 0
    bad = []
    for f in sorted(P.functions.values(), key=lambda f_: f_.qualname):
        if f.module.relpath != "syne_tune/report.py" or f.name == "_report_logger":
            continue
        n += 1
        params = {p_ for p_ in f.params if p_ != "self"}
        if f.node.args.kwarg:
            params.add(f.node.args.kwarg.arg)
        for x in walk_shallow(f.node):
            if isinstance(x, ast.Call) and isinstance(x.func, ast.Name) and x.func.id == "print":
                if any(isinstance(y, ast.Name) and y.id in params for a_ in x.args for y in ast.walk(a_)):
                    bad.append((f, x))
    rep.put(not bad and n > 0, clause, "who_may_write", "report.py: only _report_logger prints values taken from a report", bad[0][0] if bad else None,
            bad[0][1] if bad else None, f"{n} functions", f"`{U(bad[0][1])[:80] if bad else ''}` prints its argument on the stream the backend scans for reports: "
            "a rejected report that contains the tag is read back as a report line (and the malformed payload loses every metric of the trial)")


def s1_flush(ctx, rep, clause="S1"):
    """_report_logger: the report line is printed and THEN the stream is flushed, on every path - a block-buffered stdout (the local
    backend runs scripts with stdout redirected to a file) otherwise holds the last report back until the next one, for ever if the
    script is killed"""
    P = ctx.P
    w = P.func("syne_tune.report._report_logger")
    cfg = cfg_of(w)
    prints = [n.id for n in cfg.nodes for x in cfg.node_walk(n.id) if isinstance(x, ast.Call) and isinstance(x.func, ast.Name) and x.func.id == "print"]
    flushes = {n.id for n in cfg.nodes for x in cfg.node_walk(n.id) if isinstance(x, ast.Call) and fn_name(x) == "flush"} | \
              {n.id for n in cfg.nodes for x in cfg.node_walk(n.id) if isinstance(x, ast.Call) and isinstance(x.func, ast.Name) and x.func.id == "print"
               and any(k_.arg == "flush" and isinstance(k_.value, ast.Constant) and k_.value.value is True for k_ in x.keywords)}
    if not prints:
        raise AnchorError("_report_logger: print(...) not found")
    ok = all(pn in flushes or cfg.path([s_ for s_, l_ in cfg.succ[pn]], cfg.exit, deleted=flushes, skip_labels=("exc",)) is None for pn in prints)
    rep.put(ok, clause, "must_follow", "_report_logger: the printed report is flushed (print, then flush)", w, None, "",
            "the report line is printed after the flush (or never flushed): with a buffered stdout the tuner sees every report one report late and "
            "never sees the last one of a script that is killed or exits hard")


def run(ctx, rep, tier="quick"):
    s6_local(ctx, rep)
    s1_flush(ctx, rep)
    s1_only_writer(ctx, rep)
    s1(ctx, rep)
    s2(ctx, rep)
    s3(ctx, rep)
    s4(ctx, rep)
    s5(ctx, rep)
