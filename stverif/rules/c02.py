"""C02 - every reported result is delivered exactly once, in order, never after stop."""
import ast

from ..core.model import AnchorError, FuncInfo
from ..core.cfg import walk_shallow, cfg_of
from ..core.facts import U, atoms_of, atom_expr
from ..engine import argn, fn_name, kwarg, local_defs, returns_of, stmts_in, const_str, vars_assigned_from
from ..kinds import cursor as K
from . import common

EXPLANATION = (
    "Decides structural clauses of C02: S1 the rest of a batch is skipped after a STOP/PAUSE decision (delivery guarded by "
    "'trial not in done_trials', both decision edges record the trial); S2 single delivery point (who may call "
    "scheduler.on_trial_result / callback.on_trial_result); S3 generic result cursor: on every path of the per-trial loop of "
    "TrialBackend.fetch_status_results the counter ends at len(metrics) and what is delivered is metrics[counter:]; "
    "S4 hidden statuses include paused/stopping/stopped; S5 simulator mailbox: every removal from the mailbox is paired "
    "with advancing the counter by its length, and a re-run returns all_results[counter:]; S6 simulator stop: "
    "StopEvent is pushed and processed before the CompleteEvent, the stop handler removes the trial's later events with a "
    "keep-filter of the right polarity; S7 the tabular backend resumes strictly after the paused level; S8 one copied "
    "log row per delivery. S7 also: the elapsed-time offset is subtracted from every kept result after the scan. NOT decided: batching of real worker output between polls; order of equal time stamps.")

FLOOR = {"S1": 3, "S2": 2, "S3": 2, "S4": 1, "S5": 4, "S6": 4, "S7": 3, "S8": 3}


def decision_edges(ctx, f, const_name):
    """[(test nid, succ nid)] for branch edges on which ``<x> == SchedulerDecision.<const_name>`` holds."""
    cfg = cfg_of(f)
    out = []
    for n in cfg.nodes:
        if n.kind != "test":
            continue
        for (s, label) in cfg.succ[n.id]:
            if isinstance(label, tuple) and label[0] == "cond":
                for a in atoms_of(label[1], label[2]):
                    if a[0] == "eq" and a[3] is True and any(x.endswith("." + const_name) for x in (a[1], a[2])):
                        out.append((n.id, s))
    return out


def decision_edges_l(ctx, f, const_name, enum="SchedulerDecision"):
    """[(test nid, succ nid, condition, truth)] branch edges on which the decision is known to be <enum>.<const_name>: the edge of a
    test `x == <enum>.<const_name>`, or an edge that - together with the tests that dominate it - leaves that member as the only
    possibility (`x in (STOP, PAUSE)` taken, then `x == STOP` not taken)."""
    import re
    from ..engine import dominating_edges
    cfg = cfg_of(f)
    members = {k for k, v in ctx.P.cls(enum).class_attrs.items() if isinstance(v, ast.Constant)}
    full = f"{enum}.{const_name}"

    def narrow(dom, atoms):
        """dom: {variable text: set of members}"""
        for a in atoms:
            if a[0] == "eq":
                for var, const in ((a[1], a[2]), (a[2], a[1])):
                    if const.startswith(enum + ".") and not var.startswith(enum + "."):
                        m_ = const.split(".")[-1]
                        cur = dom.setdefault(var, set(members))
                        dom[var] = (cur & {m_}) if a[3] else (cur - {m_})
            elif a[0] == "in" and a[2].strip()[:1] in "([{":
                ms = set(re.findall(re.escape(enum) + r"\.(\w+)", a[2]))
                if ms:
                    cur = dom.setdefault(a[1], set(members))
                    dom[a[1]] = (cur & ms) if a[3] else (cur - ms)
        return dom
    out = []
    for n in cfg.nodes:
        if n.kind != "test":
            continue
        before = {}
        for (_, c_, t_) in dominating_edges(cfg, n.id):
            narrow(before, atoms_of(c_, t_))
        for (s, label) in cfg.succ[n.id]:
            if isinstance(label, tuple) and label[0] == "cond":
                after = narrow({k: set(v) for k, v in before.items()}, atoms_of(label[1], label[2]))
                for var, poss in after.items():
                    if poss == {const_name} and before.get(var, members) != {const_name}:
                        out.append((n.id, s, label[1], label[2]))
    return out


def s1(ctx, rep, clause="S1", prop_ctx="C02"):
    P = ctx.P
    f = P.method("Tuner", "_update_running_trials")
    cfg = cfg_of(f)
    sites = ctx.calls_in(f, method="on_trial_result", recv="TrialScheduler")
    if len(sites) != 1:
        raise AnchorError(f"Tuner._update_running_trials: expected one scheduler.on_trial_result call, found {len(sites)}")
    nid, call = sites[0]
    # the container that records finished trials: the one the loop guard tests
    done = None
    for a in ctx.facts(f).at(nid):
        if a[0] == "in" and a[3] is False:
            done = a[2]
            key = a[1]
    rep.put(done is not None, clause, "guarded_by", "Tuner._update_running_trials: on_trial_result | trial_id not in done_trials",
            f, call, f"delivery guarded by `{key} not in {done}`" if done else "",
            "scheduler.on_trial_result is reachable for a trial that was already stopped/paused in this batch")
    if done is None:
        return
    head = [n.id for n in cfg.nodes if n.kind == "for" and any(s is cfg.nodes[nid].stmt for s in stmts_in(n.ast.body))]
    if not head:
        raise AnchorError("delivery call is not inside the result loop")
    head = head[-1]
    rec = {n.id for n in cfg.nodes if n.kind == "stmt" and isinstance(n.ast, ast.Assign)
           and any(isinstance(t, ast.Subscript) and U(t.value) == done and U(t.slice) == key for t in n.ast.targets)}
    for dec in ("STOP", "PAUSE"):
        from .common import consistent_with
        edges = decision_edges_l(ctx, f, dec)
        edges = [e for e in edges if e[0] in cfg.reachable(nid)]
        if not edges:
            raise AnchorError(f"_update_running_trials: no branch on SchedulerDecision.{dec}")
        for t, s, cnd, tru in edges:
            p = cfg.path(s, head, deleted=rec, skip_labels=("exc",), edge_ok=consistent_with(cnd, tru)) if s not in rec else None
            rep.put(p is None, clause, "must_follow", f"Tuner._update_running_trials: {dec} edge records trial in {done}", f,
                    cfg.nodes[t].stmt, "further results of the same trial in this batch are skipped",
                    f"after a {dec} decision the trial is not recorded in {done}: its later results in the same batch "
                    "are still delivered", witness=cfg.describe_path(p) if p else None)


def s2(ctx, rep):
    P = ctx.P
    for base, label in (("TrialScheduler", "scheduler"), ("TunerCallback", "callback")):
        fam = ctx.down(base)
        n_ok = 0
        for f, call in ctx.all_calls_anywhere(method="on_trial_result", recv=base, allow_name=True):
            caller_cls = getattr(f, "cls", None)
            # a receiver the resolver cannot type is matched by name over the whole package; its attribute name
            # tells which interface it is (`...scheduler.on_trial_result`, `callback.on_trial_result`, `...searcher...`)
            if not any(h == "type" for t, h in ctx.call_targets(f, call)):
                last = U(call.func.value).split(".")[-1].lower()
                fam_of_name = {"scheduler": "TrialScheduler", "callback": "TunerCallback", "searcher": "BaseSearcher",
                               "_searcher_int": "BaseSearcher", "_random_searcher": "BaseSearcher"}
                hit = [v for k, v in fam_of_name.items() if k in last]
                if hit and hit[0] != base:
                    continue
            top = f
            while top.parent is not None:
                top = top.parent
            ok = (top.qualname.endswith("tuner.Tuner._update_running_trials")
                  or (top.name == "on_trial_result" and caller_cls is not None and caller_cls in fam))
            if ok:
                n_ok += 1
            else:
                rep.bad("S2", "who_may_call", f"{base}.on_trial_result called from {top.short}", f, call,
                        f"{label}.on_trial_result may only be called by the tuning loop or forwarded from an on_trial_result")
        rep.put(n_ok > 0, "S2", "who_may_call", f"{base}.on_trial_result single delivery point", None, None,
                f"{n_ok} call sites, all in Tuner._update_running_trials or forwarding on_trial_result methods")


def s3(ctx, rep):
    P = ctx.P
    f = P.method("TrialBackend", "fetch_status_results")
    cfg = cfg_of(f)
    counter_attr = "_last_metric_seen_index"
    # the per-trial loop: the for loop whose body touches the counter or tests the status
    heads = [n for n in cfg.nodes if n.kind == "for" and any(counter_attr in U(s) for s in stmts_in(n.ast.body))]
    if len(heads) != 1:
        raise AnchorError("TrialBackend.fetch_status_results: per-trial loop with the result cursor not found")
    head = heads[0]
    lv = head.ast.target.id if isinstance(head.ast.target, ast.Name) else None
    if lv is None:
        raise AnchorError("fetch_status_results: loop variable is not a name")

    def is_seq(e):
        return isinstance(e, ast.Attribute) and e.attr == "metrics" and isinstance(e.value, ast.Name) and e.value.id == lv

    def is_counter(e):
        return isinstance(e, ast.Subscript) and isinstance(e.value, ast.Attribute) and e.value.attr == counter_attr

    def seq_empty(cond, truth, interp):
        # len(seq) > 0   /  seq  (truthiness)
        for a in atoms_of(cond, truth):
            if a[0] == "le" and a[2] == "0" and a[1].startswith("len(") and a[1].endswith(".metrics)"):
                return False  # len(seq) <= 0
            if a[0] == "truth" and a[1].endswith(".metrics") and a[2] is False:
                return False
            if a[0] == "eq" and a[3] is True and "0" in (a[1], a[2]) and any(x.startswith("len(") and x.endswith(".metrics)") for x in (a[1], a[2])):
                return False  # len(seq) == 0
        return True
    paths = K.body_paths(cfg, head.id)
    if not paths:
        raise AnchorError("fetch_status_results: no path through the per-trial loop")
    # variable delivered: the iterable of the inner loop that appends to the result list
    n_paths = 0
    bad = []
    for path, labels in paths:
        it = K.Interp(is_seq, is_counter)
        if not K.run_path(cfg, path, labels, it, seq_empty):
            continue
        n_paths += 1
        if it.counter is None:
            raise AnchorError(f"fetch_status_results: cursor update `{U(it.unknown_counter)}` not understood")
        if it.counter != K.L:
            hidden = any(cfg.nodes[n].kind == "test" and "status" in U(cfg.nodes[n].ast) for n in path)
            bad.append((path, it.counter.show(), hidden))
    # classify: hidden branch vs visible branch
    for path, val, hidden in bad:
        construct = "TrialBackend.fetch_status_results: " + ("hidden-status branch" if hidden else "visible branch")
        if not any(i.construct == construct and i.status == "violation" for i in rep.items):
            rep.bad("S3", "cursor", construct, f, cfg.nodes[path[0]].stmt,
                    f"with non-empty metrics the cursor ends at {val}, not at len(metrics): results present now are "
                    "delivered on a later poll" + (" (after the trial is resumed)" if hidden else ""),
                    witness=cfg.describe_path(path))
    for construct in ("hidden-status branch", "visible branch"):
        c = "TrialBackend.fetch_status_results: " + construct
        if not any(i.construct == c for i in rep.items):
            rep.ok("S3", "cursor", c, f, head.ast, f"cursor == len(metrics) at the end of every path ({n_paths} paths)")
    # delivered slice is metrics[cursor:] in order
    deliv_ok = False
    for st in stmts_in(head.ast.body):
        if isinstance(st, ast.Assign) and isinstance(st.value, ast.Subscript) and is_seq(st.value.value) \
                and isinstance(st.value.slice, ast.Slice) and st.value.slice.upper is None and st.value.slice.step is None:
            lo = st.value.slice.lower
            if lo is not None and (is_counter(lo) or (isinstance(lo, ast.Name) and any(
                    not isinstance(d, tuple) and is_counter(d) for d in local_defs(f, lo.id)))):
                deliv_ok = True
                node = st
    rep.put(deliv_ok, "S3", "cursor", "TrialBackend.fetch_status_results: delivered == metrics[cursor:]", f,
            node if deliv_ok else head.ast, "new results are the suffix starting at the cursor, iterated in order",
            "the delivered results are not the slice metrics[cursor:]")


def s4(ctx, rep):
    P = ctx.P
    f = P.method("TrialBackend", "fetch_status_results")
    status = P.cls("Status")
    found = False
    for n in walk_shallow(f.node):
        if isinstance(n, ast.Compare) and len(n.ops) == 1 and isinstance(n.ops[0], ast.In) and \
                isinstance(n.left, ast.Attribute) and n.left.attr == "status" and \
                isinstance(n.comparators[0], (ast.List, ast.Tuple, ast.Set)):
            names = {e.attr for e in n.comparators[0].elts if isinstance(e, ast.Attribute)}
            found = True
            need = {"paused", "stopping", "stopped"}
            for m in need:
                if m not in status.class_attrs:
                    raise AnchorError(f"Status.{m} vanished")
            rep.put(need <= names, "S4", "agreement", "TrialBackend.fetch_status_results: hidden statuses", f, n,
                    f"hidden set {sorted(names)} ⊇ {sorted(need)}",
                    f"hidden set {sorted(names)} misses {sorted(need - names)}: results of a trial the scheduler "
                    "stopped or paused are delivered")
    if not found:
        raise AnchorError("fetch_status_results: `status in [...]` test not found")


def s5(ctx, rep):
    P = ctx.P
    f = P.method("SimulatorBackend", "fetch_status_results")
    cfg = cfg_of(f)
    box, counter = "_next_results_to_fetch", "_last_metric_seen_index"

    def is_adv(st, keyname, listname):
        return isinstance(st, ast.AugAssign) and isinstance(st.op, ast.Add) and isinstance(st.target, ast.Subscript) \
            and isinstance(st.target.value, ast.Attribute) and st.target.value.attr == counter \
            and U(st.target.slice) == keyname and U(st.value) == f"len({listname})"
    n_inst = 0
    for n in cfg.nodes:
        if n.kind == "stmt" and isinstance(n.ast, ast.Delete):
            for t in n.ast.targets:
                if isinstance(t, ast.Subscript) and isinstance(t.value, ast.Attribute) and t.value.attr == box:
                    key = U(t.slice)
                    # list variable bound from box.get(key) / box[key]
                    lists = [name for name in {x.id for x in ast.walk(f.node) if isinstance(x, ast.Name)}
                             for d in local_defs(f, name) if not isinstance(d, tuple) and box in U(d) and key in U(d)]
                    an = {m.id for m in cfg.nodes if m.kind == "stmt" and any(is_adv(m.ast, key, l) for l in lists)}
                    # same iteration: every path through the removal also passes the advance (before or after it).  The removal is made
                    # where the key is known to be in the mailbox; the list bound from `box.get(key)` is then not None.
                    heads = [h.id for h in cfg.nodes if h.kind == "for" and any(s is n.ast for s in stmts_in(h.ast.body))]
                    present = any(a[0] == "in" and a[1] == key and a[2].endswith("." + box) and a[3] is True for a in ctx.facts(f).at(n.id)) or \
                        any(a[0] == "is" and a[1] in lists and a[2] == "None" and a[3] is False for a in ctx.facts(f).at(n.id))

                    def feasible(label):
                        if present and isinstance(label, tuple) and label[0] == "cond":
                            for a in atoms_of(label[1], label[2]):
                                if a[0] == "is" and a[1] in lists and a[2] == "None" and a[3] is True:
                                    return False
                                if a[0] == "in" and a[1] == key and a[2].endswith("." + box) and a[3] is False:
                                    return False
                        return True
                    start = [s for s, l in cfg.succ[heads[-1]] if l == "iter"] if heads else [cfg.entry]
                    goal = heads[-1] if heads else cfg.exit
                    before = cfg.path(start, n.id, deleted=an, edge_ok=feasible)
                    after = cfg.path([s_ for s_, l in cfg.succ[n.id]], goal, deleted=an, skip_labels=("exc",), edge_ok=feasible)
                    p2 = (before + after) if (before is not None and after is not None) else None
                    n_inst += 1
                    rep.put(bool(an) and p2 is None, "S5", "cursor", f"SimulatorBackend.fetch_status_results: del {box}[{key}] paired with cursor advance",
                            f, n.ast, f"`{counter}[{key}] += len(list)` is on every path of the iteration that removes the list",
                            "results are removed from the mailbox without advancing the cursor by their number",
                            witness=cfg.describe_path(p2) if p2 else None)
        is_reset = n.kind == "stmt" and ((isinstance(n.ast, ast.Assign) and any(
            isinstance(t, ast.Attribute) and t.attr == box for t in n.ast.targets)) or any(
            isinstance(x, ast.Call) and fn_name(x) == "clear" and box in U(x.func.value) for x in cfg.node_walk(n.id)))
        if is_reset:
            # reset of the whole mailbox: a preceding loop over box.items() advancing each trial
            loops = [h for h in cfg.nodes if h.kind == "for" and box in U(h.ast.iter) and "items" in U(h.ast.iter)]
            ok = False
            for h in loops:
                tg = h.ast.target
                if isinstance(tg, ast.Tuple) and len(tg.elts) == 2:
                    k, l = U(tg.elts[0]), U(tg.elts[1])
                    body_adv = [s for s in h.ast.body if is_adv(s, k, l)]  # top level of the body: on every iteration
                    if body_adv and cfg.path(cfg.entry, n.id, deleted={h.id}) is None:
                        ok = True
            n_inst += 1
            rep.put(ok, "S5", "cursor", f"SimulatorBackend.fetch_status_results: reset of {box} paired with cursor advance", f,
                    n.ast, "every dropped list advances its trial's cursor by its length",
                    "mailbox reset drops results without advancing the cursors: they are delivered again after a resume")
    if n_inst < 2:
        raise AnchorError("SimulatorBackend.fetch_status_results: mailbox removals not found")
    # the mailbox is drained on every exit: results of trials that were not polled (e.g. paused during the stop
    # delay) must be counted as seen and dropped now, otherwise they are delivered after a resume
    resets = {n.id for n in cfg.nodes if n.kind == "stmt" and isinstance(n.ast, ast.Assign) and any(
        isinstance(t, ast.Attribute) and t.attr == box for t in n.ast.targets)
        and (isinstance(n.ast.value, ast.Dict) and not n.ast.value.keys or
             (isinstance(n.ast.value, ast.Call) and fn_name(n.ast.value) == "dict" and not n.ast.value.args and not n.ast.value.keywords))}
    resets |= {n.id for n in cfg.nodes if any(isinstance(x, ast.Call) and fn_name(x) == "clear" and box in U(x.func.value)
                                             for x in cfg.node_walk(n.id))}

    def edge_ok(label):
        # an edge on which the mailbox is known to be empty ends the obligation
        if isinstance(label, tuple) and label[0] == "cond":
            at = atoms_of(label[1], label[2])
            if any(a[0] == "truth" and a[1] == "self." + box and a[2] is False for a in at):
                return False
            if any(a[0] == "eq" and a[3] is True and f"len(self.{box})" in (a[1], a[2]) and "0" in (a[1], a[2]) for a in at):
                return False
        return True
    p = cfg.path(cfg.entry, cfg.exit, deleted=resets, skip_labels=("exc",), edge_ok=edge_ok)
    rep.put(p is None, "S5", "must_follow", f"SimulatorBackend.fetch_status_results: {box} drained on every exit", f, None,
            "every return is preceded by the reset of the mailbox or by a test that found it empty",
            "fetch_status_results can return with results left in the mailbox (not counted as seen): results a trial "
            "reported before it was paused are delivered after it is resumed", witness=cfg.describe_path(p) if p else None)
    # re-run returns all_results[counter:]
    g = P.method("SimulatorBackend", "_run_job_and_collect_results")
    ok = False
    for r in returns_of(g):
        v = r.value
        if isinstance(v, ast.Tuple) and len(v.elts) == 2:
            res = v.elts[1]
            defs = local_defs(g, res.id) if isinstance(res, ast.Name) else [res]
            for d in defs:
                if isinstance(d, ast.Subscript) and isinstance(d.slice, ast.Slice) and d.slice.upper is None \
                        and d.slice.lower is not None:
                    lo = d.slice.lower
                    lod = [lo] if not isinstance(lo, ast.Name) else local_defs(g, lo.id)
                    if any(not isinstance(x, tuple) and counter in U(x) for x in lod):
                        ok = True
    rep.put(ok, "S5", "cursor", "SimulatorBackend._run_job_and_collect_results: returns all_results[cursor:]", g, None,
            "a resumed run contributes only results beyond those already counted")


def s6(ctx, rep):
    P = ctx.P
    f = P.method("SimulatorBackend", "_stop_or_pause_trial")
    cfg = cfg_of(f)

    def push_of(evname):
        from ..engine import deref
        return ctx.sel_pred(lambda x: isinstance(x, ast.Call) and fn_name(x) == "push" and x.args and
                            isinstance(deref(f, argn(x, 0)), ast.Call) and fn_name(deref(f, argn(x, 0))) == evname, f"push({evname})")
    proc = ctx.sel_call(selfcall="_process_events_until_now")
    a = ctx.nodes(f, push_of("StopEvent"), "must", 0)
    c = ctx.nodes(f, push_of("CompleteEvent"), "may", 0)
    pr = ctx.nodes(f, proc, "must", 0)
    if not (a and c and pr):
        raise AnchorError("_stop_or_pause_trial: push(StopEvent) / push(CompleteEvent) / _process_events_until_now not found")
    # some processing node lies between stop push and complete push on every path
    between = {p for p in pr if cfg.path(cfg.entry, p, deleted=a) is None}
    viol = [cn for cn in c if cfg.path(cfg.entry, cn, deleted=between) is not None]
    rep.put(not viol, "S6", "must_precede", "SimulatorBackend._stop_or_pause_trial: push(StopEvent) ≺ process ≺ push(CompleteEvent)",
            f, None, "the stop event is processed (removing later events) before the final CompleteEvent is pushed",
            "the final CompleteEvent can be pushed before the StopEvent has been processed: it is removed with the "
            "trial's other events, or later results survive")
    # the time is advanced to the stop time before processing
    adv = {n.id for n in cfg.nodes if any(isinstance(x, ast.Call) and fn_name(x) == "advance_to" for x in cfg.node_walk(n.id))}
    viol = [p for p in between if cfg.path(list(a), p, deleted=adv) is not None]
    rep.put(bool(adv) and not viol, "S6", "must_precede", "SimulatorBackend._stop_or_pause_trial: advance_to(stop time) ≺ process",
            f, None, "")
    g = P.method("SimulatorBackend", "_process_stop_event")
    sel = ctx.sel_call(method="remove_events", recv="SimulatorState")
    bn = ctx.nodes(g, sel, "must")
    cg = cfg_of(g)
    p = cg.path(cg.entry, cg.exit, deleted=bn, skip_labels=("exc",))
    ok = bool(bn) and p is None
    if ok:
        call = ctx.calls_in(g, method="remove_events", recv="SimulatorState")[0][1]
        ok = call.args and U(argn(call, 0)) == "trial_id" or (kwarg(call, "trial_id") is not None and U(kwarg(call, "trial_id")) == "trial_id")
    rep.put(ok, "S6", "must_follow", "SimulatorBackend._process_stop_event → remove_events(trial_id)", g, None,
            "every stop removes the trial's later events")
    # dispatch: StopEvent handled by _process_stop_event
    h = P.method("SimulatorBackend", "_process_events_until_now")
    sites = ctx.calls_in(h, selfcall="_process_stop_event")
    ok = bool(sites) and all(ctx.has_fact(h, nid, lambda a: a[0] == "isinstance" and a[2] == "StopEvent" and a[3] is True)
                             for nid, _ in sites)
    rep.put(ok, "S6", "guarded_by", "SimulatorBackend._process_events_until_now: StopEvent → _process_stop_event", h, None, "")
    # keep-filter polarity of remove_events
    r = P.method("SimulatorState", "remove_events")
    comp = [n for n in walk_shallow(r.node) if isinstance(n, ast.ListComp)]
    if len(comp) != 1 or len(comp[0].generators) != 1 or len(comp[0].generators[0].ifs) != 1:
        raise AnchorError("SimulatorState.remove_events: filter comprehension not recognised")
    cond = comp[0].generators[0].ifs[0]
    elem = None
    for c2 in ast.walk(cond):
        if isinstance(c2, ast.Compare) and len(c2.ops) == 1:
            for x, y in ((c2.left, c2.comparators[0]), (c2.comparators[0], c2.left)):
                if isinstance(y, ast.Name) and y.id == "trial_id" and isinstance(x, ast.Attribute):
                    elem = U(x)
    if elem is None:
        raise AnchorError("remove_events: predicate does not compare an element attribute with trial_id")
    common.keepfilter_polarity(ctx, rep, "S6", r, [cond], elem, "trial_id", "SimulatorState.remove_events", comp[0])
    # result is stored back
    ok = any(isinstance(s, ast.Assign) and s.value is comp[0] and U(s.targets[0]) == "self.event_heap" for s in walk_shallow(r.node))
    rep.put(ok, "S6", "agreement", "SimulatorState.remove_events: filtered heap stored back", r, comp[0], "")


def s6b(ctx, rep):
    """guard table for delivery (found thin by the generic mutation audit)"""
    from .common import require_guard, call_nodes, dom_guard
    P = ctx.P
    f = P.method("TrialBackend", "fetch_status_results")
    cfg = cfg_of(f)
    # new metrics are taken from the trial's list only if the trial is not paused / stopping / stopped
    take = [n.id for n in cfg.nodes if n.kind == "stmt" and isinstance(n.ast, ast.Assign) and isinstance(n.ast.value, ast.Subscript)
            and isinstance(n.ast.value.slice, ast.Slice) and U(n.ast.value.value).endswith(".metrics")]
    hidden = {"Status.paused", "Status.stopping", "Status.stopped"}

    def not_hidden(a):
        if a[0] == "in" and a[3] is False and a[1].endswith(".status"):
            try:
                return {U(e) for e in ast.parse(a[2], mode="eval").body.elts} == hidden
            except Exception:
                return False
        return False
    require_guard(ctx, rep, "S3", f, "TrialBackend.fetch_status_results: new metrics are taken | status not in {paused, stopping, stopped}", take,
                  [("status not in [paused, stopping, stopped]", not_hidden)],
                  "results written after a stop / pause decision are delivered to the scheduler (or results of running trials are hidden)")
    event_dispatch(ctx, rep, "S6")
    from . import c10
    c10.delay_roles(ctx, rep, "S6")


def event_dispatch(ctx, rep, clause):
    """each simulator event is processed by the handler of its own type (shared with C01 and C10)"""
    from .common import require_guard, call_nodes
    g = ctx.P.method("SimulatorBackend", "_process_events_until_now")
    for ev, handler in (("StartEvent", "_process_start_event"), ("CompleteEvent", "_process_complete_event"), ("StopEvent", "_process_stop_event"),
                        ("OnTrialResultEvent", "_process_on_trial_result_event")):
        nodes = [n for n, c in call_nodes(ctx, g, lambda c, h=handler: fn_name(c) == h)]
        require_guard(ctx, rep, clause, g, f"SimulatorBackend._process_events_until_now: {handler} | isinstance(event, {ev})", nodes,
                      [(f"isinstance(event, {ev})", lambda a, e=ev: a[0] == "isinstance" and a[2] == e and a[3] is True)],
                      "an event is processed by the handler of another event type: results, stops and completions of a trial are mixed up")


def s7(ctx, rep):
    P = ctx.P
    attr = "_resource_paused_for_trial"
    c = P.cls("_BlackboxSimulatorBackend")
    ws = [(f, n, k) for f, n, k in ctx.writers(attr) if k != "store" or f.name != "__init__"]
    bad = [(f, n) for f, n, k in ws if not (f.cls is c and f.name == "_pause_trial")]
    rep.put(not bad and bool(ws), "S7", "who_may_write", f"{attr} written only by _BlackboxSimulatorBackend._pause_trial", c, None,
            f"{len(ws)} write site(s)", "foreign writer: " + ", ".join(f.short for f, n in bad))
    f = c.methods["_pause_trial"]
    ok = False
    for fn, n, k in ws:
        if fn is f and isinstance(n, ast.Assign):
            v = n.value
            defs = local_defs(f, v.id) if isinstance(v, ast.Name) else [v]
            ra = ["self.resource_attr"] + vars_assigned_from(f, lambda e: U(e) == "self.resource_attr")
            ok = any(not isinstance(d, tuple) and any(isinstance(y, ast.Subscript) and U(y.value) == "result" and U(y.slice) in ra
                                                       for y in ast.walk(d)) for d in defs)
    rep.put(ok, "S7", "agreement", "_BlackboxSimulatorBackend._pause_trial: paused level taken from result[resource_attr]", f, None, "")
    g = c.methods["_run_job_and_collect_results"]
    cfg = cfg_of(g)
    # the filter loop: append on  resource > paused  (strict), offset on ==
    # the variables by role: the paused level (read from the attribute), the list that is returned
    pv = [n_ for n_ in {x.id for x in ast.walk(g.node) if isinstance(x, ast.Name)}
          if any(not isinstance(d, tuple) and attr in U(d) for d in local_defs(g, n_))]
    rets = [r.value.elts[1].id for r in returns_of(g) if isinstance(r.value, ast.Tuple) and len(r.value.elts) == 2 and isinstance(r.value.elts[1], ast.Name)]
    if len(pv) != 1 or not rets:
        raise AnchorError("_BlackboxSimulatorBackend._run_job_and_collect_results: paused-level variable / returned list not identified")
    pv, rv = pv[0], rets[0]
    from .common import inclusion_sites, dom_guard
    ra = ["self.resource_attr"] + vars_assigned_from(g, lambda e: U(e) == "self.resource_attr")
    is_level_expr = lambda e: isinstance(e, ast.Call) and fn_name(e) == "int" and e.args and isinstance(argn(e, 0), ast.Subscript) \
        and U(argn(e, 0).slice) in ra
    lv = vars_assigned_from(g, is_level_expr)

    def is_level(text):
        if text in lv:
            return True
        try:
            return is_level_expr(ast.parse(text, mode="eval").body)
        except SyntaxError:
            return False
    # the ways a result enters the returned list on the resume path (an append in the scan loop, or a filtering comprehension):
    # those that come with a condition on the paused level at all
    kept = [s_ for s_ in inclusion_sites(ctx, g, rv) if any(pv in (a[1], a[2]) for a in s_[2] if a[0] in ("lt", "le", "eq"))]
    if not kept:
        raise AnchorError("_BlackboxSimulatorBackend._run_job_and_collect_results: no place where results are kept depending on the paused level")
    for x, elt, at, its in kept:
        ok = any(a[0] == "lt" and a[1] == pv and is_level(a[2]) for a in at)
        rep.put(ok, "S7", "guarded_by", "_BlackboxSimulatorBackend._run_job_and_collect_results: keep level | level > paused level",
                g, x, "a resumed run reports strictly after the level it was paused at",
                "a resumed run may report the paused level (or earlier ones) again")
    # the time offset: every value that can become the offset is an elapsed-time entry read at the paused level (directly in the
    # scan loop, or collected into a list first)
    is_et = lambda e: isinstance(e, ast.Subscript) and "elapsed_time_attr" in U(e.slice)
    off = [n for n in cfg.nodes if n.kind == "stmt" and isinstance(n.ast, ast.Assign) and isinstance(n.ast.targets[0], ast.Name)
           and is_et(n.ast.value)]
    sources = [(n.ast, set(dom_guard(ctx, g, n.id))) for n in off]
    offv = {U(n.ast.targets[0]) for n in off}
    for nm in sorted({x.id for x in ast.walk(g.node) if isinstance(x, ast.Name)} - {rv}):
        sites = [s_ for s_ in inclusion_sites(ctx, g, nm) if is_et(s_[1])]
        if sites:
            sources += [(s_[0], s_[2]) for s_ in sites]
            offv |= set(vars_assigned_from(g, lambda e, nm=nm: any(isinstance(y, ast.Name) and y.id == nm for y in ast.walk(e))))
    ok = bool(sources) and all(any(a[0] == "eq" and a[3] is True and pv in (a[1], a[2]) for a in at) for _, at in sources)
    rep.put(ok, "S7", "guarded_by", "_BlackboxSimulatorBackend._run_job_and_collect_results: time offset taken at the paused level", g,
            sources[0][0] if sources else None, "")
    # ... and is taken off every result that is kept: elapsed times of a resumed run count from the resume point
    sub = [n for n in cfg.nodes if n.kind == "stmt" and (
        (isinstance(n.ast, ast.AugAssign) and isinstance(n.ast.op, ast.Sub) and U(n.ast.value) in offv) or
        (isinstance(n.ast, ast.Assign) and isinstance(n.ast.value, ast.BinOp) and isinstance(n.ast.value.op, ast.Sub) and U(n.ast.value.right) in offv
         and U(n.ast.value.left) == U(n.ast.targets[0]))) and "elapsed_time_attr" in U(n.ast.target if isinstance(n.ast, ast.AugAssign) else n.ast.targets[0])]
    okb = len(sub) == 1
    if okb:
        heads = [l for l in cfg.nodes if l.kind == "for" and sub[0].stmt in list(stmts_in(l.ast.body))]
        okb = len(heads) == 1 and isinstance(heads[0].ast.iter, ast.Name) and heads[0].ast.iter.id == rv and \
            cfg.path([s_ for s_, l in cfg.succ[heads[0].id] if l == "iter"], heads[0].id, deleted={sub[0].id}, skip_labels=("exc",)) is None
        tgt = sub[0].ast.target if isinstance(sub[0].ast, ast.AugAssign) else sub[0].ast.targets[0]
        okb = okb and isinstance(tgt, ast.Subscript) and U(tgt.value) == U(heads[0].ast.target)
        # the subtraction happens after the offset is known: not inside the loop that finds it
        okb = okb and all(cfg.path([cfg.entry], sub[0].id, deleted={o.id}) is None or True for o in off) and \
            not any(l.kind == "for" and sub[0].stmt in list(stmts_in(l.ast.body)) and o.stmt in list(stmts_in(l.ast.body)) for l in cfg.nodes for o in off)
    rep.put(okb, "S7", "must_follow", "_BlackboxSimulatorBackend._run_job_and_collect_results: the offset is subtracted from every kept result, after the scan", g,
            sub[0].ast if sub else None, "", "the elapsed times of a resumed run are not (all) counted from the resume point: its results are stamped with the time "
            "of the skipped levels included - later than the table says - or only some of them are shifted")


def s8(ctx, rep, clause="S8"):
    P = ctx.P
    f = P.method("StoreResultsCallback", "on_trial_result")
    cfg = cfg_of(f)
    app = ctx.calls_in(f, method="append")
    app = [(nid, c) for nid, c in app if U(c.func.value) == "self.results"]
    if len(app) != 1:
        rep.bad(clause, "must_follow", "StoreResultsCallback.on_trial_result: exactly one results.append", f, None,
                f"{len(app)} append sites: a delivered result gets {len(app)} rows")
        return
    nid, call = app[0]
    p = cfg.path(cfg.entry, cfg.exit, deleted={nid}, skip_labels=("exc",))
    in_loop = any(n.kind in ("for",) and any(s is cfg.nodes[nid].stmt for s in stmts_in(n.ast.body)) for n in cfg.nodes)
    rep.put(p is None and not in_loop, clause, "must_follow", "StoreResultsCallback.on_trial_result: one row per delivery", f, call,
            "self.results.append on every normal path, outside any loop",
            "a path through on_trial_result appends no row (or several)", witness=cfg.describe_path(p) if p else None)
    rowvar = argn(call, 0).id if call.args and isinstance(argn(call, 0), ast.Name) else None
    # the row is a copy of the delivered dict: no dict that may be the caller's own object (the `result` parameter as it came
    # in, under whatever local name) is stored into, updated, or handed to a method of the callback; and what is appended is
    # a copy of it
    from ..engine import origins
    COPY = ("copy", "deepcopy", "dict")
    PARAM = "param:result"
    if "result" not in f.params:
        raise AnchorError("StoreResultsCallback.on_trial_result: parameter `result` not found")
    mut = []
    for n in cfg.nodes:
        if n.kind != "stmt":
            continue
        st = n.ast
        if isinstance(st, (ast.Assign, ast.AugAssign)):
            tg = st.targets if isinstance(st, ast.Assign) else [st.target]
            mut += [(n.id, t.value.id) for t in tg if isinstance(t, ast.Subscript) and isinstance(t.value, ast.Name)]
        for x in cfg.node_walk(n.id):
            if isinstance(x, ast.Call) and isinstance(x.func, ast.Attribute) and isinstance(x.func.value, ast.Name) \
                    and x.func.attr in ("update", "pop", "setdefault", "clear", "popitem"):
                mut.append((n.id, x.func.value.id))
            if isinstance(x, ast.Call) and isinstance(x.func, ast.Attribute) and isinstance(x.func.value, ast.Name) \
                    and x.func.value.id == "self":
                mut += [(n.id, a_.id) for a_ in x.args if isinstance(a_, ast.Name)]
    viol = [(m, nm) for m, nm in mut if PARAM in origins(f, nm, m)]
    row_or = origins(f, rowvar, nid) if rowvar is not None else []
    is_copy = lambda e: isinstance(e, ast.Call) and fn_name(e) in COPY and any(
        isinstance(y, ast.Name) and PARAM in origins(f, y.id, nid_) for nid_ in [n_.id for n_ in cfg.nodes if any(z is e for z in cfg.node_walk(n_.id))][:1]
        for y in ast.walk(e))
    copied = bool(row_or) and all(not isinstance(o, (str, tuple)) and is_copy(o) for o in row_or)
    rep.put(rowvar is not None and copied and not viol, clause, "taint",
            "StoreResultsCallback.on_trial_result: row is a copy made before the first store", f,
            cfg.nodes[viol[0][0]].ast if viol else None,
            f"{len(mut)} stores / hand-overs, none of them on the delivered dict itself",
            "the dict delivered to the scheduler is mutated (decision/status/config columns written into the caller's result)")
    # self.results is only appended to
    ws = [(g, n, k) for g, n, k in ctx.writers("results", classes=["StoreResultsCallback"])]
    bad = [(g, n, k) for g, n, k in ws if not ((g.name == "__init__" and k == "store") or k == "call:append")]
    rep.put(not bad, clause, "who_may_write", "StoreResultsCallback.results is append-only", f, None,
            f"{len(ws)} write sites: __init__ and append", "results list rewritten/reordered at: " +
            ", ".join(f"{g.short}({k})" for g, n, k in bad))


def s9_local_backend_order(ctx, rep, clause="S3"):
    """LocalBackend._all_trial_results: the status of a job is read BEFORE its output is parsed.  A job that is seen as finished has
    then written everything it will ever write, so 'completed' is never delivered with the tail of the reports missing (the tuner
    does not poll a finished trial again)."""
    from .common import out_of_order, node_calls
    from .common import body_owner
    f = body_owner(ctx, ctx.P.method("LocalBackend", "_all_trial_results"),
                   lambda m: any(isinstance(x, ast.Call) and fn_name(x) == "retrieve" for x in walk_shallow(m.node)))
    bad, firsts, thens = out_of_order(ctx, f, node_calls("_read_status"), node_calls("retrieve"))
    if not firsts or not thens:
        raise AnchorError("LocalBackend._all_trial_results: _read_status / retrieve(...) not found")
    cfg = cfg_of(f)
    rep.put(not bad, clause, "must_precede", "LocalBackend._all_trial_results: the job's status is read before its output is parsed", f,
            cfg.nodes[bad[0][0]].ast if bad else None, "", "the output is parsed first and the status read afterwards: a job that prints its last report and "
            "exits between the two reads is delivered as finished without that report - the tuner never polls it again, the final result is lost")


def run(ctx, rep, tier="quick"):
    s9_local_backend_order(ctx, rep)
    s1(ctx, rep)
    s2(ctx, rep)
    s3(ctx, rep)
    s4(ctx, rep)
    s5(ctx, rep)
    s6(ctx, rep)
    s6b(ctx, rep)
    from .common import shared_mutable_stores
    n_ = 0
    for f_ in sorted(ctx.P.functions.values(), key=lambda f: f.qualname):
        if f_.module.relpath in ["syne_tune/backend/trial_backend.py", "syne_tune/backend/simulator_backend/simulator_backend.py", "syne_tune/backend/simulator_backend/events.py", "syne_tune/tuner.py", "syne_tune/blackbox_repository/simulated_tabular_backend.py"]:
            n_ += 1
            for name, sinks in shared_mutable_stores(ctx, f_):
                rep.bad("S5", "aliasing", f"{f_.short}: the mailbox and the trial record hold separate lists", f_, sinks[0],
                        f"the one list `{name}` is stored in {len(sinks)} places: a result appended to one of them later also appears in the "
                        "other, so it is appended twice to the shared list and delivered twice")
    rep.put(n_ > 0, "S5", "aliasing", "no fresh list / dict is stored in two long-lived places of the backends", None, None, f"{n_} functions swept")
    s7(ctx, rep)
    s8(ctx, rep)
