"""C07 - domains: samples and decoded vectors are members; encoding and JSON round trips."""
import ast

from ..core.model import AnchorError, ClassInfo, FuncInfo
from ..core.cfg import walk_shallow, cfg_of
from ..core.facts import U, atoms_of
from ..engine import argn, fn_name, kwarg, local_defs, returns_of, stmts_in
from ..kinds.taint import tainted_returns, n_returns

EXPLANATION = (
    "Decides structural clauses of C07: S1 the encoder dispatch handles every concrete Domain class and, on each branch, "
    "establishes the size precondition the chosen encoder's constructor asserts (branch conditions + the domain's own "
    "constructor invariants must imply it); S2 every value leaving the internal scale (from_internal / exp / rounding) reaches "
    "a return only through np.clip with the domain bounds, and encoders return through clip to [0,1]; S3 JSON writer/reader "
    "agreement: for every Domain class the public instance attributes equal the constructor parameters (what to_dict "
    "writes is what from_dict passes), and for every sampler a domain method can attach, the name its __str__ returns "
    "resolves - through the `_<name>` lookup from_dict performs - to exactly that sampler class, whose attributes equal its "
    "constructor parameters; S4 the scaling factory's arms use the same predicates the sub-space check compares, and those "
    "predicates name sampler classes that exist; S5 sibling agreement on integer conversion - every int() on the decode/cast paths "
    "(domain value table, finite-range and integer encoders) is applied to a round-half-even result, never truncates. NOT decided: numeric membership after exp(log(.)), ±0.5 integer rounding, "
    "1e-7 round trip, nearest-neighbour ties.")

FLOOR = {"S1": 6, "S2": 5, "S3": 8, "S4": 3, "S5": 6, "S6": 4}


# ----------------------------------------------------------------------------- S1
def _len_constraints_from_asserts(ctx, cls: ClassInfo, param_names):
    """[(op, const, assert node, owner class)] from asserts `len(<param>) op const` / `<attr> op const` where attr = len(param)
    in cls.__init__ and the super().__init__ chain."""
    out = []
    P = ctx.P
    seen = set()
    k = cls
    while k is not None and k not in seen:
        seen.add(k)
        init = k.methods.get("__init__")
        nxt = None
        if init is not None:
            lenvars = {}
            for st in walk_shallow(init.node):
                if isinstance(st, ast.Assign) and isinstance(st.value, ast.Call) and fn_name(st.value) == "len" \
                        and st.value.args and U(argn(st.value, 0)) in param_names:
                    lenvars[U(st.targets[0])] = True
            for st in walk_shallow(init.node):
                if isinstance(st, ast.Assert):
                    for a in atoms_of(st.test, True):
                        c = _as_len_constraint(a, lambda s: (s.startswith("len(") and s[4:-1] in param_names) or s in lenvars)
                        if c:
                            out.append((c[0], c[1], st, k))
                if isinstance(st, ast.Call) and isinstance(st.func, ast.Attribute) and st.func.attr == "__init__" \
                        and isinstance(st.func.value, ast.Call) and fn_name(st.func.value) == "super":
                    m = P.lookup_method(k, "__init__", after=k)
                    nxt = m.defining_cls if m is not None else None
                    # parameter renaming through the super call (positional)
                    if m is not None:
                        sp = [p for p in m.params if p != "self"]
                        new = set()
                        for i, a in enumerate(st.args):
                            if U(a) in param_names and i < len(sp):
                                new.add(sp[i])
                        for kw_ in st.keywords:
                            if kw_.arg and U(kw_.value) in param_names:
                                new.add(kw_.arg)
                        param_names = new or param_names
        else:
            m = P.lookup_method(k, "__init__")
            nxt = m.defining_cls if m is not None and m.defining_cls is not k else None
        k = nxt
    return out


def _as_len_constraint(a, is_len):
    """atom -> (op, const) constraint on the length L, or None"""
    def num(s):
        try:
            return int(s)
        except ValueError:
            return None
    if a[0] == "lt":
        if is_len(a[2]) and num(a[1]) is not None:
            return (">", num(a[1]))
        if is_len(a[1]) and num(a[2]) is not None:
            return ("<", num(a[2]))
    if a[0] == "le":
        if is_len(a[2]) and num(a[1]) is not None:
            return (">=", num(a[1]))
        if is_len(a[1]) and num(a[2]) is not None:
            return ("<=", num(a[2]))
    if a[0] == "eq":
        for x, y in ((a[1], a[2]), (a[2], a[1])):
            if is_len(x) and num(y) is not None:
                return ("==" if a[3] else "!=", num(y))
    return None


def _sat(L, c):
    op, k = c
    return {">": L > k, "<": L < k, ">=": L >= k, "<=": L <= k, "==": L == k, "!=": L != k}[op]


def _implies(known, goal):
    return all(_sat(L, goal) for L in range(0, 12) if all(_sat(L, c) for c in known))


def s1(ctx, rep):
    P = ctx.P
    f = P.method("HyperparameterRangesImpl", "__init__")
    domain = P.cls("Domain")
    enc_base = P.cls("HyperparameterRange")
    concrete = [c for c in P.all_subclasses(domain) if c.module is domain.module]
    # loop over internal keys
    loops = [st for st in walk_shallow(f.node) if isinstance(st, ast.For)]
    if len(loops) != 1:
        raise AnchorError("HyperparameterRangesImpl.__init__: dispatch loop not found")
    loop = loops[0]
    # variable holding the domain
    dv = None
    for st in loop.body:
        if isinstance(st, ast.Assert) and isinstance(st.test, ast.Call) and fn_name(st.test) == "isinstance" \
                and U(argn(st.test, 1)) == "Domain":
            dv = U(argn(st.test, 0))
    if dv is None:
        raise AnchorError("dispatch: `assert isinstance(hp_range, Domain)` not found")
    lenvars = {}
    for st in stmts_in(loop.body):
        if isinstance(st, ast.Assign) and isinstance(st.value, ast.Call) and fn_name(st.value) == "len" and st.value.args \
                and U(argn(st.value, 0)).startswith(dv + "."):
            lenvars[U(st.targets[0])] = U(argn(st.value, 0))[len(dv) + 1:]

    def encoder_of(e):
        r = P.resolve_expr_static(f.module, e, None) if isinstance(e, (ast.Name, ast.Attribute)) else None
        return r if isinstance(r, ClassInfo) and enc_base in P.mro(r) else None

    results = {}  # domain cls -> list of (encoder cls, path conds, node)

    def split_test(t, D):
        """(static truth of the isinstance part for domain class D: True/False/None, remaining condition or None)"""
        parts = t.values if isinstance(t, ast.BoolOp) and isinstance(t.op, ast.And) else [t]
        static, rest = None, []
        for p_ in parts:
            if isinstance(p_, ast.Call) and fn_name(p_) == "isinstance" and U(argn(p_, 0)) == dv:
                k = P.resolve_expr_static(f.module, argn(p_, 1), None)
                if not isinstance(k, ClassInfo):
                    raise AnchorError(f"dispatch: isinstance against unknown class {U(argn(p_, 1))}")
                val = k in P.mro(D)
                static = val if static is None else (static and val)
            else:
                rest.append(p_)
        if static is None:
            return None, t
        if not rest:
            return static, None
        return static, (rest[0] if len(rest) == 1 else ast.BoolOp(op=ast.And(), values=rest))

    def walk(stmts, D, conds, bindings):
        """bindings: list of (var, encoder class, path conds, node) - the possible current values of the class variable"""
        for st in stmts:
            if isinstance(st, ast.If):
                static, rest = split_test(st.test, D)
                if static is False:
                    bindings = walk(st.orelse, D, conds, bindings)
                elif static is True and rest is None:
                    bindings = walk(st.body, D, conds, bindings)
                else:
                    c = rest if rest is not None else st.test
                    a_ = walk(st.body, D, conds + [(c, True)], list(bindings))
                    b_ = walk(st.orelse, D, conds + [(c, False)], list(bindings))
                    new_a = [x for x in a_ if x not in bindings]
                    new_b = [x for x in b_ if x not in bindings]
                    if new_a and new_b:
                        bindings = new_a + new_b
                    elif new_a or new_b:
                        bindings = new_a + new_b + [x for x in bindings]
                continue
            for x in walk_shallow(st):
                if isinstance(x, ast.Assign) and isinstance(x.targets[0], ast.Name) and encoder_of(x.value) is not None:
                    bindings = [(x.targets[0].id, encoder_of(x.value), list(conds), x)]
                if isinstance(x, ast.Call):
                    k = encoder_of(x.func)
                    if k is not None:
                        results.setdefault(D, []).append((k, list(conds), x, x))
                    elif isinstance(x.func, ast.Name) and any(v[0] == x.func.id for v in bindings):
                        for v in bindings:
                            if v[0] == x.func.id:
                                results.setdefault(D, []).append((v[1], v[2], v[3], x))
        return bindings

    for D in concrete:
        walk(loop.body, D, [], [])
        got = results.get(D, [])
        if not got:
            rep.bad("S1", "exhaustive_dispatch", f"HyperparameterRangesImpl.__init__: encoder for {D.name}", f, loop,
                    f"no encoder constructor is reachable for domain class {D.name}: such a space cannot be encoded")
            continue
        for K, conds, node, call in got:
            # preconditions of K's constructor on the length of its `choices`-like parameter
            init = P.lookup_method(K, "__init__")
            if init is None:
                continue
            # which constructor parameter receives a sequence attribute of the domain
            seq_params = {}
            for kw_ in call.keywords:
                if kw_.arg and dv + "." in U(kw_.value):
                    for x in ast.walk(kw_.value):
                        if isinstance(x, ast.Attribute) and U(x.value) == dv:
                            seq_params[kw_.arg] = x.attr
            pre = _len_constraints_from_asserts(ctx, K, set(seq_params)) if seq_params else []
            if not pre:
                rep.ok("S1", "exhaustive_dispatch", f"HyperparameterRangesImpl.__init__: {D.name} → {K.name}", f, node,
                       "no size precondition")
                continue
            attr = next(iter(seq_params.values()))
            known = []
            for c, t in conds:
                for a in atoms_of(c, t):
                    k2 = _as_len_constraint(a, lambda s: s in lenvars and lenvars[s] == attr or s == f"len({dv}.{attr})")
                    if k2:
                        known.append(k2)
            # invariants the domain class itself asserts on that attribute at construction
            dom_inv = [(op, k) for op, k, _, _ in _len_constraints_from_asserts(ctx, D, {attr})]
            for op, k, anode, owner in pre:
                ok = _implies(known + dom_inv, (op, k))
                rep.put(ok, "S1", "exhaustive_dispatch",
                        f"HyperparameterRangesImpl.__init__: {D.name} → {K.name} establishes len({attr}) {op} {k}", f, node,
                        f"branch gives {known}, domain invariant {dom_inv}",
                        f"{K.name}.__init__ asserts len(choices) {op} {k}, but on this branch only {known + dom_inv} is known: a "
                        f"{D.name} domain violating it makes the encoder constructor raise")


# ----------------------------------------------------------------------------- S2
def _is_clip(bound_words):
    def f(c):
        if fn_name(c) != "clip" or len(c.args) < 3:
            return False
        s = U(argn(c, 1)) + " " + U(argn(c, 2))
        return all(any(w in s for w in alt) for alt in bound_words)
    return f


def s2(ctx, rep):
    P = ctx.P
    lowup = [("lower", "0"), ("upper", "1", "sz")]
    insts = [
        ("scale_from_zero_one", P.func("syne_tune.optimizer.schedulers.searchers.utils.hp_ranges_impl.scale_from_zero_one"),
         lambda e: (isinstance(e, ast.Call) and fn_name(e) in ("from_internal", "exp", "expm1")) or
         (isinstance(e, ast.Name) and e.id.endswith("_internal") and isinstance(e.ctx, ast.Load))),     # bounds on the internal scale
        ("HyperparameterRangeFiniteRange._map_from_int", P.method("HyperparameterRangeFiniteRange", "_map_from_int"),
         lambda e: isinstance(e, ast.Call) and fn_name(e) in ("from_internal", "exp")),
        ("FiniteRange._map_from_int", P.method("FiniteRange", "_map_from_int"),
         lambda e: isinstance(e, ast.Call) and fn_name(e) in ("exp",) or (isinstance(e, ast.BinOp) and "_step_internal" in U(e))),
        ("HyperparameterRangeInteger._round_to_int", P.method("HyperparameterRangeInteger", "_round_to_int"),
         lambda e: isinstance(e, ast.Call) and fn_name(e) in ("round", "rint")),
        ("HyperparameterRangeContinuous.to_ndarray", P.method("HyperparameterRangeContinuous", "to_ndarray"),
         lambda e: isinstance(e, ast.Call) and fn_name(e) == "to_internal"),
    ]
    for name, f, src in insts:
        if not any(src(x) for x in ast.walk(f.node)):
            raise AnchorError(f"{name}: no value leaves the internal scale here any more (source pattern not found)")
        bad = tainted_returns(f, src, _is_clip(lowup))
        rep.put(not bad, "S2", "taint", f"{name}: value reaches return only through np.clip(·, lower, upper)", f,
                bad[0][0] if bad else None, f"{n_returns(f)} return(s), all clipped",
                f"`{U(bad[0][0]) if bad else ''}` can return a value that left the internal scale without being clipped to the "
                "domain bounds: a decoded value may lie outside the domain")


# ----------------------------------------------------------------------------- S3
def _init_chain_attrs(ctx, cls):
    """(public attrs assigned by the constructor chain, params of cls.__init__)"""
    P = ctx.P
    init = P.lookup_method(cls, "__init__")
    if init is None:
        return set(), []
    params = [p for p in init.params if p != "self"]
    attrs = set()
    seen = set()

    def collect(fn):
        if fn in seen:
            return
        seen.add(fn)
        for x in walk_shallow(fn.node):
            if isinstance(x, (ast.Assign, ast.AnnAssign, ast.AugAssign)):
                tg = x.targets if isinstance(x, ast.Assign) else [x.target]
                for t in tg:
                    for e in ([t] if not isinstance(t, ast.Tuple) else t.elts):
                        if isinstance(e, ast.Attribute) and isinstance(e.value, ast.Name) and e.value.id == "self":
                            attrs.add(e.attr)
            if isinstance(x, ast.Call) and isinstance(x.func, ast.Attribute):
                if isinstance(x.func.value, ast.Call) and fn_name(x.func.value) == "super":
                    m = P.lookup_method(fn.defining_cls or cls, x.func.attr, after=fn.defining_cls or cls)
                    if m is not None:
                        collect(m)
                elif isinstance(x.func.value, ast.Name) and x.func.value.id == "self":
                    m = P.lookup_method(cls, x.func.attr)
                    if m is not None:
                        collect(m)
    collect(init)
    return attrs, params


def _json_protocol(ctx):
    """How sampler objects are named in the JSON form and resolved back:
    (writer specials {sampler class: constant name}, reader specials {name: class constructed}, reader has the
    `getattr(domain_cls, '_' + name)` fallback).  Derived from the functions that build / read 'sampler_cls'."""
    P = ctx.P
    mod = P.cls("Domain").module
    wspecial, rspecial, fallback = {}, {}, False
    from .c01 import _dom_atoms
    for f in mod.functions.values():
        src = U(f.node)
        if "'sampler_cls'" not in src:
            continue
        cfg = cfg_of(f)
        for n in cfg.nodes:
            if not (n.kind == "stmt" and isinstance(n.ast, ast.Return) and n.ast.value is not None):
                continue
            at = _dom_atoms(cfg, n.id)
            v = n.ast.value
            # writer:  on the edge isinstance(sampler, K):  return {"sampler_cls": "N", ...}
            if isinstance(v, ast.Dict):
                for kk, vv in zip(v.keys, v.values):
                    if isinstance(kk, ast.Constant) and kk.value == "sampler_cls" and isinstance(vv, ast.Constant):
                        for a_ in at:
                            if a_[0] == "isinstance" and a_[3] is True:
                                k = P.resolve_expr_static(mod, ast.parse(a_[2], mode="eval").body, None)
                                if isinstance(k, ClassInfo):
                                    wspecial[k] = vv.value
            # reader:  on the edge sampler_cls == "N":  return K(...)
            if isinstance(v, ast.Call):
                k = P.resolve_expr_static(mod, v.func, None)
                if isinstance(k, ClassInfo):
                    for a_ in at:
                        if a_[0] == "eq" and a_[3] is True:
                            for side in (a_[1], a_[2]):
                                if side[:1] in "'\"":
                                    rspecial[ast.literal_eval(side)] = k
        for x in walk_shallow(f.node):
            if isinstance(x, ast.Call) and fn_name(x) == "getattr" and len(x.args) >= 2 and isinstance(argn(x, 1), ast.BinOp) \
                    and isinstance(argn(x, 1).op, ast.Add) and isinstance(argn(x, 1).left, ast.Constant) and argn(x, 1).left.value == "_":
                fallback = True
    if not fallback and not rspecial:
        raise AnchorError("config_space: the code that resolves 'sampler_cls' back to a sampler class is not recognised")
    return wspecial, rspecial, fallback


def s3(ctx, rep):
    P = ctx.P
    domain = P.cls("Domain")
    mod = domain.module
    concrete = [c for c in P.all_subclasses(domain) if c.module is mod]
    # (a) what to_dict writes == what from_dict passes to the constructor
    td = P.func("syne_tune.config_space.to_dict")
    conv = "__dict__" in U(td.node) and "startswith('_')" in U(td.node)
    if not conv:
        raise AnchorError("to_dict no longer serialises the public __dict__ entries; rule S3a needs re-reading")
    for D in concrete:
        attrs, params = _init_chain_attrs(ctx, D)
        pub = {a for a in attrs if not a.startswith("_") and a != "sampler"}
        rep.put(pub == set(params), "S3", "agreement", f"{D.name}: public attributes == constructor parameters", D, None,
                f"{sorted(pub)}",
                f"to_dict writes {sorted(pub)} as domain_kwargs but {D.name}.__init__ takes {sorted(params)}: from_dict "
                + ("raises TypeError" if pub - set(params) else "rebuilds the domain with defaults for " + str(sorted(set(params) - pub))))
    # (b) sampler name round trip
    attached = []  # (domain cls that defines the attaching method, sampler ClassInfo, node, func)
    for k in concrete:
        for m in k.methods.values():
            for x in walk_shallow(m.node):
                if isinstance(x, ast.Call) and fn_name(x) == "set_sampler" and x.args and isinstance(argn(x, 0), ast.Call):
                    sc = argn(x, 0).func
                    r = None
                    if isinstance(sc, ast.Attribute) and isinstance(sc.value, ast.Name) and sc.value.id == "self":
                        for kk in P.mro(k):
                            if sc.attr in kk.nested:
                                r = kk.nested[sc.attr]
                                break
                    else:
                        r = P.resolve_expr_static(mod, sc, k)
                    if isinstance(r, ClassInfo):
                        attached.append((k, r, x, m))
        dflt = k.class_attrs.get("default_sampler_cls")
        if isinstance(dflt, ast.Name) and dflt.id in k.nested:
            attached.append((k, k.nested[dflt.id], dflt, None))
    wspecial, rspecial, fallback = _json_protocol(ctx)
    seen = set()
    for D, S, node, m in attached:
        # samplers are attached on a copy of the *domain the method is called on*: only the defining class matters
        key = (S.qualname, D.qualname)
        owner = None
        for kk in P.mro(D):
            if S.name in kk.nested and kk.nested[S.name] is S:
                owner = kk
        if key in seen:
            continue
        seen.add(key)
        strm = P.lookup_method(S, "__str__")
        name = None
        special_w = [n_ for k_, n_ in wspecial.items() if k_ in P.mro(S)]
        if special_w:
            name = special_w[0]
        elif strm is not None:
            rv = [r.value for r in returns_of(strm)]
            if len(rv) == 1 and isinstance(rv[0], ast.Constant) and isinstance(rv[0].value, str):
                name = rv[0].value
        where = f"{D.name}.{m.name if m else 'default_sampler_cls'} attaches {S.short}"
        if name is None:
            rep.bad("S3", "agreement", f"JSON sampler name round trip: {where}", m or D, node,
                    f"sampler class {S.short} has no __str__ returning a constant name: to_dict writes the default object "
                    f"repr as sampler_cls and from_dict's getattr({D.name}, '_' + name) raises AttributeError")
            continue
        target = rspecial.get(name)
        if target is None and fallback:
            for kk in P.mro(D):
                if "_" + name in kk.nested:
                    target = kk.nested["_" + name]
                    break
        ok = target is S
        rep.put(ok, "S3", "agreement", f"JSON sampler name round trip: {where}", m or D, node,
                (f"written as {name!r}, reader table → {S.short}" if name in rspecial else f"str → {name!r} → {D.name}._{name} is {S.short}"),
                f"{S.short} is written as {name!r}" + (f" (its __str__, inherited from {strm.defining_cls.name})" if strm is not None else "") + "; from_dict looks up "
                f"{D.name}._{name} = {target.short if target else 'nothing'}: a space using this sampler is read back "
                "with a different sampler (encodes differently)" )
        if ok and name not in rspecial:
            a2, p2 = _init_chain_attrs(ctx, S)
            pub2 = {a for a in a2}
            rep.put(pub2 == set(p2), "S3", "agreement", f"JSON sampler kwargs: {S.short} attributes == constructor parameters", S, None,
                    f"{sorted(pub2)}")


# ----------------------------------------------------------------------------- S4
def s4(ctx, rep):
    P = ctx.P
    gs = P.func("syne_tune.optimizer.schedulers.searchers.utils.scaling.get_scaling")
    cfg = cfg_of(gs)
    want = {"LogScaling": ("is_log_space", True), "ReverseLogScaling": ("is_reverse_log_space", True),
            "LinearScaling": None}
    got = {}
    for n in cfg.nodes:
        if n.kind == "stmt" and isinstance(n.ast, ast.Return) and isinstance(n.ast.value, ast.Call):
            got[fn_name(n.ast.value)] = ctx.facts(gs).at(n.id)
    for k, w in want.items():
        if k not in got:
            rep.bad("S4", "agreement", f"get_scaling returns {k}", gs, None, "arm missing")
            continue
        if w is None:
            ok = all(a[0] == "truth" and a[2] is False for a in got[k]) and len(got[k]) == 2
        else:
            ok = any(a[0] == "truth" and a[2] is True and a[1].startswith(w[0] + "(") for a in got[k])
        rep.put(ok, "S4", "agreement", f"get_scaling: {k} selected by {w[0] if w else 'neither predicate'}", gs, None,
                str(sorted(got[k])))
    # predicates name nested sampler classes that exist
    for fname in ("is_log_space", "is_reverse_log_space", "is_uniform_space"):
        f = P.func("syne_tune.config_space." + fname)
        names = [x for x in walk_shallow(f.node) if isinstance(x, ast.Attribute) and isinstance(x.value, ast.Name)
                 and x.attr.startswith("_") and x.value.id[:1].isupper()]
        bad = [U(x) for x in names if not isinstance(P.resolve_expr_static(f.module, x, None), ClassInfo)]
        rep.put(bool(names) and not bad, "S4", "agreement", f"{fname} names sampler classes that exist", f, None,
                ", ".join(sorted({U(x) for x in names})), f"unknown: {bad}")
    # the sub-space check compares both predicates
    a = P.method("HyperparameterRanges", "_assert_sub_config_space")
    ok = True
    for pred in ("is_log_space", "is_reverse_log_space"):
        hit = [c for c in walk_shallow(a.node) if isinstance(c, ast.Compare) and len(c.ops) == 1 and isinstance(c.ops[0], ast.Eq)
               and isinstance(c.left, ast.Call) and isinstance(c.comparators[0], ast.Call) and fn_name(c.left) == pred
               and fn_name(c.comparators[0]) == pred and U(argn(c.left, 0)) != U(argn(c.comparators[0], 0))]
        ok = ok and len(hit) == 1
    rep.put(ok, "S4", "agreement", "_assert_sub_config_space compares the predicates get_scaling dispatches on", a, None, "")


ROUNDERS = ("round", "rint", "around", "round_")


def _rounded(f, e, depth=0):
    """Is e (the argument of int()) the result of a round-half-even primitive (possibly clipped / cast)?"""
    if depth > 4:
        return False
    if isinstance(e, ast.Call):
        n = fn_name(e)
        if n in ROUNDERS:
            return True
        if n in ("clip", "float", "minimum", "maximum", "min", "max", "asarray", "array") and e.args:
            return _rounded(f, argn(e, 0), depth + 1)
        return False
    if isinstance(e, ast.Name):
        ds = [d for d in local_defs(f, e.id) if not isinstance(d, tuple)]
        return bool(ds) and all(_rounded(f, d, depth + 1) for d in ds)
    return False


def s5(ctx, rep):
    """Sibling agreement on integer conversion: the domain's own value table and the encoder's decoder must round the
    same way (round-half-even primitives), never truncate."""
    P = ctx.P
    sites = [P.method("FiniteRange", "_map_from_int"), P.method("HyperparameterRangeFiniteRange", "_map_from_int"),
             P.method("FiniteRange", "_map_to_int"), P.method("HyperparameterRangeFiniteRange", "_map_to_int"),
             P.method("HyperparameterRangeInteger", "_round_to_int"), P.method("syne_tune.config_space.Integer", "cast")]
    for f in sites:
        ints = [x for x in walk_shallow(f.node) if isinstance(x, ast.Call) and isinstance(x.func, ast.Name) and x.func.id == "int" and x.args]
        if not ints:
            raise AnchorError(f"{f.short}: no int() conversion found any more")
        bad = [x for x in ints if not _rounded(f, argn(x, 0))]
        rep.put(not bad, "S5", "sibling", f"{f.short}: int() only of a rounded value", f, bad[0] if bad else None,
                f"{len(ints)} conversion(s) through {ROUNDERS[:2]}",
                f"`{U(bad[0]) if bad else ''}` converts by truncation, while the sibling implementations round half-to-even: the decoder "
                "and the domain's own list of values disagree (e.g. for negative or x.5 grid points), so decoded values are not "
                "members and the round trip of a member fails")


def s5b(ctx, rep):
    """guard table for the finite-range codec (found thin by the generic mutation audit): exp / log are applied exactly on
    a log-scale range, on both sides of the round trip; integers are produced exactly for integer ranges"""
    from .common import require_guard
    P = ctx.P
    fr = P.cls("FiniteRange")
    for mname, fn_ in (("_map_from_int", "exp"), ("_map_to_int", "log")):
        m = fr.methods[mname]
        cm = cfg_of(m)
        nodes = [n.id for n in cm.nodes if n.kind == "stmt" and any(isinstance(y, ast.Call) and fn_name(y) == fn_ for y in cm.node_walk(n.id))]
        require_guard(ctx, rep, "S5", m, f"FiniteRange.{mname}: np.{fn_} is applied | the range is on a log scale", nodes,
                      [("self.log_scale", lambda a: a[0] == "truth" and a[1] == "self.log_scale" and a[2] is True)],
                      "encode and decode of a (log) finite range are no longer inverse to each other: decoded values are not grid points")
    for cname, cls_ in (("FiniteRange", fr), ("HyperparameterRangeFiniteRange", P.cls("HyperparameterRangeFiniteRange"))):
        m = cls_.methods["_map_from_int"]
        cm = cfg_of(m)
        ints = [n.id for n in cm.nodes if n.kind == "stmt" and any(isinstance(y, ast.Call) and fn_name(y) == "int" for y in cm.node_walk(n.id))]
        require_guard(ctx, rep, "S5", m, f"{cname}._map_from_int: the value is made an int | the range is an integer range", ints,
                      [("self.cast_int", lambda a: a[0] == "truth" and a[1] == "self.cast_int" and a[2] is True)],
                      "float ranges decode to ints (values off the grid) and integer ranges to floats (wrong type)")


def s5c(ctx, rep):
    """the encoder of a finite range is built over the SAME grid as the domain: the size handed to
    HyperparameterRangeFiniteRange is the number of grid positions (size / len(_uniform_int)), and len(FiniteRange) is that
    number - not the number of distinct values, which is smaller when integer rounding makes grid values coincide"""
    P = ctx.P
    fr = P.cls("FiniteRange")
    ln = fr.methods["__len__"]
    rv = returns_of(ln)
    ok = len(rv) == 1 and U(rv[0].value) in ("len(self._uniform_int)", "self.size")
    rep.put(ok, "S1", "agreement", "FiniteRange.__len__ is the number of grid positions", ln, rv[0] if rv else None, "",
            f"len(FiniteRange) is `{U(rv[0].value) if rv else '?'}`: the encoder is built with size=len(domain), so a different count gives it a coarser "
            "(or finer) grid than the domain - decoded values are not members and members do not round-trip")
    init = P.method("HyperparameterRangesImpl", "__init__")
    mk = [x for x in walk_shallow(init.node) if isinstance(x, ast.Call) and fn_name(x) == "HyperparameterRangeFiniteRange"]
    ok = len(mk) == 1 and kwarg(mk[0], "size") is not None
    if ok:
        sz = U(kwarg(mk[0], "size"))
        dom = [U(a.args[0]) for a in [kwarg(mk[0], "size")] if isinstance(a, ast.Call) and fn_name(a) == "len" and a.args]
        ok = (bool(dom) or sz.endswith(".size")) and U(kwarg(mk[0], "cast_int") or ast.Constant(value=None)).endswith(".cast_int")
    rep.put(ok, "S1", "agreement", "HyperparameterRangesImpl.__init__: the finite-range encoder gets the domain's own grid size and integer flag", init,
            mk[0] if mk else None, "", "the encoder of a finite range is built over another grid than the domain's")


def s6(ctx, rep):
    """a numeric bound that was not given is recognised by `is None`: 0 is a legal bound"""
    from .common import numeric_optional_params, truthiness_uses
    P = ctx.P
    n = 0
    for f in sorted(P.functions.values(), key=lambda f: f.qualname):
        if f.module.relpath not in ("syne_tune/optimizer/schedulers/searchers/utils/hp_ranges_impl.py", "syne_tune/config_space.py",
                                    "syne_tune/optimizer/schedulers/searchers/utils/hp_ranges.py"):
            continue
        for p_ in numeric_optional_params(f):
            n += 1
            uses = truthiness_uses(f, p_)
            rep.put(not uses, "S6", "guarded_by", f"{f.short}: optional number `{p_}` is tested with `is None`, not for truth", f, uses[0] if uses else None, "",
                    f"`{U(uses[0])[:70] if uses else ''}` treats `{p_} = 0` as 'not given': a range whose active bound (or bound) is 0 gets the "
                    "default instead, so encoded vectors inside the advertised box decode outside the (active) domain")
    if n < 4:
        raise AnchorError(f"C07-S6: only {n} optional numeric parameters found in the domain / range modules (4 confirmed)")


def s8_stateless(ctx, rep):
    """the codec keeps no state between calls: in the range classes (hp_ranges, hp_ranges_impl, scaling) an attribute of self is
    assigned only by a constructor, or by a helper that only constructors call.  A value parked on the object by encode / decode /
    get_ndarray_bounds (a cache of bounds, the last vector) goes stale as soon as a public field it was computed from
    (`value_for_last_pos`, the active ranges) is re-assigned from outside - which the multi-fidelity searcher does on every call."""
    P = ctx.P
    files = ("utils/hp_ranges.py", "utils/hp_ranges_impl.py", "utils/scaling.py")
    funcs = [f for f in P.functions.values() if f.module.relpath.endswith(files) and f.cls is not None]
    callers = {}
    for g in P.functions.values():
        for x in walk_shallow(g.node, include_lambda=True):
            if isinstance(x, ast.Call) and isinstance(x.func, ast.Attribute):
                callers.setdefault(x.func.attr, set()).add(g.name)
    n = 0
    for f in sorted(funcs, key=lambda f_: f_.qualname):
        stores = [x for x in walk_shallow(f.node) if isinstance(x, (ast.Assign, ast.AugAssign, ast.AnnAssign)) and any(
            isinstance(t, ast.Attribute) and isinstance(t.value, ast.Name) and t.value.id == "self"
            for t in (x.targets if isinstance(x, ast.Assign) else [x.target]))]
        if not stores:
            continue
        n += 1
        ctor_only = f.name == "__init__" or (f.name.startswith("_") and callers.get(f.name, set()) <= {"__init__"} and bool(callers.get(f.name)))
        rep.put(ctor_only, "S2", "who_may_write", f"{f.short}: range objects are written by constructors only", f, stores[0], "",
                f"`{U(stores[0])[:70]}` stores state on the range object outside construction: a value computed from fields that callers re-assign "
                "(value_for_last_pos, active ranges) is kept and goes stale - vectors inside the cached bounds decode outside the current range")
    if n < 5:
        raise AnchorError(f"range classes: only {n} methods that assign attributes found")


def run(ctx, rep, tier="quick"):
    s5(ctx, rep)
    s1(ctx, rep)
    s2(ctx, rep)
    s3(ctx, rep)
    s4(ctx, rep)
    s5b(ctx, rep)
    s5c(ctx, rep)
    s6(ctx, rep)
    s8_stateless(ctx, rep)
