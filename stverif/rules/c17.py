"""C17 - the results log and the reported best configuration reflect what happened."""
import ast

from ..core.model import AnchorError
from ..core.cfg import walk_shallow, cfg_of
from ..core.facts import U, atoms_of
from ..engine import argn, fn_name, kwarg, local_defs, returns_of, stmts_in, const_str
from ..kinds import parity, extapi
from . import c02

EXPLANATION = (
    "Decides structural clauses of C17: S1 one copied row per delivered result, appended in delivery order to an append-only "
    "list (shared with C02-S8); S2 row contents - the row receives the scheduler's decision, the status, the trial id, one "
    "config_<key> column per key of the trial's configuration and a tuner time stamp unless one is present, each from the "
    "matching argument; S3 final results are stored - on_tuning_end reaches store_results, the simulator callback calls the "
    "base on_tuning_end first, and the table is written from exactly that list; S4 running statistics - min/max/sum/count "
    "are updated with the operator their name promises, once per result, and every new result is fed to both the overall and "
    "the per-trial statistics; S5 best per mode - print_best_metric_found and ExperimentResult.best_config are dual pairs "
    "over the mode, the metric name and its mode are resolved together from the same index, the tuner looks the "
    "configuration up by the returned trial id; S6 the module that loads experiment results imports under the installed "
    "numerical library (external-API stub lookup). S1 also: every result given to the scheduler is given, in the same iteration, to every callback with the same trial / result and the decision just taken; a results callback is installed when none is given; the csv file is written whenever its path is known. NOT decided: NaN/tie behaviour of min/sorted/argmin; the CSV text "
    "round trip of floating-point numbers.")

FLOOR = {"S1": 3, "S2": 5, "S3": 3, "S4": 6, "S5": 5, "S6": 1}


def s2(ctx, rep):
    P = ctx.P
    f = P.method("StoreResultsCallback", "on_trial_result")
    cfg = cfg_of(f)
    row = None
    app = [c for nid, c in ctx.calls_in(f, method="append") if U(c.func.value) == "self.results"]
    if app and isinstance(argn(app[0], 0), ast.Name):
        row = argn(app[0], 0).id
    if row is None:
        raise AnchorError("StoreResultsCallback.on_trial_result: appended row variable not found")
    want = {"ST_DECISION": "decision", "ST_STATUS": "status", "ST_TRIAL_ID": "trial.trial_id"}
    got = {}
    # stores into the dict that is appended, under whatever local name it goes at the place of the store
    from .common import same_object
    app_nid = [nid for nid, c in ctx.calls_in(f, method="append") if c is app[0]][0]
    is_row = same_object(f, row, app_nid)
    for n_ in cfg.nodes:
        st = n_.ast
        if n_.kind == "stmt" and isinstance(st, ast.Assign) and isinstance(st.targets[0], ast.Subscript) and isinstance(st.targets[0].value, ast.Name) \
                and is_row(st.targets[0].value.id, n_.id):
            got[U(st.targets[0].slice)] = (U(st.value), st)
    for k, v in want.items():
        ok = k in got and got[k][0] == v
        # unconditional
        if ok:
            nid = [n.id for n in cfg.nodes if n.ast is got[k][1]][0]
            ok = cfg.path(cfg.entry, cfg.exit, deleted={nid}, skip_labels=("exc",)) is None
        rep.put(ok, "S2", "agreement", f"StoreResultsCallback.on_trial_result: row[{k}] = {v} on every path", f, got.get(k, (None, None))[1], "",
                f"the log row does not carry `{v}` under {k} (found {got.get(k, ('nothing',))[0]})")
    # config columns
    loops = [s for s in walk_shallow(f.node) if isinstance(s, ast.For) and U(s.iter) in ("trial.config", "trial.config.keys()", "trial.config.items()")]
    ok = len(loops) == 1
    if ok:
        body = loops[0].body
        kv = U(loops[0].target) if not isinstance(loops[0].target, ast.Tuple) else U(loops[0].target.elts[0])
        lnid = [n_.id for n_ in cfg.nodes if n_.kind == "stmt" and n_.ast is body[0]]
        ok = len(body) == 1 and isinstance(body[0], ast.Assign) and isinstance(body[0].targets[0], ast.Subscript) and \
            isinstance(body[0].targets[0].value, ast.Name) and bool(lnid) and is_row(body[0].targets[0].value.id, lnid[0]) and \
            isinstance(body[0].targets[0].slice, ast.JoinedStr) and U(body[0].targets[0].slice).replace('"', "'") == f"f'config_{{{kv}}}'" and \
            (U(body[0].value) == f"trial.config[{kv}]" or (isinstance(loops[0].target, ast.Tuple) and U(body[0].value) == U(loops[0].target.elts[1])))
    rep.put(ok, "S2", "agreement", "StoreResultsCallback.on_trial_result: one config_<key> column per key of the trial's configuration", f,
            loops[0] if loops else None, "", "the row does not carry the trial's full configuration under config_<key>")
    g = P.method("StoreResultsCallback", "_set_time_fields")
    cg = cfg_of(g)
    st = [n for n in cg.nodes if n.kind == "stmt" and isinstance(n.ast, ast.Assign) and "ST_TUNER_TIME" in U(n.ast.targets[0])]
    ok = len(st) == 1 and any(a[0] == "in" and a[3] is False and a[1] == "ST_TUNER_TIME" for a in ctx.facts(g).at(st[0].id)) and \
        "perf_counter() - self._start_time_stamp" in U(st[0].ast.value)
    rep.put(ok, "S2", "guarded_by", "StoreResultsCallback._set_time_fields: tuner time added unless the backend already stamped the result", g, None, "")
    call = ctx.nodes(f, ctx.sel_call(selfcall="_set_time_fields"), "must", 0)
    appn = [nid for nid, c in ctx.calls_in(f, method="append") if U(c.func.value) == "self.results"]
    ok = bool(call) and bool(appn) and cfg.path(cfg.entry, appn[0], deleted=call) is None
    rep.put(ok, "S2", "must_precede", "StoreResultsCallback.on_trial_result: time stamp set ≺ row appended", f, None, "")


def s3(ctx, rep):
    P = ctx.P
    f = P.method("StoreResultsCallback", "on_tuning_end")
    cfg = cfg_of(f)
    bn = ctx.nodes(f, ctx.sel_call(selfcall="store_results"), "must", 0)
    p = cfg.path(cfg.entry, cfg.exit, deleted=bn, skip_labels=("exc",))
    rep.put(bool(bn) and p is None, "S3", "must_follow", "StoreResultsCallback.on_tuning_end → store_results on every path", f, None, "",
            "the final results are not written when tuning ends")
    g = P.method("SimulatorCallback", "on_tuning_end")
    cg = cfg_of(g)
    sup = {n.id for n in cg.nodes if any(isinstance(x, ast.Call) and fn_name(x) == "on_tuning_end" and isinstance(x.func.value, ast.Call)
                                          and fn_name(x.func.value) == "super" for x in cg.node_walk(n.id))}
    p = cg.path(cg.entry, cg.exit, deleted=sup, skip_labels=("exc",))
    rep.put(bool(sup) and p is None, "S3", "must_follow", "SimulatorCallback.on_tuning_end calls the base on_tuning_end (stores results)", g, None, "")
    s = P.method("StoreResultsCallback", "store_results")
    ok = "self.dataframe().to_csv(self.csv_file" in U(s.node)
    d = P.method("StoreResultsCallback", "dataframe")
    ok = ok and [U(r.value) for r in returns_of(d)] == ["pd.DataFrame(self.results)"]
    rep.put(ok, "S3", "agreement", "store_results writes DataFrame(self.results) to the csv file", s, None, "")
    t = P.method("Tuner", "run")
    ok = any(isinstance(x, ast.Call) and fn_name(x) == "on_tuning_start" for x in walk_shallow(t.node))
    rep.put(ok, "S3", "agreement", "Tuner.run announces on_tuning_start (which fixes the csv path) to every callback", t, None, "")


def s4(ctx, rep):
    P = ctx.P
    f = P.method("MetricsStatistics", "add")
    cfg = cfg_of(f)
    table = {"min_metrics": ("min", "np_inf"), "max_metrics": ("max", "-np_inf")}
    lp = [s for s in walk_shallow(f.node) if isinstance(s, ast.For) and U(s.iter) == "metrics.items()" and isinstance(s.target, ast.Tuple)]
    if len(lp) != 1:
        raise AnchorError("MetricsStatistics.add: loop over metrics.items() not found")
    newv = U(lp[0].target.elts[1])
    for attr, (op, init) in table.items():
        st = [x for x in walk_shallow(f.node) if isinstance(x, ast.Assign) and isinstance(x.targets[0], ast.Subscript)
              and U(x.targets[0].value) == "self." + attr]
        ok = len(st) == 1
        if ok:
            v = st[0].value
            key = U(st[0].targets[0].slice)
            ok = isinstance(v, ast.Call) and isinstance(v.func, ast.Name) and v.func.id == op and len(v.args) == 2
            if ok:
                a0, a1 = U(argn(v, 0)).replace(" ", ""), U(argn(v, 1))
                ok = a0 == f"self.{attr}.get({key},{init})" and a1 == newv
        rep.put(ok, "S4", "agreement", f"MetricsStatistics.add: {attr}[k] = {op}(old or {init}, new value)", f, st[0] if st else None, "",
                f"{attr} is not updated with {op}(previous, new) starting from {init}: the running {op[:3]}imum is wrong")
    st = [x for x in walk_shallow(f.node) if isinstance(x, ast.Assign) and isinstance(x.targets[0], ast.Subscript)
          and U(x.targets[0].value) == "self.sum_metrics"]
    ok = len(st) == 1 and isinstance(st[0].value, ast.BinOp) and isinstance(st[0].value.op, ast.Add) and \
        "self.sum_metrics.get(" in U(st[0].value.left) and U(st[0].value.right) == newv
    rep.put(ok, "S4", "agreement", "MetricsStatistics.add: sum_metrics[k] = old + new value", f, st[0] if st else None, "")
    inc = [n for n in cfg.nodes if n.kind == "stmt" and isinstance(n.ast, ast.AugAssign) and U(n.ast.target) == "self.count"]
    ok = len(inc) == 1 and isinstance(inc[0].ast.op, ast.Add) and U(inc[0].ast.value) == "1" and \
        cfg.path(cfg.entry, cfg.exit, deleted={inc[0].id}, skip_labels=("exc",)) is None and \
        inc[0].id not in cfg.reachable([s for s, l in cfg.succ[inc[0].id]])
    rep.put(ok, "S4", "must_follow", "MetricsStatistics.add: count += 1 exactly once per call", f, inc[0].ast if inc else None, "",
            "count is not incremented exactly once per result")
    lm = [x for x in walk_shallow(f.node) if isinstance(x, ast.Assign) and U(x.targets[0]) == "self.last_metrics"]
    rep.put(len(lm) == 1 and U(lm[0].value) == "metrics", "S4", "agreement", "MetricsStatistics.add: last_metrics = the new result", f, None, "")
    u = P.method("TuningStatus", "update")
    loops = [s for s in walk_shallow(u.node) if isinstance(s, ast.For) and U(s.iter) == "new_results"]
    ok = len(loops) == 1
    if ok:
        calls = [U(x) for s in loops[0].body for x in walk_shallow(s) if isinstance(x, ast.Call) and fn_name(x) == "add"]
        tid, res = [U(e) for e in loops[0].target.elts]
        ok = f"self.overall_metric_statistics.add({res})" in calls and f"self.trial_metric_statistics[{tid}].add({res})" in calls and len(calls) == 2
    rep.put(ok, "S4", "agreement", "TuningStatus.update feeds every new result to the overall and to its trial's statistics, once each", u,
            loops[0] if loops else None, "", "a result is not counted in both the overall and the per-trial statistics exactly once")
    t = P.method("Tuner", "_process_new_results")
    from ..engine import var_from_call
    nr = var_from_call(t, "fetch_status_results", 1)
    ok = nr is not None and any(isinstance(x, ast.Call) and fn_name(x) == "update" and "tuning_status" in U(x.func.value)
                                and U(kwarg(x, "new_results")) == nr for x in walk_shallow(t.node))
    ds = local_defs(t, nr) if nr else []
    ok = ok and len(ds) == 1 and isinstance(ds[0], tuple) and fn_name(ds[0][1]) == "fetch_status_results"
    rep.put(ok, "S4", "taint", "Tuner._process_new_results hands the statistics exactly what the backend returned", t, None, "")


def s5(ctx, rep):
    P = ctx.P
    f = P.func("syne_tune.tuning_status.print_best_metric_found")
    ifs = [s for s in walk_shallow(f.node) if isinstance(s, ast.If) and parity.mode_test(s.test) is not None]
    # the function with the mode fixed to 'min' and to 'max' (an if/else on the mode, a conditional expression or a table keyed by
    # the mode all come out as the selected code): the two are mirror images, and the 'min' one sorts the per-trial minima ascending
    consts = dict(f.module.constants)
    bmin, bmax = parity.specialise(f.node, "min", (), consts), parity.specialise(f.node, "max", (), consts)
    tmin = U(ast.Module(body=bmin, type_ignores=[]))
    ok = tmin != U(ast.Module(body=bmax, type_ignores=[])) and \
        parity.dual_bodies(bmin, bmax, lambda a, b: parity.arms_are_dual(a, b, odd=lambda s: True, oriented=True))
    ok = ok and ".min_metrics" in tmin and "key=lambda x: x[1]" in tmin and ".max_metrics" not in tmin
    rep.put(ok, "S5", "parity", "print_best_metric_found: per-trial optimum and sort direction are dual over the mode", f, ifs[0] if ifs else None, "",
            "the best trial is not selected by the per-trial minimum sorted ascending (min) / maximum sorted descending (max)")
    best = [x for x in walk_shallow(f.node) if isinstance(x, ast.Assign) and isinstance(x.targets[0], ast.Tuple) and "[0]" in U(x.value)]
    from ..engine import vars_assigned_from, var_from_call
    srt = set(vars_assigned_from(f, lambda v: isinstance(v, ast.Call) and fn_name(v) == "sorted"))
    ok = len(best) == 1 and len(srt) == 1 and U(best[0].value) == f"{list(srt)[0]}[0]"
    rets = [U(r.value) for r in returns_of(f) if r.value is not None and U(r.value) != "None"]
    ok = ok and rets == ["(" + ", ".join(U(e) for e in best[0].targets[0].elts) + ")"] if best else False
    rep.put(ok, "S5", "agreement", "print_best_metric_found returns the first entry of the sorted list (trial id, value)", f, None, "")
    dflt = [s for s in walk_shallow(f.node) if isinstance(s, ast.If) and ("is", "mode", "None", True) in atoms_of(s.test, True)]
    ok = len(dflt) == 1 and U(dflt[0].body[0]) == "mode = 'min'"
    rep.put(ok, "S5", "agreement", "print_best_metric_found: a missing mode means 'min'", f, None, "")
    e = P.method("ExperimentResult", "best_config")
    # the choice of the best row on the mode: if/else assigning the index, or a conditional expression assigned to it
    from ..engine import value_choices
    chs = [c_ for c_ in value_choices(e) if parity.mode_test(c_[1]) is not None]
    ok = len(chs) == 1
    if ok:
        m = parity.mode_test(chs[0][1])
        amin, amax = (chs[0][2], chs[0][3]) if m == "min" else (chs[0][3], chs[0][2])
        ok = parity.arms_are_dual(amin, amax, oriented=True) and "argmin" in U(amin)
        bi = chs[0][4] if chs[0][4] not in ("expr", "return") else next(
            (U(x.targets[0]) for x in walk_shallow(e.node) if isinstance(x, ast.Assign) and x.value is chs[0][0]), "?")
        # (the choice may be between the two bound methods, called afterwards: the index is then the result of that call)
        called = [U(x.targets[0]) for x in walk_shallow(e.node) if isinstance(x, ast.Assign) and isinstance(x.value, ast.Call)
                  and isinstance(x.value.func, ast.Name) and x.value.func.id == bi and not x.value.args and not x.value.keywords]
        bi_call = f"{bi}()"
        bi = called[0] if len(called) == 1 else bi
        ok = ok and any(isinstance(x, ast.Assign) and (f"self.results.loc[{bi}]" in U(x.value) or f"self.results.loc[{bi_call}]" in U(x.value))
                        for x in walk_shallow(e.node))
    rep.put(ok, "S5", "parity", "ExperimentResult.best_config: argmin for min / argmax for max over the results table, row looked up by that index", e, None, "")
    mm = P.func("syne_tune.util.metric_name_mode")
    cm = cfg_of(mm)
    idx = [n for n in cm.nodes if n.kind == "stmt" and isinstance(n.ast, ast.Assign) and U(n.ast.targets[0]) == "metric_mode" and "[" in U(n.ast.value)]
    rt = [r.value for r in returns_of(mm) if isinstance(r.value, ast.Tuple) and len(r.value.elts) == 2]
    mname = U(rt[0].elts[0]) if rt else "?"
    ok = len(idx) == 1 and isinstance(idx[0].ast.value, ast.Subscript) and U(idx[0].ast.value.value) == "metric_mode" and \
        isinstance(idx[0].ast.value.slice, ast.Name) and len(rt) == 1 and U(rt[0].elts[1]) == "metric_mode"
    mix = U(idx[0].ast.value.slice) if ok else "?"
    if ok:
        from .c01 import _dom_atoms
        dom_ = _dom_atoms(cm, idx[0].id)
        # (a validation of the type of `metric` in front of everything excludes no legal call)
        extra_ = [a for a in dom_ if not (a[0] == "isinstance" and a[1] == "metric_mode" and a[2] == "list" and a[3] is True)
                  and not (a[0] == "isinstance" and a[1] == "metric" and a[3] is True and set(a[2].strip("()").replace(" ", "").split(",")) <= {"str", "int"}
                           and len(a[2].strip("()").split(",")) == 2)]
        rep.put(not extra_, "S5", "guarded_by", "metric_name_mode: a list of modes is reduced to the queried metric's mode whenever it is a list", mm,
                idx[0].ast, "", f"the reduction is additionally guarded by {sorted(map(str, extra_))}: a one-element list of modes is returned as a list, "
                "`mode == 'min'` is then false everywhere and the maximiser is reported as the best configuration")
    # the index: position of the name when the metric was given by name, the metric itself when it was given as an index - written as
    # a conditional expression or as if/else, the test written out or held in a flag
    from ..engine import value_choices, deref
    chs = [c_ for c_ in value_choices(mm) if (c_[4] == mix) or (c_[4] == "expr" and any(d is c_[0] for d in local_defs(mm, mix) if not isinstance(d, tuple)))]
    ok = ok and len(chs) == 1
    if ok:
        t, arm_t, arm_f = chs[0][1], chs[0][2], chs[0][3]
        while isinstance(t, ast.UnaryOp) and isinstance(t.op, ast.Not):
            t, arm_t, arm_f = t.operand, arm_f, arm_t
        t = deref(mm, t)
        ok = U(t).replace(" ", "") == "isinstance(metric,str)" and U(arm_t).replace(" ", "") == f"metric_names.index({mname})" and U(arm_f) == "metric"
    nm = [U(d) for d in local_defs(mm, mname) if not isinstance(d, tuple)]
    ok = ok and set(nm) == {"metric", "metric_names[metric]"}
    rep.put(ok, "S5", "agreement", "metric_name_mode: name and mode are taken at the same index of the two lists", mm, None, "",
            "the mode returned for a metric is not the one at the metric's own position")
    t = P.method("Tuner", "best_config")
    tidv = var_from_call(t, "print_best_metric_found", 0)
    ok = tidv is not None and any(isinstance(x, ast.Subscript) and "_trial_dict" in U(x.value) and U(x.slice) == tidv for x in walk_shallow(t.node))
    ds = local_defs(t, tidv) if tidv else []
    ok = ok and len(ds) == 1 and isinstance(ds[0], tuple) and fn_name(ds[0][1]) == "print_best_metric_found" and ds[0][2] == 0
    rep.put(ok, "S5", "taint", "Tuner.best_config looks the configuration up by the trial id print_best_metric_found returned", t, None, "")
    # ... and ranks by the metric that was asked for: name and mode both come from one metric_name_mode(...) call for the requested
    # metric, and print_best_metric_found (which ranks by the FIRST name it is given) is given that name alone, with that mode
    from ..engine import deref
    nm = [x for x in walk_shallow(t.node) if isinstance(x, ast.Assign) and isinstance(x.value, ast.Call) and fn_name(x.value) == "metric_name_mode"
          and isinstance(x.targets[0], ast.Tuple) and len(x.targets[0].elts) == 2]
    pb = [x for x in walk_shallow(t.node) if isinstance(x, ast.Call) and fn_name(x) == "print_best_metric_found"]
    okm = len(nm) == 1 and len(pb) == 1
    if okm:
        namev, modev = U(nm[0].targets[0].elts[0]), U(nm[0].targets[0].elts[1])
        req = kwarg(nm[0].value, "metric", 2)
        mn = deref(t, kwarg(pb[0], "metric_names", 1)) if kwarg(pb[0], "metric_names", 1) is not None else None
        md = kwarg(pb[0], "mode", 2)
        okm = req is not None and U(req) in t.params and isinstance(mn, (ast.List, ast.Tuple)) and len(mn.elts) >= 1 and U(mn.elts[0]) == namev \
            and md is not None and U(md) == modev
    rep.put(okm, "S5", "agreement", "Tuner.best_config ranks by the requested metric: print_best_metric_found gets [that name] and its mode", t, pb[0] if pb else None, "",
            "print_best_metric_found ranks by the first name of the list it is given: handed anything but the requested metric's name first (e.g. all metric "
            "names of the scheduler) the trial returned is the best one for another metric, under the requested metric's mode")


def s5b(ctx, rep):
    """guard table (found thin by the generic mutation audit)"""
    from .common import require_guard
    P = ctx.P
    f = P.method("MetricsStatistics", "add")
    cfg = cfg_of(f)
    st = [n.id for n in cfg.nodes if n.kind == "stmt" and isinstance(n.ast, ast.Assign) and isinstance(n.ast.targets[0], ast.Subscript)
          and U(n.ast.targets[0].value) in ("self.min_metrics", "self.max_metrics", "self.sum_metrics")]
    require_guard(ctx, rep, "S4", f, "MetricsStatistics.add: min / max / sum are updated | the metric is numeric", st,
                  [("self.is_numeric[name]", lambda a: (a[0] == "truth" and a[1].startswith("self.is_numeric[") and a[2] is True) or
                    (a[0] == "isinstance" and "Number" in a[2] and a[3] is True))],       # the flag, or the test whose result was just stored in it
                  "numeric metrics are not tracked (best value unknown) and non-numeric ones are compared")
    g = P.func("syne_tune.tuning_status.print_best_metric_found")
    cg = cfg_of(g)
    none_ret = [n.id for n in cg.nodes if n.kind == "stmt" and isinstance(n.ast, ast.Return) and isinstance(n.ast.value, ast.Constant) and n.ast.value.value is None]
    require_guard(ctx, rep, "S5", g, "print_best_metric_found: 'no best trial' | nothing has been reported yet", none_ret,
                  [("count == 0", lambda a: a[0] == "eq" and a[3] is True and "0" in (a[1], a[2]) and "count" in a[1] + a[2])],
                  "no best trial is reported although results exist (or an empty table is searched)")
    mm = P.func("syne_tune.util.metric_name_mode")
    cm = cfg_of(mm)
    rt = [r.value for r in returns_of(mm) if isinstance(r.value, ast.Tuple) and len(r.value.elts) == 2]
    mname = U(rt[0].elts[0]) if rt else "?"
    for val, typ in (("metric", "str"), ("metric_names[metric]", "int")):
        nodes = [n.id for n in cm.nodes if n.kind == "stmt" and isinstance(n.ast, ast.Assign) and U(n.ast.targets[0]) == mname and U(n.ast.value) == val]
        require_guard(ctx, rep, "S5", mm, f"metric_name_mode: name = {val} | the metric is given as {typ}", nodes,
                      [(f"isinstance(metric, {typ})", lambda a, t=typ: a[0] == "isinstance" and a[1] == "metric" and a[2] == t and a[3] is True)],
                      "a metric given by name is used as an index (or the other way round)")


def s6(ctx, rep):
    P = ctx.P
    names = extapi.stub_names("numpy")
    if names is None:
        rep.info("S6", "external_api", "numpy attributes used at import time of syne_tune.experiments", None, None, "stub not found - not evaluated")
        return
    n = 0
    for f in sorted(P.functions.values(), key=lambda f: f.qualname):
        if not f.module.name.startswith("syne_tune.experiments"):
            continue
        miss = [(a, x) for a, x in (extapi.missing_attrs(ctx, f, "numpy") or [])
                if any(x is y for d in f.node.args.defaults + [k for k in f.node.args.kw_defaults if k is not None] for y in ast.walk(d))]
        if miss:
            n += 1
            rep.bad("S6", "external_api", f"{f.short}: default argument uses np.{miss[0][0]}", f, miss[0][1],
                    f"np.{miss[0][0]} does not exist in the installed numpy; default arguments are evaluated at import time, so "
                    "`import syne_tune.experiments` (and with it loading experiment results) raises AttributeError")
    rep.put(n == 0, "S6", "external_api", "syne_tune.experiments imports under the installed numpy (default arguments)", None, None, "")


def s1b(ctx, rep):
    """the log sees what the scheduler sees: every result handed to scheduler.on_trial_result goes to every callback's
    on_trial_result in the same iteration, with the same trial, result and the decision just taken; a results callback is
    installed by default; the csv file is written whenever its path is known"""
    from ..engine import deref
    from .common import require_guard, call_nodes
    P = ctx.P
    f = P.method("Tuner", "_update_running_trials")
    cfg = cfg_of(f)
    sch = [(n, c) for n, c in call_nodes(ctx, f, lambda c: fn_name(c) == "on_trial_result" and "scheduler" in U(c.func))]
    cbs = [(n, c) for n, c in call_nodes(ctx, f, lambda c: fn_name(c) == "on_trial_result" and "scheduler" not in U(c.func))]
    if len(sch) != 1 or len(cbs) != 1:
        raise AnchorError("Tuner._update_running_trials: scheduler.on_trial_result / callback.on_trial_result calls not found")
    (sn, sc), (cn, cc) = sch[0], cbs[0]
    # the callback call sits in a loop over self.callbacks
    heads = [l for l in cfg.nodes if l.kind == "for" and U(deref(f, l.ast.iter)) == "self.callbacks" and any(x is cc for st in stmts_in(l.ast.body) for x in ast.walk(st))]
    outer = [l.id for l in cfg.nodes if l.kind == "for" and any(x is sc for st in stmts_in(l.ast.body) for x in ast.walk(st))]
    ok = len(heads) == 1 and bool(outer) and U(cc.func.value) == U(heads[0].ast.target)
    if ok:
        # from the scheduler call, every path back to the head of the results loop passes the callback loop
        ok = cfg.path([s_ for s_, l in cfg.succ[sn]], outer[-1], deleted={heads[0].id}, skip_labels=("exc",)) is None and \
            cfg.path([s_ for s_, l in cfg.succ[heads[0].id] if l == "iter"], heads[0].id, deleted={cn}, skip_labels=("exc",)) is None
    rep.put(ok, "S1", "must_follow", "Tuner._update_running_trials: every result given to the scheduler is given to every callback", f, cc, "",
            "a result reaches the scheduler but not (all of) the callbacks: the results log misses rows the scheduler acted on")
    dv = [U(n.ast.targets[0]) for n in cfg.nodes if n.kind == "stmt" and isinstance(n.ast, ast.Assign) and n.id == sn]
    same = all(kwarg(cc, k, i) is not None and kwarg(sc, k, i) is not None and U(deref(f, kwarg(cc, k, j))) == U(deref(f, kwarg(sc, k, i)))
               for k, i, j in (("trial", 0, 0), ("result", 1, 2)))
    okd = bool(dv) and kwarg(cc, "decision", 3) is not None and U(kwarg(cc, "decision", 3)) == dv[0]
    rep.put(same and okd, "S1", "agreement", "Tuner._update_running_trials: the callbacks get the same trial and result as the scheduler, and its decision", f, cc, "",
            "the row that is logged belongs to another trial / result / decision than the one the scheduler was given")
    g = P.method("Tuner", "_init_callbacks")
    nodes = [n for n, c in call_nodes(ctx, g, lambda c: fn_name(c) == "_default_callback")]
    require_guard(ctx, rep, "S1", g, "Tuner._init_callbacks: the default results callback is installed | no callbacks were given", nodes,
                  [("callbacks is None", lambda a: a[0] == "is" and a[2] == "None" and a[3] is True and a[1] == g.params[1])],
                  "a tuner built without callbacks writes no results (or the caller's callbacks are replaced)")
    d = P.method("Tuner", "_default_callback")
    okdc = any(isinstance(r.value, ast.Call) and fn_name(r.value) == "StoreResultsCallback" for r in returns_of(d))
    rep.put(okdc, "S1", "agreement", "Tuner._default_callback is a StoreResultsCallback", d, None, "")
    sr = P.method("StoreResultsCallback", "store_results")
    nodes = [n for n, c in call_nodes(ctx, sr, lambda c: fn_name(c) == "to_csv")]
    require_guard(ctx, rep, "S3", sr, "StoreResultsCallback.store_results: the table is written | the csv path is known", nodes,
                  [("self.csv_file is not None", lambda a: a[0] == "is" and a[1] == "self.csv_file" and a[3] is False)],
                  "results are written only when no path is set (never), or to path None")


def run(ctx, rep, tier="quick"):
    c02.s8(ctx, rep, clause="S1")
    s1b(ctx, rep)
    s2(ctx, rep)
    s3(ctx, rep)
    s4(ctx, rep)
    s5(ctx, rep)
    s5b(ctx, rep)
    s6(ctx, rep)
