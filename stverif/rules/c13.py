"""C13 - trial failures are contained."""
import ast

from ..core.model import AnchorError, FuncInfo
from ..core.cfg import walk_shallow, cfg_of
from ..core.facts import U, atoms_of
from ..engine import argn, fn_name, kwarg, stmts_in, returns_of
from ..kinds import extapi
from . import c01, c12, c14, common

EXPLANATION = (
    "Decides structural clauses of C13: S1 one notification per failure - the failed / externally-stopped edges of the tuning "
    "loop call scheduler.on_trial_error guarded by the status alone and record the trial; S2 every scheduler that overrides "
    "on_trial_error still forwards the failure to its searcher (reaches BaseSearcher.evaluation_failed); S3 the failed "
    "trial's bookkeeping is released (Hyperband: rung-system record removed; synchronous Hyperband and DEHB: the pending slot "
    "is reported as failed to the bracket and deleted, so the bracket does not wait forever); S4 a failed configuration is "
    "black-listed by every evaluation_failed implementation that promises no repeats, and removing its pending evaluations "
    "leaves other trials' entries untouched (keep-filter polarity), and the exclusion list built from the state keeps every failed trial (monotone union, shared with C06-S5); S5 exceeding the limit ends run() after clean-up with an "
    "error naming the trial; S6 reporting a failure cannot itself raise on an attribute the numerical library does not have "
    "(external-API stub lookup on the failure path). S3 also: a DEHB slot gets a trial id only with the winner's result; S4 also: the filtered pending list replaces the old one whenever it differs, also when nothing remains. NOT decided: that schedulers keep making legal decisions afterwards "
    "(needs the numeric clauses of C03-C05).")

FLOOR = {"S1": 8, "S2": 3, "S3": 5, "S4": 6, "S5": 3, "S6": 3}


def s2(ctx, rep):
    P = ctx.P
    base = P.cls("TrialSchedulerWithSearcher")
    ef = "evaluation_failed"

    def reaches_ef(f, depth=4, seen=None):
        seen = seen if seen is not None else set()
        if f in seen or depth < 0:
            return False
        seen.add(f)
        for c, tg in ctx.R.calls(f):
            if fn_name(c) == ef and ctx.is_call_to(f, c, method=ef, recv="BaseSearcher"):
                return True
        for c, tg in ctx.R.calls(f):
            if isinstance(c.func, ast.Attribute) and c.func.attr == "on_trial_error":
                for t, h in tg:
                    if isinstance(t, FuncInfo) and h == "type" and reaches_ef(t, depth - 1, seen):
                        return True
        return False
    b = base.methods.get("on_trial_error")
    if b is None or not reaches_ef(b):
        raise AnchorError("TrialSchedulerWithSearcher.on_trial_error does not forward to searcher.evaluation_failed")
    rep.ok("S2", "must_reach", "TrialSchedulerWithSearcher.on_trial_error → searcher.evaluation_failed", b, None, "")
    for c in P.all_subclasses(base):
        m = c.methods.get("on_trial_error")
        if m is None:
            continue
        cfg = cfg_of(m)
        # on every normal path: a call to super().on_trial_error (or directly evaluation_failed)
        bn = {n.id for n in cfg.nodes if any(
            isinstance(x, ast.Call) and ((fn_name(x) == "on_trial_error" and isinstance(x.func.value, ast.Call) and fn_name(x.func.value) == "super")
                                         or (fn_name(x) == ef)) for x in cfg.node_walk(n.id))}
        p = cfg.path(cfg.entry, cfg.exit, deleted=bn, skip_labels=("exc",))
        rep.put(bool(bn) and p is None and reaches_ef(m), "S2", "must_reach", f"{c.name}.on_trial_error → searcher.evaluation_failed", m, None,
                "forwarded on every path",
                f"{c.name}.on_trial_error can return without telling the searcher about the failure: the failed configuration "
                "is not black-listed and its pending evaluations stay", witness=cfg.describe_path(p) if p else None)


def s3(ctx, rep):
    P = ctx.P
    f = P.method("HyperbandScheduler", "on_trial_error")
    cfg = cfg_of(f)
    bn = ctx.nodes(f, ctx.sel_call(selfcall="_cleanup_trial"), "must", 0)
    p = cfg.path(cfg.entry, cfg.exit, deleted=bn, skip_labels=("exc",))
    rep.put(bool(bn) and p is None, "S3", "must_follow", "HyperbandScheduler.on_trial_error → _cleanup_trial", f, None, "")
    g = P.method("HyperbandScheduler", "_cleanup_trial")
    cg = cfg_of(g)
    bn = ctx.nodes(g, ctx.sel_call(method="on_task_remove", recv="HyperbandBracketManager"), "must", 0)
    p = cg.path(cg.entry, cg.exit, deleted=bn, skip_labels=("exc",))
    rep.put(bool(bn) and p is None, "S3", "must_follow", "HyperbandScheduler._cleanup_trial → terminator.on_task_remove", g, None, "")
    h = P.method("HyperbandBracketManager", "on_task_remove")
    from ..engine import var_from_call
    rsv = var_from_call(h, "_get_rung_system", 0)
    ok = rsv is not None and any(isinstance(x, ast.Call) and fn_name(x) == "on_task_remove" and U(x.func.value) == rsv for x in walk_shallow(h.node)) and \
        any(isinstance(x, ast.Delete) and "_task_info" in U(x) for x in walk_shallow(h.node))
    rep.put(ok, "S3", "agreement", "HyperbandBracketManager.on_task_remove releases the rung-system record and _task_info", h, None, "")
    # synchronous schedulers: failed slot reported to the bracket, then removed from pending
    for cname in ("SynchronousHyperbandScheduler", "DifferentialEvolutionHyperbandScheduler"):
        m = P.method(cname, "on_trial_error")
        cm = cfg_of(m)
        rp = ctx.nodes(m, ctx.sel_call(selfcall="_report_as_failed"), "must", 0)
        dl = {n.id for n in cm.nodes if n.kind == "stmt" and isinstance(n.ast, ast.Delete) and "_trial_to_pending_slot" in U(n.ast)}
        ok = bool(rp) and bool(dl)
        if ok:
            # on the edge "trial is pending" both happen, report first
            for d in dl:
                ok = ok and cm.path(cm.entry, d, deleted=rp) is None
            edge = [(n.id, s) for n in cm.nodes if n.kind == "test" for s, l in cm.succ[n.id]
                    if isinstance(l, tuple) and l[0] == "cond" and any(a[0] == "in" and a[3] is True and "_trial_to_pending_slot" in a[2]
                                                                        for a in atoms_of(l[1], l[2]) | common.derived_membership(m, atoms_of(l[1], l[2])))]
            ok = ok and bool(edge) and all(cm.path(s, cm.exit, deleted=dl, skip_labels=("exc",)) is None and
                                           cm.path(s, cm.exit, deleted=rp, skip_labels=("exc",)) is None for _, s in edge)
        rep.put(ok, "S3", "must_follow", f"{cname}.on_trial_error: pending slot reported as failed ≺ removed from pending", m, None, "",
                "a failed trial's slot is not reported to its bracket (the rung waits for it forever) or stays registered as pending")
        r = P.method(cname, "_report_as_failed")
        reach = common.reaches(ctx, r, lambda fn, c, tg: fn_name(c) == "on_result" and ctx.is_call_to(fn, c, method="on_result", recv="SynchronousHyperbandBracketManager"))
        rep.put(reach is not None, "S3", "must_reach", f"{cname}._report_as_failed → bracket_manager.on_result", r, None, " → ".join(reach or []))


def s4(ctx, rep):
    P = ctx.P
    base = P.cls("BaseSearcher")
    n = 0
    for c in P.all_subclasses(base):
        m = c.methods.get("evaluation_failed")
        if m is None:
            continue
        reach = common.reaches(ctx, m, lambda fn, call, tg: fn_name(call) in ("mark_trial_failed",) or
                               (fn_name(call) == "add" and "_excl_list" in U(call.func.value)) or
                               (fn_name(call) == "evaluation_failed" and isinstance(call.func.value, ast.Attribute)), depth=3)
        sup = any(isinstance(x, ast.Call) and fn_name(x) == "evaluation_failed" and isinstance(x.func.value, ast.Call)
                  and fn_name(x.func.value) == "super" for x in walk_shallow(m.node))
        judged = c.name in ("StochasticAndFilterDuplicatesSearcher", "ModelBasedSearcher", "GPMultiFidelitySearcher", "BayesianOptimizationSearcher")
        if judged:
            n += 1
            rep.put(reach is not None, "S4", "must_reach", f"{c.name}.evaluation_failed black-lists the failed configuration", m, None,
                    " → ".join(reach or []), f"{c.name}.evaluation_failed reaches neither mark_trial_failed nor the exclusion list: the "
                    "failed configuration can be suggested again")
        else:
            rep.info("S4", "must_reach", f"{c.name}.evaluation_failed", m, None,
                     ("black-lists: " + " → ".join(reach)) if reach else ("calls super" if sup else "no black-listing found (not judged)"))
    if n < 2:
        raise AnchorError("evaluation_failed implementations of the no-repeat searchers not found")
    c14.s1_keepfilter(ctx, rep, clause="S4")
    # the filter-duplicates family black-lists the configuration it recorded for that trial
    m = P.method("StochasticAndFilterDuplicatesSearcher", "evaluation_failed")
    ok = any(isinstance(x, ast.Call) and fn_name(x) == "add" and "_excl_list" in U(x.func.value) and
             "_config_for_trial_id[trial_id]" in U(argn(x, 0)) for x in walk_shallow(m.node))
    rep.put(ok, "S4", "agreement", "StochasticAndFilterDuplicatesSearcher.evaluation_failed adds the failed trial's own configuration", m, None, "")


def s6(ctx, rep, clause="S6"):
    P = ctx.P
    funcs = []
    for cname in ("SynchronousHyperbandScheduler", "DifferentialEvolutionHyperbandScheduler"):
        for meth in ("_report_as_failed", "on_trial_error"):
            funcs.append(P.method(cname, meth))
    funcs.append(P.func("syne_tune.optimizer.schedulers.synchronous.hyperband_bracket.get_top_list"))
    names = extapi.stub_names("numpy")
    if names is None:
        rep.info(clause, "external_api", "numpy attributes on the failure path", None, None, "numpy stub not found - not evaluated")
        return
    for f in funcs:
        miss = extapi.missing_attrs(ctx, f, "numpy")
        rep.put(not miss, clause, "external_api", f"{f.short}: numpy attributes exist", f, miss[0][1] if miss else None,
                "all numpy attributes used are declared by numpy's own stub",
                "uses " + ", ".join(sorted({'np.' + a for a, _ in miss or []})) + ", which the installed numpy does not declare: "
                "every reported failure raises AttributeError inside the scheduler instead of being contained")


def run(ctx, rep, tier="quick"):
    c01.s5(ctx, rep, clause="S1")
    c01.s5b(ctx, rep, clause="S1")
    c01.s5c(ctx, rep, clause="S1")
    c01.s6(ctx, rep, clause="S1")
    s2(ctx, rep)
    s3(ctx, rep)
    s4(ctx, rep)
    c12.s2(ctx, rep, clause="S5")
    s6(ctx, rep)
    # S4 (cont.): the black list the model-based searchers exclude from is pending ∪ failed ∪ observed, and the failed
    # trials are never filtered out of it again (shared with C06-S5)
    from .common import require_guard, call_nodes
    oe = ctx.P.method("TrialSchedulerWithSearcher", "on_trial_error")
    nodes = [n for n, c in call_nodes(ctx, oe, lambda c: fn_name(c) == "evaluation_failed")]
    require_guard(ctx, rep, "S2", oe, "TrialSchedulerWithSearcher.on_trial_error: searcher.evaluation_failed | a searcher exists", nodes,
                  [("self.searcher is not None", lambda a: a[0] == "is" and a[1] == "self.searcher" and a[3] is False)],
                  "the searcher is not told about the failure (the failed configuration is not black-listed, its pending evaluation stays)")
    otr = ctx.P.method("HyperbandBracketManager", "on_task_remove")
    nodes = [n for n, c in call_nodes(ctx, otr, lambda c: fn_name(c) == "on_task_remove")]
    require_guard(ctx, rep, "S3", otr, "HyperbandBracketManager.on_task_remove: the rung system is told | the trial is registered", nodes,
                  [("trial_id in self._task_info", lambda a: a[0] == "in" and a[2] == "self._task_info" and a[3] is True)],
                  "the rung system keeps the record of a removed trial (or is asked to remove an unknown one)")
    ef = ctx.P.method("StochasticAndFilterDuplicatesSearcher", "evaluation_failed")
    nodes = [n for n, c in call_nodes(ctx, ef, lambda c: fn_name(c) == "add" and "_excl_list" in U(c.func.value))]
    require_guard(ctx, rep, "S4", ef, "StochasticAndFilterDuplicatesSearcher.evaluation_failed: black-list | duplicates allowed and the trial's configuration is known", nodes,
                  [("self._allow_duplicates", lambda a: a[0] == "truth" and a[1] == "self._allow_duplicates" and a[2] is True),
                   ("trial_id in self._config_for_trial_id", lambda a: a[0] == "in" and a[2] == "self._config_for_trial_id" and a[3] is True)],
                  "with allow_duplicates=True the failed configuration is not black-listed and can be suggested again")
    # the pending entries of the failed trial really go: the filtered list replaces the pending list whenever it differs, also when
    # nothing remains (shared with C14-S6)
    from . import c14
    c14.s6b(ctx, rep, clause="S4")
    c14.failed_trial_leaves_pending(ctx, rep, "S4")
    # a failed trial's NaN takes no part in any comparison that ranks a rung (shared with C05-S4): the rules about the NaN filter of
    # get_top_list are taken over, relabelled
    from . import c05 as _c05
    from .common import take_over
    take_over(ctx, rep, _c05.s4_s5, "S3", only="S4")
    # the limit: the run carries on while the number of failures does not EXCEED max_failures, and ends with the error when it does
    g_ = ctx.P.method("Tuner", "_stop_condition")
    rv_ = [r.value for r in returns_of(g_)]
    lim = ("lt", "self.max_failures", "self.tuning_status.num_trials_failed")
    ok_ = len(rv_) == 1 and any(lim in atoms_of(v, True) for v in (rv_[0].values if isinstance(rv_[0], ast.BoolOp) else [rv_[0]]))
    rep.put(ok_, "S5", "agreement", "Tuner._stop_condition: the failure limit is num_trials_failed > max_failures", g_, None, "",
            "the run ends when the number of failures merely reaches the allowed limit (or never ends on failures)")
    r_ = ctx.P.method("Tuner", "run")
    nodes = [n for n, c in call_nodes(ctx, r_, lambda c: fn_name(c) == "_handle_failure")]
    require_guard(ctx, rep, "S5", r_, "Tuner.run: the failure error is raised | num_trials_failed > max_failures", nodes,
                  [("num_trials_failed > max_failures", lambda a: a == lim + (True,) or a == lim or (a[0] == "lt" and a[1] == lim[1] and a[2] == lim[2]))],
                  "a run with an allowed number of failures ends with an error (or one with too many ends silently)")
    # DEHB: a slot gets a trial id only together with the metric of the winner that is returned to the bracket; a failed job's
    # slot therefore stays (None, NaN) and is never taken as a parent for promotion
    dc = ctx.P.cls("DifferentialEvolutionHyperbandScheduler")
    wr = []
    for m_ in dc.methods.values():
        for x in walk_shallow(m_.node):
            if isinstance(x, ast.Assign) and any(isinstance(t, ast.Attribute) and t.attr == "trial_id" and isinstance(t.value, ast.Name)
                                                 and t.value.id != "self" for t in x.targets):
                wr.append((m_, x))
    okw = bool(wr) and all(m_.name == "_return_slot_result_to_bracket" for m_, x in wr)
    rep.put(okw, "S3", "who_may_write", "DEHB: the trial id of a slot is written only when the winner's result is returned to the bracket", dc,
            next((x for m_, x in wr if m_.name != "_return_slot_result_to_bracket"), None), f"{len(wr)} write(s)",
            "a slot carries a trial id before it has a result: when that job fails the bracket records (trial id, NaN) instead of (None, NaN), the failed "
            "trial can be picked as a promotion parent and suggest() fails on its missing metric (or resumes a failed trial)")
    mf = ctx.P.method("ModelStateTransformer", "mark_trial_failed")
    nodes = [n for n, c in call_nodes(ctx, mf, lambda c: fn_name(c) == "append")]
    require_guard(ctx, rep, "S4", mf, "ModelStateTransformer.mark_trial_failed: the trial is appended to failed_trials | it is not listed yet", nodes,
                  [("trial_id not in failed_trials", lambda a: a[0] == "in" and a[3] is False and a[1] == "trial_id")],
                  "a failed trial is never recorded as failed (its configuration is not black-listed)")
    # the NaN record of a failed job carries the identity of the pending slot it stands for (the bracket checks it)
    rf = ctx.P.method("SynchronousHyperbandScheduler", "_report_as_failed")
    mk = [x for x in walk_shallow(rf.node) if isinstance(x, ast.Call) and fn_name(x) == "SlotInRung"]
    slotp = [p_ for p_ in rf.params if p_ not in ("self", "bracket_id")]
    okr = len(mk) == 1 and len(slotp) == 1
    wrong = []
    if okr:
        for k_ in mk[0].keywords:
            if k_.arg and k_.arg != "metric_val" and U(k_.value) != f"{slotp[0]}.{k_.arg}":
                wrong.append(f"{k_.arg}={U(k_.value)}")
        okr = not wrong and not mk[0].args and {"rung_index", "level", "slot_index", "trial_id"} <= {k_.arg for k_ in mk[0].keywords}
    if not mk and len(slotp) == 1:
        # ... or a copy of the pending slot with only the metric value replaced: dataclasses.replace(slot, metric_val=...)
        rp = [x for x in walk_shallow(rf.node) if isinstance(x, ast.Call) and fn_name(x) == "replace" and x.args and U(x.args[0]) == slotp[0]
              and (isinstance(x.func, ast.Name) or U(x.func.value) in ("dataclasses", "copy"))]
        okr = len(rp) == 1 and len(rp[0].args) == 1 and {k_.arg for k_ in rp[0].keywords} == {"metric_val"}
        wrong = [f"{k_.arg}={U(k_.value)}" for k_ in (rp[0].keywords if rp else []) if k_.arg != "metric_val"]
    rep.put(okr, "S3", "agreement", "SynchronousHyperbandScheduler._report_as_failed: the NaN record copies every identifying field of the pending slot", rf,
            mk[0] if mk else None, "rung_index, level, slot_index, trial_id taken from the slot; metric_val = NaN",
            f"the record differs from the pending slot in {wrong or 'a missing field'}: the bracket's consistency check on the slot rejects it "
            "(AssertionError out of on_trial_error), the slot stays pending and the rung waits for the failed job forever")
    # the removal of a failed trial's pending entries deletes the right positions
    from .common import ascending_index_deletion
    n_ = 0
    for f_ in sorted(ctx.P.functions.values(), key=lambda f: f.qualname):
        if f_.module.relpath.endswith(("bayesopt/models/model_transformer.py", "bayesopt/datatypes/tuning_job_state.py",
                                       "searchers/gp_multifidelity_searcher.py", "searchers/model_based_searcher.py")):
            n_ += 1
            for st_, txt in ascending_index_deletion(ctx, f_):
                rep.bad("S4", "index_shift", f"{f_.short}: positions are deleted from the end", f_, st_,
                        f"`{txt}` inside a loop over ascending positions of the same list: after the first deletion every later position "
                        "is off by one - with two pending entries of the failed trial one of them survives and another trial's entry is "
                        "deleted (or IndexError escapes from on_trial_error and the trial is never marked failed)")
    rep.put(n_ >= 20, "S4", "index_shift", "pending / state mutators never delete ascending list positions in a forward loop", None, None,
            f"{n_} functions swept")
    from . import c06
    sub = type(rep)(rep.prop)
    c06.s5(ctx, sub)
    for i in sub.items:
        i.clause = "S4"
        rep.items.append(i)
