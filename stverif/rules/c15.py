"""C15 - minimising f and maximising -f are the same experiment (parity typing of every mode-dependent site)."""
import ast

from ..core.model import AnchorError
from ..core.cfg import walk_shallow, cfg_of
from ..core.facts import U
from ..engine import clone, argn, fn_name, kwarg, local_defs, returns_of, stmts_in
from ..kinds import parity

EXPLANATION = (
    "Decides C15 per mode-dependent site by a small type system instead of paired runs. sigma = (mode -> other mode, metric "
    "values -> negated). Every construct in the property's files that tests the mode is located (the floor is the number "
    "confirmed by reading) and must fall into one of the recognised invariant shapes: SIGN definition (folds to k under "
    "'min' and -k under 'max') whose every use is a multiplication of a metric-valued expression; negate-under-one-mode "
    "normalisation; dual pair of comparisons (same operands, mirrored operator); q vs 1-q; dual arms of an if/else under "
    "the table min<->max, argmin<->argmax, inf<->-inf, x+eps<->x-eps, min_metrics<->max_metrics, key<->-key, "
    "cummin<->cummax; index-window duality of Rung.quantile; range reversal; reverse=(mode=='max') on a sort keyed by the "
    "raw metric. A site that is one of these but whose arms are not mirror images is a VIOLATION; a construct of no known "
    "shape is an ANALYSIS-ERROR (the checker needs extending), never a guess. NOT decided: behaviour at exact ties / "
    "round-off (excluded by the property itself); searchers with model fits.")

FLOOR = {"S1": 22, "S2": 6}

FILES = [
    "syne_tune/optimizer/schedulers/hyperband_stopping.py", "syne_tune/optimizer/schedulers/hyperband_promotion.py",
    "syne_tune/optimizer/schedulers/hyperband_pasha.py", "syne_tune/optimizer/schedulers/hyperband_rush.py",
    "syne_tune/optimizer/schedulers/synchronous/hyperband_bracket.py", "syne_tune/optimizer/schedulers/synchronous/dehb.py",
    "syne_tune/optimizer/schedulers/pbt.py", "syne_tune/optimizer/schedulers/median_stopping_rule.py",
    "syne_tune/optimizer/schedulers/multiobjective/moasha.py", "syne_tune/optimizer/schedulers/searchers/regularized_evolution.py",
    "syne_tune/tuning_status.py", "syne_tune/experiments/experiment_result.py", "syne_tune/stopping_criterion.py",
    "syne_tune/callbacks/hyperband_remove_checkpoints_callback.py", "syne_tune/tuner.py",
]
SWEEP_EXTRA = True
FLAGS = (("self._is_min", "min"), ("is_min", "min"), ("self.is_min", "min"))


def _even_offsets(f):
    """mode-independent tolerances of f: `self.<attr>` and locals all of whose definitions are constants or `self.<attr>`
    (a metric value comes from a result / rung entry, never from a scheduler attribute)."""
    from ..engine import local_defs
    out = set()
    if f is None:
        return out
    names = {x.id for x in walk_shallow(f.node) if isinstance(x, ast.Name) and isinstance(x.ctx, ast.Store)}
    for nm in names:
        ds = local_defs(f, nm)

        def even(d):
            if isinstance(d, ast.IfExp):        # a choice between two such values on a mode-independent test
                return parity.mode_test(d.test, FLAGS) is None and even(d.body) and even(d.orelse)
            return isinstance(d, ast.Constant) or (isinstance(d, ast.Attribute) and isinstance(d.value, ast.Name) and d.value.id == "self")
        if ds and all(not isinstance(d, tuple) and even(d) for d in ds):
            out.add(nm)
    return out


def odd(s):
    return True


def _dual_arms(amin, amax, f=None):
    return parity.arms_are_dual(amin, amax, odd=odd) or _dual_even_offset(amin, amax, _even_offsets(f))


def _dual_even_offset(amin, amax, evens=()):
    """dual with `x + epsilon` <-> `x - epsilon` for a named (mode-independent) tolerance."""
    import copy

    class T(ast.NodeTransformer):
        def visit_BinOp(self, n):
            n = self.generic_visit(n)
            if isinstance(n.op, (ast.Add, ast.Sub)) and (U(n.right) in evens or (
                    isinstance(n.right, ast.Attribute) and isinstance(n.right.value, ast.Name) and n.right.value.id == "self")):
                n.op = ast.Sub() if isinstance(n.op, ast.Add) else ast.Add()
            return n
    a2 = [T().visit(clone(x)) for x in (amin if isinstance(amin, list) else [amin])]
    for x in a2:
        ast.fix_missing_locations(x)
    return parity.arms_are_dual(a2, amax if isinstance(amax, list) else [amax], odd=lambda s: False)


def _neg_consts_equal(a, b):
    """arms equal after negating every numeric constant of one of them (sign tables)"""
    import copy

    class N(ast.NodeTransformer):
        def visit_Constant(self, n):
            if isinstance(n.value, (int, float)) and not isinstance(n.value, bool) and n.value != 0:
                return ast.UnaryOp(op=ast.USub(), operand=n)
            return n
    x = N().visit(clone(a))
    ast.fix_missing_locations(x)
    return parity.norm_text(x) == parity.norm_text(b)


def _window_dual(amin, amax):
    """Rung.quantile: (left = i - 1, g = f)  <->  (left = n - i - 1, g = 1 - f)"""
    if not (len(amin) == 2 and len(amax) == 2 and all(isinstance(s, ast.Assign) for s in amin + amax)):
        return False
    (p1, g1), (p2, g2) = amin, amax
    if U(p1.targets[0]) != U(p2.targets[0]) or U(g1.targets[0]) != U(g2.targets[0]):
        return False
    v1, v2 = p1.value, p2.value
    if not (isinstance(v1, ast.BinOp) and isinstance(v1.op, ast.Sub) and U(v1.right) == "1"):
        return False
    i = U(v1.left)
    ok = U(v2).replace(" ", "") in (f"len_data-{i}-1", f"n-{i}-1") or (
        isinstance(v2, ast.BinOp) and isinstance(v2.op, ast.Sub) and U(v2.right) == "1" and isinstance(v2.left, ast.BinOp)
        and isinstance(v2.left.op, ast.Sub) and U(v2.left.right) == i)
    f = U(g1.value)
    return ok and U(g2.value).replace(" ", "") == f"1-{f}"


def _range_reversal(amin, amax):
    if not (len(amin) == 1 and len(amax) == 1 and isinstance(amin[0], ast.Assign) and isinstance(amax[0], ast.Assign)):
        return False
    a, b = U(amin[0].value).replace(" ", ""), U(amax[0].value).replace(" ", "")
    if a.startswith("list(range(") and b.startswith("list(range("):
        n = a[len("list(range("):-2]
        return b == f"list(range({n}-1,-1,-1))"
    return False


def _sign_uses(ctx, f, target):
    """(n_uses, bad uses) of a SIGN variable/attribute: every load must be a factor of a product."""
    scope = []
    if target.startswith("self.") and f.cls is not None:
        for k in ctx.P.all_subclasses(f.cls, strict=False):
            scope += list(k.methods.values())
    else:
        scope = [f]
    n, bad = 0, []
    for g in scope:
        for x in walk_shallow(g.node, include_lambda=True):
            if isinstance(x, (ast.Name, ast.Attribute)) and isinstance(x.ctx, ast.Load) and U(x) == target:
                par = getattr(x, "_parent", None)
                while isinstance(par, ast.Subscript) and par.value is not None and U(par.value).startswith(target):
                    x, par = par, getattr(par, "_parent", None)
                n += 1
                if not (isinstance(par, ast.BinOp) and isinstance(par.op, ast.Mult)):
                    if isinstance(par, ast.Attribute) or isinstance(par, ast.FormattedValue):
                        continue
                    bad.append((g, x))
                    continue
                # the other factor must be metric-valued: a fixed sentinel (inf, a default of dict.get) times the sign
                # is +s under one mode and -s under the other, while negating the metrics leaves it alone
                other = par.right if par.left is x else par.left
                if _may_be_sentinel(g, other):
                    bad.append((g, par))
    return n, bad


def _is_numeric_sentinel(e):
    if isinstance(e, ast.UnaryOp) and isinstance(e.op, (ast.USub, ast.UAdd)):
        return _is_numeric_sentinel(e.operand)
    if isinstance(e, ast.Constant) and isinstance(e.value, (int, float)) and not isinstance(e.value, bool) and e.value != 0:
        return True
    if isinstance(e, ast.Call) and fn_name(e) == "float" and e.args and isinstance(argn(e, 0), ast.Constant) and isinstance(argn(e, 0).value, str):
        return True
    return U(e) in ("np.inf", "numpy.inf", "math.inf", "np_inf", "inf", "np.nan", "float('inf')", "sys.float_info.max", "sys.maxsize")


def _may_be_sentinel(g, e, depth=3):
    """can e evaluate to a mode-independent non-zero constant (directly, or as the default of `.get(k, default)`, or through a
    local all of whose ... one of whose definitions is such a value)?"""
    from ..engine import local_defs
    if _is_numeric_sentinel(e):
        return True
    if isinstance(e, ast.Call) and fn_name(e) == "get" and len(e.args) == 2 and _is_numeric_sentinel(argn(e, 1)):
        return True
    if isinstance(e, ast.IfExp):
        return _may_be_sentinel(g, e.body, depth) or _may_be_sentinel(g, e.orelse, depth)
    if isinstance(e, ast.Name) and depth > 0:
        return any(not isinstance(d, tuple) and _may_be_sentinel(g, d, depth - 1) for d in local_defs(g, e.id))
    return False


EVEN_CALLS = ("isnan", "isinf", "isfinite", "bool", "len", "isinstance", "str", "hash")


def _even_key_components(key):
    """components of a sort key that do not change sign with the metric (tests, flags, constants, ids): a reversed sort
    reverses them as well, which is not what negating the metric does."""
    if not isinstance(key, ast.Lambda):
        return []
    body = key.body
    comps = list(body.elts) if isinstance(body, ast.Tuple) else [body]
    out = []
    for c in comps:
        if isinstance(c, (ast.Compare, ast.BoolOp, ast.Constant)) or (isinstance(c, ast.UnaryOp) and isinstance(c.op, ast.Not)) \
                or (isinstance(c, ast.Call) and fn_name(c) in EVEN_CALLS):
            out.append(U(c))
    return out


def _mode_typed_positions_used_raw(f, node):
    """uses of a value derived from the q / 1-q site as a position into a `.data` container, outside any `if <mode test>`"""
    st = node
    while st is not None and not isinstance(st, ast.stmt):
        st = getattr(st, "_parent", None)
    if not (isinstance(st, ast.Assign) and isinstance(st.targets[0], ast.Name)):
        return []

    def in_mode_switch(x):
        p = getattr(x, "_parent", None)
        while p is not None and p is not f.node:
            if isinstance(p, (ast.If, ast.IfExp)) and parity.mode_test(p.test, FLAGS) is not None:
                return True
            p = getattr(p, "_parent", None)
        return False
    tainted = {st.targets[0].id}
    changed = True
    while changed:
        changed = False
        for x in walk_shallow(f.node):
            if isinstance(x, ast.Assign) and len(x.targets) == 1 and isinstance(x.targets[0], ast.Name) and x.targets[0].id not in tainted \
                    and not in_mode_switch(x) and not (isinstance(x.value, ast.IfExp) and parity.mode_test(x.value.test, FLAGS) is not None) \
                    and any(isinstance(y, ast.Name) and y.id in tainted for y in ast.walk(x.value)):
                tainted.add(x.targets[0].id)
                changed = True
    bad = []
    for x in walk_shallow(f.node):
        idx = None
        if isinstance(x, ast.Subscript) and isinstance(x.value, ast.Attribute) and x.value.attr == "data":
            idx = [x.slice]
        elif isinstance(x, ast.Call) and isinstance(x.func, ast.Attribute) and x.func.attr in ("islice", "pop", "__getitem__") \
                and isinstance(x.func.value, ast.Attribute) and x.func.value.attr == "data":
            idx = list(x.args)
        if idx and not in_mode_switch(x) and any(isinstance(y, ast.Name) and y.id in tainted for a in idx for y in ast.walk(a)):
            bad.append(x)
    return bad


def _table_index(node):
    """the Subscript a mode test selects a row of: `T[mode == 'min']`, `T[bool(mode == 'min')]`, `T['min' if mode == 'min' else 'max']`"""
    x = node
    for _ in range(3):
        p_ = getattr(x, "_parent", None)
        if isinstance(p_, ast.Call) and isinstance(p_.func, ast.Name) and p_.func.id == "bool" and len(p_.args) == 1:
            x = p_
        elif isinstance(p_, ast.IfExp) and p_.test is x and isinstance(p_.body, ast.Constant) and isinstance(p_.orelse, ast.Constant):
            x = p_
        elif isinstance(p_, ast.Subscript) and p_.slice is x:
            return p_
        else:
            return None
    return None


def classify(ctx, f, node):
    """Returns (shape, ok, detail) for a mode-dependent construct; shape None = not understood."""
    par = getattr(node, "_parent", None)
    m = parity.mode_test(node, FLAGS)
    tab = _table_index(node)
    if tab is not None:
        # a row of a table keyed by the mode: the function with the mode fixed to 'min' and to 'max' must be mirror images
        top = f
        while top.parent is not None:
            top = top.parent
        consts = dict(f.module.constants)
        bmin = parity.specialise(top.node, "min", FLAGS, consts)
        bmax = parity.specialise(top.node, "max", FLAGS, consts)
        if U(ast.Module(body=bmin, type_ignores=[])) == U(ast.Module(body=bmax, type_ignores=[])):
            return "table", False, f"{U(tab)[:60]}: both rows give the same code, the mode has no effect (nothing is mirrored)"
        ok = parity.dual_bodies(bmin, bmax, lambda a, b: _dual_arms(a, b, f))
        return "table", ok, f"{U(tab)[:60]}: the function specialised to 'min' and to 'max' are" + ("" if ok else " not") + " mirror images"
    # definition of a flag
    if isinstance(par, ast.Assign) and par.value is node:
        tgt = U(par.targets[0])
        if tgt.endswith("is_min"):
            return "flag", m == "min", f"{tgt} = (mode == 'min')"
        loads = [x for x in walk_shallow(f.node, include_lambda=True) if isinstance(x, ast.Name) and isinstance(x.ctx, ast.Load) and x.id == tgt]
        uses = [x for x in walk_shallow(f.node) if isinstance(x, ast.keyword) and x.arg == "reverse" and U(x.value) == tgt]
        if isinstance(par.targets[0], ast.Name) and loads and len(loads) == len(uses):
            # a local whose only uses are `reverse=<it>` of a sort
            for u in uses:
                call = getattr(u, "_parent", None)
                ev = _even_key_components(kwarg(call, "key")) if isinstance(call, ast.Call) else []
                if ev:
                    return "reverse-flag", False, f"reverse={tgt} also reverses the mode-independent key component(s) {ev}"
            return "reverse-flag", m == "max" and bool(uses), f"{tgt} = (mode == 'max'), used as reverse= in {len(uses)} sort(s)"
        return None, False, f"mode test assigned to `{tgt}`"
    if isinstance(par, ast.keyword) and par.arg == "reverse":
        call = getattr(par, "_parent", None)
        key = kwarg(call, "key") if isinstance(call, ast.Call) else None
        neg = key is not None and "-" in U(key)
        ev = _even_key_components(key)
        if ev:
            return "reverse-kw", False, (f"reverse=(mode=='max') also reverses the mode-independent key component(s) {ev} of key={U(key)}: "
                                         "what they put last under 'min' (e.g. failed / NaN entries) comes first under 'max'")
        return "reverse-kw", m == "max" and not neg, f"reverse=(mode=='max'), key={U(key) if key is not None else None}"
    if isinstance(par, ast.IfExp) and par.test is node:
        amin, amax = (par.body, par.orelse) if m == "min" else (par.orelse, par.body)
        k = parity.is_sign(par, FLAGS)
        if k is not None:
            return "SIGN", True, f"{U(par)} (= {k} for min)"
        if U(amin) == U(amax):
            return "dual-arms", False, f"{U(par)[:80]}: both arms are identical, the mode test has no effect (nothing is mirrored)"
        if isinstance(amin, ast.Constant) and isinstance(amax, ast.Constant):
            return "SIGN", False, f"{U(par)} does not fold to k / -k"
        if isinstance(amin, ast.Compare) and isinstance(amax, ast.Compare):
            return "dual-compare", parity.dual_compare(amin, amax), U(par)
        if U(amax).replace(" ", "") == f"1-{U(amin)}".replace(" ", ""):
            return "q/1-q", True, U(par)
        if U(amin).replace(" ", "") == f"1-{U(amax)}".replace(" ", ""):
            return "q/1-q", True, U(par)
        if not _dual_arms(amin, amax, f):
            # one half of a switch written as two conditional expressions on the same test (left = .. if m else ..; g = .. if m else ..)
            st = getattr(par, "_parent", None)
            holder = getattr(st, "_parent", None)
            if isinstance(st, ast.Assign) and st.value is par and holder is not None:
                for fld in ("body", "orelse", "finalbody"):
                    sib = getattr(holder, fld, None)
                    if isinstance(sib, list) and st in sib:
                        i_ = sib.index(st)
                        for j_ in (i_ - 1, i_ + 1):
                            if 0 <= j_ < len(sib) and isinstance(sib[j_], ast.Assign) and isinstance(sib[j_].value, ast.IfExp) \
                                    and U(sib[j_].value.test) == U(par.test):
                                pair = [sib[min(i_, j_)], sib[max(i_, j_)]]
                                sel = (lambda ie: ie.body) if m == "min" else (lambda ie: ie.orelse)
                                oth = (lambda ie: ie.orelse) if m == "min" else (lambda ie: ie.body)
                                a2 = [ast.Assign(targets=s_.targets, value=sel(s_.value)) for s_ in pair]
                                b2 = [ast.Assign(targets=s_.targets, value=oth(s_.value)) for s_ in pair]
                                if _window_dual(a2, b2):
                                    return "window-dual", True, "left = i-1, g = f  <->  left = n-i-1, g = 1-f (two conditional expressions)"
        return "dual-arms", _dual_arms(amin, amax, f), U(par)[:90]
    if isinstance(par, ast.BinOp):
        # 1 - 2 * (mode == "min") and relatives: find the enclosing arithmetic expression
        # (the largest one that is still a function of the mode alone: the factor may be written inside a product with metric values)
        top = par
        while isinstance(getattr(top, "_parent", None), (ast.BinOp, ast.UnaryOp)) and \
                parity.fold_mode(top._parent, "min", FLAGS) is not None and parity.fold_mode(top._parent, "max", FLAGS) is not None:
            top = top._parent
        k = parity.is_sign(top, FLAGS)
        return "SIGN", k is not None, f"{U(top)}" + (f" (= {k} for min)" if k is not None else " does not fold to k / -k")
    if isinstance(par, ast.If) and par.test is node:
        from ..engine import inline_block
        amin, amax = (par.body, par.orelse) if m == "min" else (par.orelse, par.body)
        amin, amax = inline_block(amin), inline_block(amax)
        if not par.orelse:
            # negate under one mode:  if mode == 'max': x *= -1
            b = par.body
            ok = len(b) == 1 and ((isinstance(b[0], ast.AugAssign) and isinstance(b[0].op, ast.Mult) and U(b[0].value) in ("-1", "-1.0"))
                                  or (isinstance(b[0], ast.Assign) and U(b[0].value) == "-" + U(b[0].targets[0])))
            return "negate-under-mode", ok, f"if mode == '{m}': {U(b[0]) if b else ''}"
        if len(amax) == 1 and isinstance(amax[0], ast.If) and amax[0].test is not None and parity.mode_test(amax[0].test, FLAGS) is not None \
                and not amax[0].orelse and m == "min":
            amax = amax[0].body     # if min: A  elif max: B
        if len(amin) == 1 and len(amax) == 1 and isinstance(amin[0], ast.Assign) and isinstance(amax[0], ast.Assign) and \
                isinstance(amin[0].value, ast.Constant) and isinstance(amax[0].value, ast.Constant):
            a, b = amin[0].value.value, amax[0].value.value
            ok = isinstance(a, (int, float)) and a == -b and a != 0 and U(amin[0].targets[0]) == U(amax[0].targets[0])
            return "SIGN", ok, f"{U(amin[0].targets[0])} = {a} (min) / {b} (max)"
        if [U(x) for x in amin] == [U(x) for x in amax]:
            return "dual-arms", False, "both arms are identical, the mode test has no effect (nothing is mirrored)"
        if len(amin) == 1 and len(amax) == 1 and isinstance(amin[0], ast.Assign) and isinstance(amax[0], ast.Assign) \
                and U(amin[0].targets[0]) == U(amax[0].targets[0]):
            va, vb = U(amin[0].value).replace(" ", ""), U(amax[0].value).replace(" ", "")
            if vb == f"1-{va}" or va == f"1-{vb}":
                return "q/1-q", True, f"{U(amin[0].targets[0])} = {U(amin[0].value)} (min) / {U(amax[0].value)} (max)"
        if _window_dual(amin, amax):
            return "window-dual", True, "left = i-1, g = f  <->  left = n-i-1, g = 1-f"
        if _range_reversal(amin, amax):
            return "range-reversal", True, "range(n) <-> range(n-1, -1, -1)"
        if _neg_consts_equal(amin[0] if len(amin) == 1 else ast.Module(body=amin, type_ignores=[]),
                             amax[0] if len(amax) == 1 else ast.Module(body=amax, type_ignores=[])):
            return "SIGN", True, "arms differ by the sign of their constants"
        return "dual-arms", _dual_arms(amin, amax, f), (U(par.test) + ": " + U(amin[0]).split("\n")[0][:60])
    if isinstance(par, ast.ListComp):
        return "mode-vector", True, U(par)
    if isinstance(par, (ast.Assert, ast.BoolOp, ast.Call)) or isinstance(par, ast.Compare):
        return "validation", True, U(par)[:60]
    return None, False, f"[{type(par).__name__}] {U(par)[:80]}"


def sites(ctx, files):
    out = []
    for f in sorted(ctx.P.functions.values(), key=lambda f: (f.module.relpath, f.node.lineno)):
        if f.module.relpath not in files:
            continue
        seen = set()
        for x in walk_shallow(f.node, include_lambda=True):
            if not isinstance(x, (ast.Compare, ast.Name, ast.Attribute)):
                continue
            if parity.mode_test(x, FLAGS) is None:
                continue
            if isinstance(x, (ast.Name, ast.Attribute)) and not isinstance(x.ctx, ast.Load):
                continue
            par = getattr(x, "_parent", None)
            while isinstance(par, ast.UnaryOp) and isinstance(par.op, ast.Not):
                x, par = par, getattr(par, "_parent", None)
            if isinstance(par, ast.If) and par.test is not x:
                continue
            if id(par) in seen and not isinstance(par, ast.Assign):
                continue
            if isinstance(par, ast.Assign) and (id(par), "a") in seen:
                continue
            seen.add(id(par))
            seen.add((id(par), "a"))
            # elif chains: the nested `if mode == 'max'` in the orelse of `if mode == 'min'` is handled with its parent
            gp = getattr(par, "_parent", None)
            if isinstance(par, ast.If) and isinstance(gp, ast.If) and gp.orelse == [par] and parity.mode_test(gp.test, FLAGS) is not None:
                continue
            out.append((f, x))
    return out


def _dual_run(f):
    """decides whether two runs of statements (the same place of a function specialised to 'min' and to 'max') are mirror images, by
    any of the recognised pairings"""
    def q_pair(a, b):
        if not (len(a) == 1 and len(b) == 1 and isinstance(a[0], ast.Assign) and isinstance(b[0], ast.Assign) and U(a[0].targets[0]) == U(b[0].targets[0])):
            return False
        x, y = U(a[0].value).replace(" ", ""), U(b[0].value).replace(" ", "")
        return y == f"1-{x}" or x == f"1-{y}"

    def sign_pair(a, b):
        if not (len(a) == 1 and len(b) == 1 and isinstance(a[0], ast.Assign) and isinstance(b[0], ast.Assign) and U(a[0].targets[0]) == U(b[0].targets[0])):
            return False
        va, vb = a[0].value, b[0].value
        return isinstance(va, ast.Constant) and isinstance(vb, ast.Constant) and isinstance(va.value, (int, float)) and \
            isinstance(vb.value, (int, float)) and va.value == -vb.value and va.value != 0

    def dec(a, b):
        if _dual_arms(a, b, f) or _window_dual(a, b) or _range_reversal(a, b) or q_pair(a, b) or sign_pair(a, b):
            return True
        try:
            return _neg_consts_equal(a[0] if len(a) == 1 else ast.Module(body=a, type_ignores=[]), b[0] if len(b) == 1 else ast.Module(body=b, type_ignores=[]))
        except Exception:
            return False
    return dec


_SPEC = {}


def _mirror_when_specialised(f):
    """the function containing f's site, with the mode fixed to 'min' and to 'max', gives mirror images (None: the two are identical)"""
    top = f
    while top.parent is not None:
        top = top.parent
    if top.qualname not in _SPEC:
        consts = dict(f.module.constants)
        bmin = parity.specialise(top.node, "min", FLAGS, consts)
        bmax = parity.specialise(top.node, "max", FLAGS, consts)
        if U(ast.Module(body=bmin, type_ignores=[])) == U(ast.Module(body=bmax, type_ignores=[])):
            _SPEC[top.qualname] = None
        else:
            _SPEC[top.qualname] = parity.dual_bodies(bmin, bmax, _dual_run(f))
    return _SPEC[top.qualname]


def run(ctx, rep, tier="quick"):
    # the ranking of a synchronous rung is a sort on the metric with the direction taken from the mode; it is the mirror image under
    # (mode, metric) -> (other mode, -metric) only if no NaN takes part in it (an ascending sort and a reversed sort place an
    # incomparable key differently) - the NaN-filter rules of C05-S4 / S5 are taken over, relabelled
    from . import c05 as _c05
    from .common import take_over
    take_over(ctx, rep, _c05.s4_s5, "S2")
    n_sign = 0
    per_func = {}
    _SPEC.clear()
    for f, node in sites(ctx, FILES):
        shape, ok, detail = classify(ctx, f, node)
        if shape is None and _mirror_when_specialised(f):
            # the construct is written in a way the shape table does not know (a conditional expression where it knows the
            # statement, two switches where it knows one, ...): the function as a whole, with the mode fixed either way, decides
            shape, ok, detail = "specialised", True, "the function specialised to 'min' and to 'max' are mirror images"
        idx = per_func.setdefault(f.short, 0)
        per_func[f.short] = idx + 1
        construct = f"{f.short}#{idx}" if idx else f.short
        if shape is None:
            raise AnchorError(f"C15: mode-dependent construct of unknown shape in {f.short} line {node.lineno}: {detail} "
                              "(no transfer function; the checker needs extending - nothing is claimed)")
        if shape == "validation":
            rep.info("S1", "parity", f"{construct}: {shape}", f, node, detail)
            continue
        rep.put(ok, "S1", "parity", f"{construct}: {shape}", f, node, detail,
                f"{shape} site is not invariant under (mode, metric) -> (other mode, -metric): {detail}. Running with mode 'max' on negated "
                "metrics takes different decisions than mode 'min' on the original ones")
        if shape == "q/1-q" and ok:
            # everything computed from the mode-dependent q (virtual index, integer index, fractional part) counts positions in
            # ASCENDING order; the entry list is kept best-first (ascending for min, descending for max).  Such a value may address
            # the entry list only inside a mode switch (where both arms translate it) - not directly.
            bad = _mode_typed_positions_used_raw(f, node)
            rep.put(not bad, "S1", "parity", f"{construct}: positions derived from q address the entry list only inside a mode switch", f,
                    bad[0] if bad else node, "", f"`{U(bad[0])[:60] if bad else ''}` indexes the best-first entry list with an ascending-order position "
                    "outside any mode switch: right for 'min', mirrored for 'max'")
        if shape == "SIGN" and ok:
            # where is the sign stored, and is every use a product?
            st = node
            while st is not None and not isinstance(st, ast.stmt):
                st = getattr(st, "_parent", None)
            tgt = None
            # not stored at all: the factor stands inside the product it signs
            top = getattr(node, "_parent", None)
            while isinstance(getattr(top, "_parent", None), (ast.BinOp, ast.UnaryOp)) and \
                    parity.fold_mode(top._parent, "min", FLAGS) is not None and parity.fold_mode(top._parent, "max", FLAGS) is not None:
                top = top._parent
            tp = getattr(top, "_parent", None)
            if isinstance(top, (ast.BinOp, ast.UnaryOp)) and isinstance(tp, ast.BinOp) and isinstance(tp.op, ast.Mult) and parity.is_sign(top, FLAGS) is not None:
                other = tp.right if tp.left is top else tp.left
                n_sign += 1
                rep.put(not _may_be_sentinel(f, other), "S2", "parity", f"{construct}: the inline SIGN factor multiplies a metric-valued expression", f, tp,
                        U(tp)[:80], f"`{U(tp)[:80]}`: the other factor can be a fixed sentinel, which does not flip with the metrics")
                continue
            if isinstance(st, ast.Assign):
                tgt = U(st.targets[0])
            elif isinstance(st, ast.If):
                tgt = U(st.body[0].targets[0]) if isinstance(st.body[0], ast.Assign) else None
            if tgt is None or isinstance(getattr(node, "_parent", None), ast.DictComp) or "{" in (U(st)[:200] if st is not None else ""):
                if tgt is None:
                    continue
            n, bad = _sign_uses(ctx, f, tgt)
            n_sign += 1
            rep.put(n > 0 and not bad, "S2", "parity", f"{construct}: every use of SIGN `{tgt}` multiplies a metric-valued expression", f, st,
                    f"{n} use(s)", f"`{tgt}` is a mode sign but is not used as a factor of a metric-valued expression (it is not a factor at all, or the other "
                    f"factor can be a fixed sentinel such as inf / a dict.get default, which does not flip with the metrics): " +
                    ", ".join(f"{g.short}:{x.lineno}" for g, x in bad[:3]))
    # PASHA: the consumer sorts the (trial, rank, value) tuples with reverse=(mode == 'max'); that is symmetric only if the
    # producer's ranks are mode-dependent themselves (ascending-value ranks: range(n) for min, reversed for max).  Ranks that
    # are plain best-first positions are the same under both modes and must not be reversed for one of them.
    shapes_by_func = {}
    for f_, node_ in sites(ctx, FILES):
        if f_.cls is not None and f_.cls.name == "PASHARungSystem":
            shapes_by_func.setdefault(f_.name, []).append(classify(ctx, f_, node_)[0])
    cons = "reverse-flag" in shapes_by_func.get("_get_sorted_top_rungs", []) or "reverse-kw" in shapes_by_func.get("_get_sorted_top_rungs", [])
    prod = "range-reversal" in shapes_by_func.get("_get_top_two_rungs_rankings", [])
    rep.put(cons == prod, "S1", "parity", "PASHARungSystem: ranks are mode-dependent exactly if the ranking sort is reversed for 'max'",
            ctx.P.method("PASHARungSystem", "_get_sorted_top_rungs"), None, f"producer mode-dependent: {prod}, consumer reversed for max: {cons}",
            f"producer mode-dependent: {prod}, consumer reversed for max: {cons} - the (trial, rank, value) lists come out best-first for one mode "
            "and worst-first for the other: PASHA's stability test sees different rankings and grows its resource cap differently")
    # the statistics the two modes read (running minimum / maximum per metric) are maintained as a dual pair
    ms = ctx.P.method("MetricsStatistics", "add")
    upd = {}
    for x in walk_shallow(ms.node):
        if isinstance(x, ast.Assign) and isinstance(x.targets[0], ast.Subscript) and U(x.targets[0].value) in ("self.min_metrics", "self.max_metrics"):
            upd[U(x.targets[0].value)] = x
    okd = len(upd) == 2 and parity.arms_are_dual([upd["self.min_metrics"]], [upd["self.max_metrics"]], odd=odd)
    rep.put(okd, "S1", "parity", "MetricsStatistics.add: the running minimum and the running maximum are mirror images", ms,
            upd.get("self.max_metrics"), "", "the running maximum is not the mirror image of the running minimum (start value, operator or operands): "
            "the best value found under mode 'max' on negated metrics is not the negated best value under mode 'min'")
    # SIGN consumers whose comparison direction matters
    P = ctx.P
    r = P.method("Rung", "__init__")
    keys = [x for x in walk_shallow(r.node) if isinstance(x, ast.Call) and fn_name(x) == "SortedList"]
    ok = len(keys) == 1 and isinstance(kwarg(keys[0], "key"), ast.Lambda)
    if ok:
        lam = kwarg(keys[0], "key")
        b, a0 = lam.body, lam.args.args[0].arg
        sg = [x for x in (b.left, b.right) if isinstance(x, ast.Name)] if isinstance(b, ast.BinOp) and isinstance(b.op, ast.Mult) else []
        ok = len(sg) == 1 and U(b.right if sg[0] is b.left else b.left) == f"{a0}.metric_val"
        if ok:
            from ..engine import local_defs
            ds = [d for d in local_defs(r, sg[0].id) if not isinstance(d, tuple)]
            ok = len(ds) == 1 and parity.is_sign(ds[0], FLAGS) == 1
    rep.put(ok, "S2", "parity", "Rung.__init__: SortedList keyed by sign * metric (NORM: best first in both modes)", r, keys[0] if keys else None, "")
    d = P.method("DifferentialEvolutionHyperbandScheduler", "_selection")
    from ..engine import local_defs, vars_assigned_from
    sgv = vars_assigned_from(d, lambda v: parity.is_sign(v, FLAGS) == 1)
    tmv = vars_assigned_from(d, lambda v: isinstance(v, ast.Attribute) and v.attr == "metric_val")
    cmpn = [x for x in walk_shallow(d.node) if isinstance(x, ast.Compare) and any(isinstance(y, ast.Name) and y.id in sgv for y in ast.walk(x))]
    ok = len(cmpn) == 1 and len(sgv) == 1 and len(tmv) == 1 and \
        U(parity.oriented(cmpn[0], "0") or cmpn[0]).replace(" ", "") == f"{sgv[0]}*(metric_val-{tmv[0]})>=0"
    rep.put(ok, "S2", "parity", "DEHB._selection: sign * (new - target) >= 0 keeps the target (NORM comparison)", d, cmpn[0] if cmpn else None, "")
    q = P.method("PopulationBasedTraining", "_quantiles")
    srt = [x for x in walk_shallow(q.node) if isinstance(x, ast.Call) and (
        (isinstance(x.func, ast.Attribute) and x.func.attr == "sort") or (isinstance(x.func, ast.Name) and x.func.id == "sorted"))]
    ok = len(srt) == 1 and kwarg(srt[0], "key") is not None and kwarg(srt[0], "reverse") is None
    if ok and "last_score" not in U(kwarg(srt[0], "key")):
        # the score travels with the trial: (trial, score) pairs sorted on their second component
        from .common import inclusion_sites
        key = kwarg(srt[0], "key")
        seqe = srt[0].func.value if isinstance(srt[0].func, ast.Attribute) and srt[0].func.attr == "sort" else (srt[0].args[0] if srt[0].args else None)
        incl = inclusion_sites(ctx, q, seqe.id) if isinstance(seqe, ast.Name) else []
        second = isinstance(key, ast.Lambda) and isinstance(key.body, ast.Subscript) and U(key.body.slice) == "1" and \
            U(key.body.value) == key.args.args[0].arg
        ok = second and bool(incl) and all(isinstance(s_[1], ast.Tuple) and len(s_[1].elts) == 2 and "last_score" in U(s_[1].elts[1]) for s_ in incl)
    rep.put(ok, "S2", "parity", "PBT._quantiles: sorted by the signed score (NORM), lower quantile first", q, srt[0] if srt else None, "")
    t = P.method("Tuner", "best_config")
    from ..engine import var_from_call
    mmv = var_from_call(t, "metric_name_mode", 1)
    ok = mmv is not None and \
        any(isinstance(x, ast.Call) and fn_name(x) == "print_best_metric_found" and U(kwarg(x, "mode")) == mmv for x in walk_shallow(t.node))
    rep.put(ok, "S2", "parity", "Tuner.best_config resolves name and mode together and passes that mode on", t, None, "")


def thorough(ctx, rep, seed):
    """sweep the rest of syne_tune/ for mode-dependent constructs; reported, not judged"""
    allf = sorted({f.module.relpath for f in ctx.P.functions.values()})
    other = [x for x in allf if x not in FILES]
    shapes = {}
    unknown = []
    for f, node in sites(ctx, other):
        shape, ok, detail = classify(ctx, f, node)
        shapes[shape or "unknown"] = shapes.get(shape or "unknown", 0) + 1
        if shape is None or not ok:
            unknown.append(f"{f.short}:{node.lineno} {shape} {detail[:80]}")
    return {"sweep": {"files": len(other), "shapes": shapes, "not_invariant_or_unknown_outside_property_files": unknown[:60]}}
