"""C01 - worker budget and legal trial life cycle in every tuning run."""
import ast
import re

from ..core.model import AnchorError, FuncInfo
from ..core.cfg import walk_shallow, cfg_of
from ..core.facts import U, atoms_of
from ..engine import argn, fn_name, kwarg, local_defs, returns_of, stmts_in
from . import c02, c12

EXPLANATION = (
    "Decides structural clauses of C01: S1 only the tuning loop drives workers (who may call start/resume/pause/stop_trial of a "
    "backend); S2 trial ids are issued once and in sequence (new_trial_id() == len(trial_ids), one append per start, in every "
    "start_trial implementation); S3 only a paused trial is resumed (assert on Status.paused precedes _schedule; pause sets "
    "the status first; no override of resume_trial); S4 notification order at start/resume; S5 decision dispatch is complete "
    "on the STOP and PAUSE edges and on the completed/failed/externally-stopped edges; S6 each scheduler notification has the "
    "expected call sites on mutually exclusive edges; S7 finished trials leave the running set before new work is scheduled; "
    "S8 the number of trials started in one scheduling step is n_workers minus the number of busy workers, reachable only "
    "below the threshold; S9 in/out parameter discipline - the running set handed in by the caller is never rebound; "
    "S10 every started or resumed trial is registered in the running set and the status before the next trial can be "
    "requested or the step can fail. S1 also: the simulated busy set mirrors the events (added on a start event, removed on every path of a completion / stop event, written by nobody else) and each event goes to the handler of its type; S5 also: every result given to the scheduler is recorded as the trial's last seen result first, and on_trial_complete is given that record. NOT decided: run-time interleavings of real worker events (a backend whose "
    "busy_trial_ids lies).")

FLOOR = {"S1": 5, "S2": 4, "S3": 3, "S4": 3, "S5": 12, "S6": 5, "S7": 1, "S8": 3, "S9": 2, "S10": 2}

DRIVE = ("start_trial", "resume_trial", "pause_trial", "stop_trial")


def s1(ctx, rep):
    P = ctx.P
    allowed = {
        "start_trial": {"Tuner._schedule_new_task"},
        "resume_trial": {"Tuner._schedule_new_task"},
        "pause_trial": {"Tuner._update_running_trials"},
        "stop_trial": {"Tuner._update_running_trials", "TrialBackend.stop_all"},
    }
    n = 0
    for m in DRIVE:
        for f, call in ctx.all_calls_anywhere(method=m, recv="TrialBackend", allow_name=True):
            top = f
            while top.parent is not None:
                top = top.parent
            if _super_self(call, m, top):
                continue
            ok = top.short in allowed[m]
            n += 1
            rep.put(ok, "S1", "who_may_call", f"backend.{m} called from {top.short}", f, call, "the tuning loop",
                    f"{top.short} drives a worker directly (backend.{m}): the tuning loop's running set, the scheduler "
                    "notifications and the worker budget are bypassed")
    return n


def _super_self(call, m, top):
    # super().start_trial(...) inside an override of the same method is part of the implementation, not a driver
    v = call.func.value
    return top.name == m and isinstance(v, ast.Call) and fn_name(v) == "super"


def s2(ctx, rep):
    P = ctx.P
    tb = P.cls("TrialBackend")
    nt = tb.methods["new_trial_id"]
    rv = [U(r.value) for r in returns_of(nt)]
    rep.put(rv == ["len(self.trial_ids)"], "S2", "agreement", "TrialBackend.new_trial_id == len(trial_ids)", nt, None, str(rv))
    over = [c for c in P.all_subclasses(tb) if "new_trial_id" in c.methods]
    rep.put(not over, "S2", "sibling", "no backend overrides new_trial_id", tb, None, "", str([c.name for c in over]))
    impls = [c.methods["start_trial"] for c in P.all_subclasses(tb, strict=False) if "start_trial" in c.methods]
    for f in impls:
        cfg = cfg_of(f)
        a = ctx.nodes(f, ctx.sel_call(selfcall="new_trial_id"), "must", 0)
        app = {nid for nid, c in ctx.calls_in(f, method="append") if U(c.func.value) == "self.trial_ids"}
        sch = ctx.nodes(f, ctx.sel_call(selfcall="_schedule"), "may", 0)
        sup = any(isinstance(x, ast.Call) and fn_name(x) == "start_trial" and isinstance(x.func.value, ast.Call)
                  and fn_name(x.func.value) == "super" for x in walk_shallow(f.node))
        if sup and not app:
            rep.ok("S2", "must_precede", f"{f.short}: delegates to super().start_trial", f, None, "")
            continue
        ok = len(app) == 1 and bool(a) and bool(sch)
        if ok:
            an = next(iter(app))
            call = [c for nid, c in ctx.calls_in(f, method="append") if nid == an][0]
            idv = U(argn(call, 0))
            ok = any(isinstance(d, ast.Call) and fn_name(d) == "new_trial_id" for d in local_defs(f, idv) if not isinstance(d, tuple))
            ok = ok and cfg.path(cfg.entry, an, deleted=a) is None                       # id taken before append
            ok = ok and all(cfg.path(cfg.entry, s, deleted={an}) is None for s in sch)   # appended before scheduling
            ok = ok and cfg.path(cfg.entry, cfg.exit, deleted={an}, skip_labels=("exc",)) is None  # on every path
            ok = ok and an not in cfg.reachable([s for s, l in cfg.succ[an]])            # not in a loop
        rep.put(ok, "S2", "must_precede", f"{f.short}: tid = new_trial_id() ≺ trial_ids.append(tid) (once) ≺ _schedule", f, None,
                "ids are issued once and in sequence",
                "the id is not appended exactly once between new_trial_id() and _schedule on every path: ids repeat or skip")
    ws = ctx.writers("trial_ids", classes=["TrialBackend"])
    bad = [(f, n, k) for f, n, k in ws if not (f.name in ("__init__", "start_trial") and f.cls in ctx.down("TrialBackend"))]
    rep.put(not bad, "S2", "who_may_write", "TrialBackend.trial_ids written only by __init__/start_trial", tb, None,
            f"{len(ws)} write sites", ", ".join(f"{f.short}({k})" for f, n, k in bad))


def s3(ctx, rep):
    P = ctx.P
    tb = P.cls("TrialBackend")
    f = tb.methods["resume_trial"]
    cfg = cfg_of(f)
    sch = ctx.nodes(f, ctx.sel_call(selfcall="_schedule"), "may", 0)
    if not sch:
        raise AnchorError("TrialBackend.resume_trial: no _schedule call")
    for nid in sch:
        ok = ctx.has_fact(f, nid, lambda a: a[0] == "eq" and a[3] is True and "Status.paused" in (a[1], a[2])
                          and any(x.endswith(".status") for x in (a[1], a[2])))
        rep.put(ok, "S3", "guarded_by", "TrialBackend.resume_trial: _schedule | trial.status == Status.paused", f,
                cfg.nodes[nid].stmt, "", "a trial that is not paused can be scheduled again by resume_trial")
    over = [c.name for c in P.all_subclasses(tb) if "resume_trial" in c.methods]
    rep.put(not over, "S3", "sibling", "no backend overrides resume_trial", tb, None, "", str(over))
    g = tb.methods["pause_trial"]
    cg = cfg_of(g)
    st = {n.id for n in cg.nodes if n.kind == "stmt" and isinstance(n.ast, ast.Assign) and U(n.ast.targets[0]).endswith(".status")
          and U(n.ast.value) == "Status.paused"}
    pn = ctx.nodes(g, ctx.sel_call(selfcall="_pause_trial"), "may", 0)
    ok = bool(st) and bool(pn) and all(cg.path(cg.entry, p, deleted=st) is None for p in pn) and \
        cg.path(cg.entry, cg.exit, deleted=pn, skip_labels=("exc",)) is None
    rep.put(ok, "S3", "must_precede", "TrialBackend.pause_trial: status = paused ≺ _pause_trial (always)", g, None, "")
    # after resume the status is in_progress again
    st2 = {n.id for n in cfg.nodes if n.kind == "stmt" and isinstance(n.ast, ast.Assign) and U(n.ast.targets[0]).endswith(".status")
           and U(n.ast.value) == "Status.in_progress"}
    ok = bool(st2) and cfg.path(cfg.entry, cfg.exit, deleted=st2, skip_labels=("exc",)) is None
    rep.put(ok, "S3", "must_follow", "TrialBackend.resume_trial: status = in_progress on every normal path", f, None, "")


def s4(ctx, rep):
    P = ctx.P
    f = P.method("Tuner", "_schedule_new_task")
    cfg = cfg_of(f)
    st = ctx.nodes(f, ctx.sel_call(method="start_trial", recv="TrialBackend"), "may", 0)
    add = ctx.nodes(f, ctx.sel_call(method="on_trial_add", recv="TrialScheduler"), "may", 0)
    cb = ctx.nodes(f, ctx.sel_call(method="on_start_trial", recv="TunerCallback"), "may", 0)
    rs = ctx.nodes(f, ctx.sel_call(method="resume_trial", recv="TrialBackend"), "may", 0)
    cr = ctx.nodes(f, ctx.sel_call(method="on_resume_trial", recv="TunerCallback"), "may", 0)
    if not (st and add and cb and rs and cr):
        raise AnchorError("Tuner._schedule_new_task: start/on_trial_add/on_start_trial/resume/on_resume_trial sites not all found")
    ok = all(cfg.path(cfg.entry, a, deleted=st) is None for a in add) and all(cfg.path(cfg.entry, c, deleted=add) is None for c in cb)
    # every start is followed by on_trial_add on every normal path
    ok2 = all(cfg.path([s for s, l in cfg.succ[x]], cfg.exit, deleted=add, skip_labels=("exc",)) is None for x in st)
    rep.put(ok and ok2, "S4", "must_precede", "Tuner._schedule_new_task: start_trial ≺ scheduler.on_trial_add ≺ callback.on_start_trial", f, None,
            "the scheduler is told about every start, after the backend started it",
            "start_trial / on_trial_add / on_start_trial are not in this order on every path (or a start is not announced)")
    ok = all(cfg.path(cfg.entry, c, deleted=rs) is None for c in cr)
    rep.put(ok, "S4", "must_precede", "Tuner._schedule_new_task: resume_trial ≺ callback.on_resume_trial", f, None, "")
    # on_trial_add not reachable on the resume edge (the scheduler knows the trial already)
    ok = not (set().union(*[cfg.reachable(r) for r in rs]) & add)
    rep.put(ok, "S4", "must_precede", "Tuner._schedule_new_task: on_trial_add only for new trials", f, None, "")
    c12.s7(ctx, rep, clause="S4")


def s5(ctx, rep, clause="S5"):
    P = ctx.P
    f = P.method("Tuner", "_update_running_trials")
    cfg = cfg_of(f)
    rv = [r.value.id for r in returns_of(f) if isinstance(r.value, ast.Name)]
    if len(set(rv)) != 1:
        raise AnchorError("Tuner._update_running_trials does not return its dictionary of finished trials")
    dn = rv[0]

    def has_dn(text):
        return re.search(r"(?<![\w.])" + re.escape(dn) + r"(?!\w)", text) is not None
    c02.s1(ctx, rep, clause=clause)
    # per decision edge: required actions before returning to the loop head
    sites = ctx.calls_in(f, method="on_trial_result", recv="TrialScheduler")
    nid = sites[0][0]
    head = [n.id for n in cfg.nodes if n.kind == "for" and any(s is cfg.nodes[nid].stmt for s in stmts_in(n.ast.body))][-1]
    need = {
        "STOP": [("on_trial_remove", ctx.sel_call(method="on_trial_remove", recv="TrialScheduler")),
                 ("trials_scheduler_stopped.add", ctx.sel_pred(lambda x: isinstance(x, ast.Call) and fn_name(x) == "add"
                                                               and "trials_scheduler_stopped" in U(x.func.value)))],
        "PAUSE": [("pause_trial", ctx.sel_call(method="pause_trial", recv="TrialBackend")),
                  ("on_trial_remove", ctx.sel_call(method="on_trial_remove", recv="TrialScheduler"))],
    }
    from .common import consistent_with
    for dec, reqs in need.items():
        for t, s, cnd, tru in [e for e in c02.decision_edges_l(ctx, f, dec) if e[0] in cfg.reachable(nid)]:
            for name, sel in reqs:
                bn = ctx.nodes(f, sel, "must", 0)
                p = cfg.path(s, head, deleted=bn, skip_labels=("exc",), edge_ok=consistent_with(cnd, tru)) if s not in bn else None
                rep.put(bool(bn) and p is None, clause, "must_follow", f"Tuner._update_running_trials: {dec} edge → {name}", f,
                        cfg.nodes[t].stmt, "", f"a {dec} decision can be processed without {name}",
                        witness=cfg.describe_path(p) if p else None)
    # STOP: stop_trial unless the trial already completed
    stp = ctx.calls_in(f, method="stop_trial", recv="TrialBackend")
    for n2, c in stp:
        at = _dom_atoms(cfg, n2)
        ok = any(a[0] == "eq" and a[3] is True and (a[1].endswith("SchedulerDecision.STOP") or a[2].endswith("SchedulerDecision.STOP"))
                 for a in at) and any(a[0] == "eq" and a[3] is False and "Status.completed" in (a[1], a[2]) for a in at)
        extra = [a for a in at if not (a[0] == "eq" and ("SchedulerDecision.STOP" in a[1] + a[2] or "Status.completed" in (a[1], a[2])))
                 and not (a[0] == "in" and has_dn(a[2]))
                 and not (a[0] == "in" and a[3] is True and "SchedulerDecision.STOP" in a[2])        # implied by decision == STOP
                 and not (a[0] == "eq" and a[3] is False and "SchedulerDecision." in a[1] + a[2])]  # decision != <another member>: implied as well
        rep.put(ok and not extra, clause, "guarded_by", "Tuner._update_running_trials: stop_trial | decision == STOP and status != completed (only)",
                f, c, "", f"stop_trial is guarded by {sorted(map(str, at))}: a STOP decision for a running trial may not reach the backend")
    # status loop: completed / failed / externally stopped
    for meth, pred, what in (
            ("on_trial_complete", lambda a: a[0] == "in" and a[3] is False and has_dn(a[2]), "trial_id not in done_trials"),
            ("on_trial_error", lambda a: a[0] == "eq" and a[3] is True and ("Status.failed" in (a[1], a[2]) or "Status.stopped" in (a[1], a[2])),
             "status failed / stopped")):
        ss = ctx.calls_in(f, method=meth, recv="TrialScheduler")
        if not ss:
            raise AnchorError(f"_update_running_trials: scheduler.{meth} not found")
        for n2, c in ss:
            held = ctx.has_fact(f, n2, pred)
            if not held and meth == "on_trial_error":
                # one notification shared by the failed and the externally-stopped case: every alternative of its guard names a status
                alts = _error_guard_alternatives(ctx, f, n2)
                held = len(alts) > 1 and all(any(pred(a) for a in alt) for alt in alts)
            rep.put(held, clause, "guarded_by", f"Tuner._update_running_trials: scheduler.{meth} | {what}" +
                    (f" [{_status_of(ctx, f, n2)}]" if meth == "on_trial_error" else ""), f, c, "")
    # the failure notifications depend on the status alone (no further guard may swallow a failure)
    for n2, c in ctx.calls_in(f, method="on_trial_error", recv="TrialScheduler"):
        from .common import drop_implied
        at = drop_implied(_dom_atoms(cfg, n2))
        st_ = _status_of(ctx, f, n2)
        allowed = [a for a in at if (a[0] == "eq" and a[3] is True and ("Status.failed" in (a[1], a[2]) or "Status.stopped" in (a[1], a[2])))
                   or (a[0] == "in" and a[3] is False and "trials_scheduler_stopped" in a[2] and st_ == "stopped")]
        extra = [a for a in at if a not in allowed]
        if extra and any(a[0] == "or" for a in extra):
            # a shared notification: each alternative of the guard consists of a status test (and, for 'stopped', of 'not stopped by
            # the scheduler'); nothing else
            extra = []
            for alt in _error_guard_alternatives(ctx, f, n2):
                alt = drop_implied(alt)
                stopped = any(a[0] == "eq" and a[3] is True and "Status.stopped" in (a[1], a[2]) for a in alt)
                ok_ = [a for a in alt if (a[0] == "eq" and a[3] is True and ("Status.failed" in (a[1], a[2]) or "Status.stopped" in (a[1], a[2])))
                       or (a[0] == "in" and a[3] is False and "trials_scheduler_stopped" in a[2] and stopped)]
                if not any(a[0] == "eq" for a in ok_):
                    extra.append(("no status test in", tuple(sorted(map(str, alt)))))
                extra += [a for a in alt if a not in ok_]
        rep.put(not extra, clause, "guarded_by", f"Tuner._update_running_trials: on_trial_error [{st_}] depends on the status only", f, c,
                str(sorted(map(str, at))), f"the failure notification is additionally guarded by {sorted(map(str, extra))}: a failure that "
                "coincides with that condition (e.g. a stop/pause decision for the same trial in the same poll) is swallowed - "
                "the scheduler is not notified and the failure is not counted")
    # externally stopped: not one the scheduler stopped itself
    for n2, c in ctx.calls_in(f, method="on_trial_error", recv="TrialScheduler"):
        at = ctx.facts(f).at(n2)
        if any(a[0] == "eq" and a[3] is True and "Status.stopped" in (a[1], a[2]) for a in at):
            ok = any(a[0] == "in" and a[3] is False and "trials_scheduler_stopped" in a[2] for a in at)
            rep.put(ok, clause, "guarded_by", "Tuner._update_running_trials: on_trial_error for stopped | not stopped by the scheduler", f, c, "",
                    "a trial the scheduler itself stopped is reported to it as an error")
    # each of the three edges records the trial as done
    for n2, c in ctx.calls_in(f, method="on_trial_error", recv="TrialScheduler") + ctx.calls_in(f, method="on_trial_complete", recv="TrialScheduler"):
        rec = {n.id for n in cfg.nodes if n.kind == "stmt" and isinstance(n.ast, ast.Assign)
               and any(isinstance(t, ast.Subscript) and has_dn(U(t.value)) for t in n.ast.targets)}
        heads = [n.id for n in cfg.nodes if n.kind == "for" and any(s is cfg.nodes[n2].stmt for s in stmts_in(n.ast.body))]
        # from the start of the branch that contains the notification (either order inside the branch is fine)
        from ..engine import dominating_edges
        starts = [s for s, l in cfg.succ[n2]]
        doms = list(dominating_edges(cfg, n2))      # the innermost branch that contains the notification
        if doms:
            t_last = doms[-1][0]
            starts = [s for s, l in cfg.succ[t_last] if isinstance(l, tuple) and l[2] is doms[-1][2] and
                      n2 in cfg.reachable(s)] or starts
        p = cfg.path(starts, heads[-1], deleted=rec, skip_labels=("exc",))
        rep.put(p is None, clause, "must_follow", f"Tuner._update_running_trials: {fn_name(c)} [{_status_of(ctx, f, n2)}] → done_trials[trial_id] =", f, c, "",
                witness=cfg.describe_path(p) if p else None)


def s5c(ctx, rep, clause="S5"):
    """order inside one iteration of Tuner._update_running_trials: a status that is recorded or announced is the final one - the
    record `done_trials[id] = (trial, status)` and the completion callbacks come after every override of `status` that can still
    happen in that iteration (STOP -> stopped, PAUSE -> paused, 'paused overrides completed')"""
    P = ctx.P
    f = P.method("Tuner", "_update_running_trials")
    cfg = cfg_of(f)
    # one iteration = from an outermost loop's head back to it (inner loops, e.g. over the callbacks, are part of the iteration)
    fors = [n for n in cfg.nodes if n.kind == "for"]
    heads = {n.id for n in fors if not any(o is not n and any(y is n.ast for s_ in o.ast.body for y in ast.walk(s_)) for o in fors)}
    rvn = [r.value.id for r in returns_of(f) if isinstance(r.value, ast.Name)]
    if len(set(rvn)) != 1:
        raise AnchorError("Tuner._update_running_trials does not return its record of finished trials")
    sv_loops = [x for x in walk_shallow(f.node) if isinstance(x, ast.For)]
    # the status variable(s): the names bound by the loops whose values are stored into the record
    recs = [n for n in cfg.nodes if n.kind == "stmt" and isinstance(n.ast, ast.Assign) and isinstance(n.ast.targets[0], ast.Subscript)
            and U(n.ast.targets[0].value) == rvn[0] and isinstance(n.ast.value, ast.Tuple) and len(n.ast.value.elts) == 2 and isinstance(n.ast.value.elts[1], ast.Name)]
    if not recs:
        raise AnchorError("Tuner._update_running_trials: `done_trials[trial_id] = (trial, status)` not found")
    for n in recs:
        sv = n.ast.value.elts[1].id
        later = [m for m in cfg.nodes if m.kind == "stmt" and isinstance(m.ast, ast.Assign) and any(isinstance(t_, ast.Name) and t_.id == sv for t_ in m.ast.targets)
                 and cfg.path([s_ for s_, l_ in cfg.succ[n.id]], m.id, deleted=heads, skip_labels=("exc",)) is not None]
        rep.put(not later, clause, "must_precede", f"Tuner._update_running_trials: the status recorded for a finished trial is final ({U(n.ast)[:50]})", f,
                later[0].ast if later else n.ast, "", f"`{U(later[0].ast) if later else ''}` changes the status after it was recorded in `{rvn[0]}`: the trial is "
                "counted (and reported to the caller) under the status it had before the scheduler's decision took effect - a stopped trial stays 'in progress', "
                "is not counted as finished and the stopping criterion is overshot")
    # the completion callbacks are told about a trial only after 'paused overrides completed' has been decided
    cb = [n.id for n in cfg.nodes for x in cfg.node_walk(n.id) if isinstance(x, ast.Call) and fn_name(x) == "on_trial_complete" and "callback" in U(x.func.value)]
    ovr = [m for m in cfg.nodes if m.kind == "stmt" and isinstance(m.ast, ast.Assign) and U(m.ast.value) == "Status.paused"
           and any(isinstance(t_, ast.Name) for t_ in m.ast.targets)]
    bad = [(c_, m) for c_ in cb for m in ovr if cfg.path([s_ for s_, l_ in cfg.succ[c_]], m.id, deleted=heads, skip_labels=("exc",)) is not None]
    if cb:
        rep.put(not bad, clause, "must_precede", "Tuner._update_running_trials: 'paused overrides completed' is decided before the completion callbacks are told", f,
                bad[0][1].ast if bad else None, "", "callbacks are told a trial completed which the scheduler paused at that very report (the override to "
                "'paused' comes after the notification): the trial is announced as completed and later resumed")


def s5b(ctx, rep, clause="S5"):
    """the conditions the life-cycle actions are taken under (guard table; found thin by the generic mutation audit)"""
    from .common import require_guard, call_nodes
    P = ctx.P
    f = P.method("Tuner", "_update_running_trials")
    # the status variable of the second loop: nested target of `for id, (trial, status) in ...items()`
    loops = [x for x in walk_shallow(f.node) if isinstance(x, ast.For) and isinstance(x.target, ast.Tuple) and len(x.target.elts) == 2
             and isinstance(x.target.elts[1], ast.Tuple)]
    if len(loops) != 1:
        raise AnchorError("Tuner._update_running_trials: status loop not found")
    sv = U(loops[0].target.elts[1].elts[1])
    nodes = [n for n, c in call_nodes(ctx, f, lambda c: fn_name(c) == "on_trial_complete" and "scheduler" in U(c.func))]
    require_guard(ctx, rep, clause, f, "Tuner._update_running_trials: scheduler.on_trial_complete | status == completed", nodes,
                  [(f"{sv} == Status.completed", lambda a: a[0] == "eq" and a[3] is True and {a[1], a[2]} == {sv, "Status.completed"})],
                  "the scheduler is told that a trial completed which has not (or is not told when one has)")
    from ..engine import deref
    # the result the scheduler is given at completion is the last one it was given as a result: every result handed to
    # scheduler.on_trial_result is recorded under the trial's id on the way there, and on_trial_complete reads that record
    rec = "last_seen_result_per_trial"
    cfg0 = cfg_of(f)
    otr = [n for n, c in call_nodes(ctx, f, lambda c: fn_name(c) == "on_trial_result" and "scheduler" in U(c.func))]
    if len(otr) != 1:
        raise AnchorError("Tuner._update_running_trials: scheduler.on_trial_result call not found")
    oc = [c for x in cfg0.node_walk(otr[0]) if isinstance(x, ast.Call) and fn_name(x) == "on_trial_result" and "scheduler" in U(x.func) for c in [x]][0]
    resv = kwarg(oc, "result", 1)
    stores = {n.id for n in cfg0.nodes if n.kind == "stmt" and isinstance(n.ast, ast.Assign) and any(
        isinstance(t, ast.Subscript) and U(deref(f, t.value)).endswith("." + rec) for t in n.ast.targets) and resv is not None and U(deref(f, n.ast.value)) == U(deref(f, resv))}
    hdr = [l.id for l in cfg0.nodes if l.kind == "for" and any(x is oc for st_ in stmts_in(l.ast.body) for x in ast.walk(st_))]
    okr = bool(stores) and bool(hdr) and cfg0.path([hdr[-1]], otr[0], deleted=stores, skip_labels=("exc",)) is None
    rep.put(okr, clause, "must_precede", f"Tuner._update_running_trials: the result given to the scheduler is recorded in {rec} first", f, oc, "",
            f"a result reaches scheduler.on_trial_result without being stored in {rec}[trial_id]: on_trial_complete is later given an older "
            "result than the last one the scheduler saw (or the run aborts with 'no metrics got observed')")
    cc = [c for n, c in call_nodes(ctx, f, lambda c: fn_name(c) == "on_trial_complete" and "scheduler" in U(c.func))]
    lastv = deref(f, argn(cc[0], 1)) if cc and argn(cc[0], 1) is not None else None
    okc = lastv is not None and isinstance(lastv, ast.Subscript) and U(lastv.value).endswith("." + rec)
    rep.put(okc, clause, "agreement", f"Tuner._update_running_trials: scheduler.on_trial_complete is given {rec}[trial_id]", f, cc[0] if cc else None, "",
            "the completion call does not pass the last result delivered for this trial")
    # "the scheduler paused it" overrides "the job completed": decided on the record of this call's decisions (the returned dict)
    rvn = [r.value.id for r in returns_of(f) if isinstance(r.value, ast.Name)]
    cfg = cfg_of(f)
    ov = [n for n in cfg.nodes if n.kind == "stmt" and isinstance(n.ast, ast.Assign) and U(n.ast.targets[0]) == sv and U(n.ast.value) == "Status.paused"
          and any(l.kind == "for" and l.ast is loops[0] and n.stmt in list(stmts_in(l.ast.body)) for l in cfg.nodes)]
    oko = len(ov) == 1 and len(set(rvn)) == 1
    if oko:
        from .common import dom_guard
        src = None
        for a in dom_guard(ctx, f, ov[0].id):
            if a[0] == "eq" and a[3] is True and "Status.paused" in (a[1], a[2]):
                other = a[2] if a[1] == "Status.paused" else a[1]
                base = ast.parse(other, mode="eval").body
                while isinstance(base, ast.Subscript):
                    base = base.value
                src = base if isinstance(base, ast.Name) and base.id == rvn[0] else deref(f, base)
        oko = src is not None and any(isinstance(y, ast.Name) and y.id == rvn[0] for y in ast.walk(src))
    rep.put(oko, clause, "taint", "Tuner._update_running_trials: 'paused' overrides 'completed' | the scheduler paused the trial in this call", f,
            ov[0].ast if ov else None, "", "the override is decided on another record than the decisions taken in this call (the backend's status map never "
            "says 'paused' for a job that just ended): a trial paused at its final report counts as completed - it can no longer be resumed and the "
            "completed / finished counters run ahead")
    g = P.method("Tuner", "_schedule_new_task")
    sugg = [U(t.targets[0]) for t in walk_shallow(g.node) if isinstance(t, ast.Assign) and isinstance(t.value, ast.Call) and fn_name(t.value) == "suggest"]
    if len(sugg) != 1:
        raise AnchorError("Tuner._schedule_new_task: `suggestion = scheduler.suggest(...)` not found")
    flag = f"{sugg[0]}.spawn_new_trial_id"
    for meth, truth in (("start_trial", True), ("resume_trial", False)):
        nodes = [n for n, c in call_nodes(ctx, g, lambda c, m=meth: fn_name(c) == m and "trial_backend" in U(c.func))]
        require_guard(ctx, rep, clause, g, f"Tuner._schedule_new_task: backend.{meth} | spawn_new_trial_id is {truth}", nodes,
                      [(f"{'' if truth else 'not '}{flag}", lambda a, t=truth: a[0] == "truth" and a[1] == flag and a[2] is t)],
                      "a suggestion to resume a paused trial starts a new trial instead (or a new configuration is run by resuming an old trial)")
    adds = [n for n, c in call_nodes(ctx, f, lambda c: fn_name(c) == "add" and "trials_scheduler_stopped" in U(c.func.value))]
    require_guard(ctx, rep, clause, f, "Tuner._update_running_trials: a trial is marked as stopped by the scheduler | decision == STOP", adds,
                  [("decision == SchedulerDecision.STOP", lambda a: a[0] == "eq" and a[3] is True and any(x.endswith("SchedulerDecision.STOP") for x in (a[1], a[2])))],
                  "a trial the scheduler only paused is marked as stopped by the scheduler and the mark is never cleared: when it is resumed and then "
                  "stopped from outside, the scheduler is not told about the failure and the trial stays in the running set for ever")
    pc = P.method("SimulatorBackend", "_process_complete_event")
    cpc = cfg_of(pc)
    stw = [n for n in cpc.nodes if n.kind == "stmt" and isinstance(n.ast, ast.Assign) and any(isinstance(t, ast.Attribute) and t.attr == "status" for t in n.ast.targets)]
    from .common import dom_guard
    extra = [a for n in stw for a in dom_guard(ctx, pc, n.id) if a[0] != "isinstance"]
    rep.put(bool(stw) and not extra, clause, "guarded_by", "SimulatorBackend._process_complete_event: the status carried by the event is written whatever it is", pc,
            stw[0].ast if stw else None, "", f"the status of the completion event is written only under {sorted(map(str, extra))}: pause_trial and the "
            "job's own completion both write this field, and whichever event is processed last must win - otherwise a paused trial is left "
            "'completed' (or a completed one 'in progress') and the tuner resumes a trial that is not paused")
    h = P.method("TrialBackend", "stop_all")
    nodes = [n for n, c in call_nodes(ctx, h, lambda c: fn_name(c) == "stop_trial")]
    require_guard(ctx, rep, clause, h, "TrialBackend.stop_all: stop_trial | the trial is in progress", nodes,
                  [("status == Status.in_progress", lambda a: a[0] == "eq" and a[3] is True and "Status.in_progress" in (a[1], a[2]))],
                  "running trials are left running at the end (and finished ones are 'stopped')")


def _dom_atoms(cfg, nid):
    """atoms of the branch conditions every path to nid must take"""
    from ..engine import dominating_edges
    out = set()
    for (_, c, t) in dominating_edges(cfg, nid):
        out |= atoms_of(c, t)
    return out


def _error_guard_alternatives(ctx, f, nid):
    """the guard of a failure notification as a list of alternatives (sets of atoms): one alternative for a plain conjunction, several
    when the notification is shared by `failed or stopped-externally` (local flags expanded through their one definition)"""
    from ..core.facts import atoms_of as _ao
    cfg = cfg_of(f)
    base = set(_dom_atoms(cfg, nid))

    def expand(atoms):
        out = set()
        for a in atoms:
            if a[0] == "truth" and a[1].isidentifier():
                ds = [d for d in local_defs(f, a[1]) if not isinstance(d, tuple)]
                if len(ds) == 1:
                    out |= set(_ao(ds[0], a[2]))
                    continue
            out.add(a)
        return out
    base = expand(base)
    ors = [a for a in base if a[0] == "or"]
    rest = {a for a in base if a[0] != "or"}
    if len(ors) != 1:
        return [rest | set(ors)]
    return [rest | expand(set(alt)) for alt in ors[0][1]]


def _status_of(ctx, f, nid):
    for a in ctx.facts(f).at(nid):
        if a[0] == "eq" and a[3] is True:
            for x in (a[1], a[2]):
                if x.startswith("Status."):
                    return x[7:]
    return "?"


def s6(ctx, rep, clause="S6"):
    P = ctx.P
    tf = P.cls("Tuner")
    # every notification has a call site in the tuning loop, and none is issued twice on one path through its function
    for m in ("on_trial_add", "on_trial_result", "on_trial_remove", "on_trial_complete", "on_trial_error"):
        sites = [(f, c) for f, c in ctx.all_calls_anywhere(method=m, recv="TrialScheduler", allow_name=False) if f.cls is tf]
        twice = None
        for f_ in {f for f, c in sites}:
            cf_ = cfg_of(f_)
            nds = [n.id for n in cf_.nodes if any(isinstance(x, ast.Call) and any(x is c for g, c in sites if g is f_) for x in cf_.node_walk(n.id))]
            heads_ = {n.id for n in cf_.nodes if n.kind in ("for",)} | {n.id for n in cf_.nodes if n.kind == "test" and any(
                isinstance(w, ast.While) and w.test is n.ast for w in ast.walk(f_.node))}
            from ..engine import dominating_edges
            from .common import consistent_with
            for a_ in nds:
                oks_ = [consistent_with(c_, t_) for (_, c_, t_) in dominating_edges(cf_, a_)]
                for b_ in nds:
                    if cf_.path([s_ for s_, l in cf_.succ[a_]], b_, deleted=heads_, skip_labels=("exc",),
                                edge_ok=lambda lab, oks_=oks_: all(o(lab) for o in oks_)) is not None:
                        twice = (f_, a_, b_)
        rep.put(bool(sites) and twice is None, clause, "agreement", f"Tuner: scheduler.{m} is called, and at most once per trial and iteration", tf, None, f"{len(sites)} site(s)",
                f"{len(sites)} call site(s) of scheduler.{m}" + ("; one iteration can pass two of them: the notification is duplicated" if twice else ": the notification is lost"))
    for cname in ("SchedulerDecision", "Status"):
        c = P.cls(cname)
        vals = {}
        for k2, v in c.class_attrs.items():
            if isinstance(v, ast.Constant):
                vals.setdefault(v.value, []).append(k2)
        dup = {v: ks for v, ks in vals.items() if len(ks) > 1}
        rep.put(not dup and len(vals) >= 3, clause, "agreement", f"{cname} constants are pairwise distinct", c, None, str(sorted(vals)), str(dup))


def s7(ctx, rep):
    P = ctx.P
    f = P.method("Tuner", "run")
    cfg = cfg_of(f)
    sched = ctx.nodes(f, ctx.sel_call(selfcall="_schedule_new_tasks"), "may", 0)
    proc = ctx.nodes(f, ctx.sel_call(selfcall="_process_new_results"), "may", 0)
    if not (sched and proc):
        raise AnchorError("Tuner.run: _process_new_results/_schedule_new_tasks not found")
    # the running-set variable passed to both
    call = ctx.calls_in(f, selfcall="_schedule_new_tasks")[0][1]
    rv = U(kwarg(call, "running_trials_ids", 0))
    upd = {n.id for n in cfg.nodes if any(isinstance(x, ast.Call) and fn_name(x) in ("difference_update",) and U(x.func.value) == rv
                                          for x in cfg.node_walk(n.id))}
    upd |= {n.id for n in cfg.nodes if n.kind == "stmt" and isinstance(n.ast, ast.AugAssign) and U(n.ast.target) == rv
            and isinstance(n.ast.op, ast.Sub)}
    ok = bool(upd) and all(cfg.path(list(proc), s, deleted=upd) is None for s in sched)
    rep.put(ok, "S7", "must_precede", "Tuner.run: running set reduced by finished trials ≺ _schedule_new_tasks", f, None,
            f"{rv}.difference_update(...) between processing results and scheduling",
            "new tasks can be scheduled before the trials that just finished/paused are removed from the running set: a trial "
            "paused in this iteration and resumed immediately is afterwards removed from the running set although it runs")
    # and what is subtracted is what _process_new_results returned in THIS iteration - not the accumulated record of all
    # trials that were ever done (a trial that was paused earlier and has been resumed is running again)
    from ..engine import var_from_call, deref
    nd = var_from_call(f, "_process_new_results", 0)
    if nd is None:
        raise AnchorError("Tuner.run: result of _process_new_results is not unpacked into (finished trials, new results)")
    for n_ in sorted(upd):
        for x in cfg.node_walk(n_):
            if isinstance(x, ast.Call) and fn_name(x) == "difference_update" and U(x.func.value) == rv and x.args:
                a = deref(f, argn(x, 0))
                names = {y.id for y in ast.walk(a) if isinstance(y, ast.Name)}
                ok = names == {nd}
                rep.put(ok, "S7", "taint", "Tuner.run: the running set is reduced by exactly the trials _process_new_results reported as finished", f, x,
                        U(x), f"`{U(x)}` subtracts {sorted(names - {nd}) or '(nothing of this iteration)'} instead of this iteration's finished trials "
                        f"`{nd}`: a trial that was paused once and has been resumed is removed from the running set again - it is never polled "
                        "and its worker is given to another trial (more than n_workers occupy workers)")
    return


def s8(ctx, rep):
    P = ctx.P
    f = P.method("Tuner", "_schedule_new_tasks")
    cfg = cfg_of(f)
    sites = ctx.calls_in(f, selfcall="_schedule_new_task")
    if len(sites) != 1:
        raise AnchorError("_schedule_new_tasks: expected one _schedule_new_task call")
    nid, call = sites[0]
    loops = [n for n in cfg.nodes if n.kind == "for" and any(s is cfg.nodes[nid].stmt for s in stmts_in(n.ast.body))]
    ok = len(loops) == 1 and isinstance(loops[0].ast.iter, ast.Call) and fn_name(loops[0].ast.iter) == "range" \
        and len(loops[0].ast.iter.args) == 1
    busy = None
    if ok:
        e = argn(loops[0].ast.iter, 0)
        ok = isinstance(e, ast.BinOp) and isinstance(e.op, ast.Sub) and U(e.left) == "self.n_workers" and isinstance(e.right, ast.Name)
        busy = e.right.id if ok else None
    rep.put(ok, "S8", "symbolic", "Tuner._schedule_new_tasks: starts n_workers - busy trials per step", f, loops[0].ast if loops else None,
            f"for _ in range(self.n_workers - {busy})", "the number of trials started per step is not n_workers minus the busy workers")
    if not ok:
        return
    # busy is len(running set) or len(backend busy list) on every path
    defs = [d for d in local_defs(f, busy) if not isinstance(d, tuple)]
    srcs = [U(d) for d in defs]
    okd = bool(defs) and all(isinstance(d, ast.Call) and fn_name(d) == "len" for d in defs)
    param = [p for p in f.params if p != "self"][0]
    okd = okd and all(U(argn(d, 0)) == param or any("busy_trial_ids" in U(x) for x in local_defs(f, U(argn(d, 0))) if not isinstance(x, tuple))
                      for d in defs)
    rep.put(okd, "S8", "symbolic", "Tuner._schedule_new_tasks: busy count is len(running set) or len(backend.busy_trial_ids())", f, None, str(srcs))
    # reached only below the threshold, threshold in {n_workers, 1}
    thr = None
    for a in ctx.facts(f).at(loops[0].id):
        if a[0] == "lt" and a[1] == busy:
            thr = a[2]
    okt = thr is not None
    if okt:
        # the values the threshold can take: one definition (possibly a conditional expression), or one per arm of an if/else
        tdn = [d for d in local_defs(f, thr) if not isinstance(d, tuple)]
        vals = set()
        for d in tdn:
            vals |= {U(d.body), U(d.orelse)} if isinstance(d, ast.IfExp) else {U(d)}
        okt = bool(tdn) and len(tdn) == len(local_defs(f, thr)) and (vals == {"self.n_workers"} or vals == {"self.n_workers", "1"})
    rep.put(okt, "S8", "guarded_by", "Tuner._schedule_new_tasks: scheduling only when busy < threshold ∈ {n_workers, 1}", f, loops[0].ast,
            f"{busy} < {thr}", "new trials can be started although the number of busy workers is not below the threshold: "
            "more than n_workers trials occupy workers")
    # busy is not modified between its definition and the loop
    g = P.method("Tuner", "_process_new_results")
    ok = any(isinstance(n, ast.Assert) and ("le", f"len({[p for p in g.params if p != 'self'][0]})", "self.n_workers") in atoms_of(n.test, True)
             for n in walk_shallow(g.node))
    rep.info("S8", "agreement", "Tuner._process_new_results asserts len(running) <= n_workers", g, None, str(ok))


def s9(ctx, rep):
    P = ctx.P
    for meth in ("_schedule_new_tasks", "_process_new_results"):
        f = P.method("Tuner", meth)
        param = [p for p in f.params if p != "self"][0]
        cfg = cfg_of(f)
        rebinds = [n for n in cfg.nodes if n.kind in ("stmt", "for", "with") and any(
            isinstance(t, ast.Name) and t.id == param for t in _targets(n.ast))]
        # is the parameter mutated (so the caller relies on seeing the mutation)?
        mut = [n for n in cfg.nodes if any(isinstance(x, ast.Call) and isinstance(x.func, ast.Attribute) and U(x.func.value) == param
                                           and x.func.attr in ("add", "update", "remove", "discard", "difference_update", "clear")
                                           for x in cfg.node_walk(n.id))]
        bad = None
        for rb in rebinds:
            after = cfg.reachable([s for s, l in cfg.succ[rb.id]])
            if any(m.id in after for m in mut):
                bad = rb
        rep.put(bad is None, "S9", "no_rebind_inout", f"Tuner.{meth}: in/out parameter `{param}` is never rebound", f,
                bad.ast if bad else None, f"{len(mut)} mutation site(s), {len(rebinds)} rebinding(s)",
                f"`{param}` is rebound (`{U(bad.ast)[:70] if bad else ''}`) and mutated afterwards: trials added after the rebinding go "
                "to a local set the caller never sees - they are never polled again, their results are lost and their workers "
                "are counted as free")


def _targets(st):
    from ..core.facts import _store_targets
    return _store_targets(st)


def s10(ctx, rep, clause="S10"):
    P = ctx.P
    f = P.method("Tuner", "_schedule_new_tasks")
    cfg = cfg_of(f)
    nid, call = ctx.calls_in(f, selfcall="_schedule_new_task")[0]
    param = [p for p in f.params if p != "self"][0]
    add = {n.id for n in cfg.nodes if any(isinstance(x, ast.Call) and fn_name(x) == "add" and isinstance(x.func.value, ast.Name)
                                          for x in cfg.node_walk(n.id))}
    upd = ctx.nodes(f, ctx.sel_call(method="update", recv="TuningStatus"), "must", 0)
    for name, bn in (("running set", add), ("tuning status", upd)):
        succ = [s for s, l in cfg.succ[nid]]
        p = cfg.path(succ, [cfg.exit, cfg.raise_exit, nid], deleted=bn)
        rep.put(bool(bn) and p is None, clause, "must_follow", f"Tuner._schedule_new_tasks: started trial registered in the {name} before the next request",
                f, call, "registration follows each _schedule_new_task() before the call can be reached again or the function left",
                f"a trial returned by _schedule_new_task() is not registered in the {name} before the next _schedule_new_task() "
                "(which may raise StopIteration) or the end of the function: when the search space runs out in the middle of a "
                "batch, trials already started are never tracked, polled or counted", witness=cfg.describe_path([nid] + p) if p else None)


def s11(ctx, rep, clause="S1"):
    """simulated workers: the busy set mirrors the events - a trial becomes busy when its start event is processed and is
    not busy any more once its completion or stop event has been processed; nobody else writes the set"""
    P = ctx.P
    c = P.cls("SimulatorBackend")
    attr = "_busy_trial_ids"
    want = {"_process_start_event": "add", "_process_complete_event": "remove", "_process_stop_event": "remove"}
    n = 0
    for m in c.methods.values():
        cm = cfg_of(m)
        ops = [(nd, x) for nd in cm.nodes for x in cm.node_walk(nd.id) if isinstance(x, ast.Call) and isinstance(x.func, ast.Attribute)
               and U(x.func.value).endswith("." + attr) and x.func.attr in ("add", "remove", "discard", "clear", "update", "pop", "difference_update")]
        stores = [nd for nd in cm.nodes if nd.kind == "stmt" and isinstance(nd.ast, (ast.Assign, ast.AugAssign)) and any(
            U(t).endswith("." + attr) for t in (nd.ast.targets if isinstance(nd.ast, ast.Assign) else [nd.ast.target]))]
        if m.name not in want:
            if ops or (stores and m.name not in ("__init__", "__setstate__")):
                rep.bad(clause, "who_may_write", f"SimulatorBackend.{attr} is changed only by the event handlers", m, (ops[0][1] if ops else stores[0].ast),
                        f"{m.name} changes the set of busy workers outside the processing of a start / completion / stop event")
            continue
        n += 1
        kind = want[m.name]
        pid = m.params[0] if m.params and m.params[0] != "self" else (m.params[1] if len(m.params) > 1 else None)
        good = {nd.id for nd, x in ops if (x.func.attr == kind or (kind == "remove" and x.func.attr == "discard")) and argn(x, 0) is not None
                and U(argn(x, 0)) == "trial_id"}
        wrong = [x for nd, x in ops if nd.id not in good]
        if kind == "add":
            ok = bool(good) and not wrong and cm.path([cm.entry], cm.exit, deleted=good, skip_labels=("exc",)) is None
            why = "a start event can be processed without the trial becoming busy: the worker it occupies is not counted"
        else:
            # every normal path either removes the id or has established that it is not in the set
            def edge_ok(lab):
                if lab and lab[0] == "cond":
                    return not any(at[0] == "in" and at[1] == "trial_id" and at[2].endswith("." + attr) and at[3] is False
                                   for at in atoms_of(lab[1], lab[2]))
                return True
            ok = bool(good) and not wrong and cm.path([cm.entry], cm.exit, deleted=good, skip_labels=("exc",), edge_ok=edge_ok) is None
            why = "a trial can stay in the busy set after its run has ended: its worker is never freed (or a running trial is freed early)"
        rep.put(ok, clause, "must_follow", f"SimulatorBackend.{m.name}: trial_id is {'added to' if kind == 'add' else 'removed from'} {attr} on every path", m,
                wrong[0] if wrong else None, "", why)
    if n != 3:
        raise AnchorError("SimulatorBackend: the three event handlers that maintain the busy set were not all found")
    from . import c02
    c02.event_dispatch(ctx, rep, clause)


def run(ctx, rep, tier="quick"):
    s1(ctx, rep)
    s2(ctx, rep)
    s3(ctx, rep)
    s4(ctx, rep)
    s5(ctx, rep)
    s5b(ctx, rep)
    s5c(ctx, rep)
    s6(ctx, rep)
    s7(ctx, rep)
    s8(ctx, rep)
    s9(ctx, rep)
    s10(ctx, rep)
    s11(ctx, rep)
    from .common import dead_store_clause
    dead_store_clause(ctx, rep, "S3", ["syne_tune/backend/trial_backend.py", "syne_tune/backend/simulator_backend/simulator_backend.py", "syne_tune/backend/simulator_backend/events.py", "syne_tune/tuner.py", "syne_tune/blackbox_repository/simulated_tabular_backend.py"],
                      "the update is applied to a local instead of the stored record (e.g. the status of a trial that ended without a "
                      "report is never written back: it stays 'in progress' for ever and its worker is never freed)")
