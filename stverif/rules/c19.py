"""C19 - multi-objective ranking is Pareto-consistent and MOASHA follows it."""
import ast

from ..core.model import AnchorError, FuncInfo
from ..core.cfg import walk_shallow, cfg_of
from ..core.facts import U, atoms_of
from ..engine import argn, fn_name, kwarg, local_defs, returns_of, stmts_in, deref, vars_assigned_from

EXPLANATION = (
    "Decides structural clauses of C19: S1 the Pareto filter's dominance test is 'weakly better in all objectives and strictly "
    "better in at least one', applied between the same operands, and only rows still undominated are tested and updated; "
    "S2 the non-dominated sort appends exactly the current front of the remaining indices and removes exactly that front each "
    "round; S3 kind typing of index vectors - ORDER (position -> item: argsort, sorted index lists) vs SCORE (item -> value: "
    "ranks, priorities): every MOPriority.priority_unsafe must return SCORE because its consumers index it by item; "
    "S4 MOASHA's decision shape - the new trial's metrics are appended before the priority is computed, its rank is read at "
    "the last position, STOP iff rank > 1/reduction_factor, the trial is recorded on every path, STOP at max_t, per-metric "
    "sign from the mode list. S2 also: the order inside a layer is a permutation of the layer (every position leaves the work set onto the order list and vice versa, until the work set is empty). NOT decided: the epsilon-net geometry inside a Pareto layer, tie behaviour of searchsorted.")

FLOOR = {"S1": 3, "S2": 3, "S3": 4, "S4": 6}

ORDER, SCORE, IDS, VALUES, UNK = "ORDER", "SCORE", "IDS", "VALUES", "?"


# ----------------------------------------------------------------------------- kind typing
class Kinds:
    def __init__(self, ctx):
        self.ctx = ctx
        self._fn = {}

    def of_function(self, f: FuncInfo):
        if f in self._fn:
            return self._fn[f]
        self._fn[f] = UNK
        ks = {self.of_expr(f, r.value) for r in returns_of(f) if r.value is not None}
        ks.discard(None)
        k = ks.pop() if len(ks) == 1 else UNK
        self._fn[f] = k
        return k

    def _inversion_targets(self, f):
        """names r filled by  `for k, i in enumerate(order): r[i] = k`  -> SCORE"""
        out = set()
        for st in walk_shallow(f.node):
            if isinstance(st, ast.For) and isinstance(st.iter, ast.Call) and fn_name(st.iter) == "enumerate" \
                    and isinstance(st.target, ast.Tuple) and len(st.target.elts) == 2:
                pos, item = U(st.target.elts[0]), U(st.target.elts[1])
                for s in st.body:
                    if isinstance(s, ast.Assign) and isinstance(s.targets[0], ast.Subscript) and U(s.targets[0].slice) == item \
                            and U(s.value) == pos:
                        out.add(U(s.targets[0].value))
            # r[order] = np.arange(len(order))
            if isinstance(st, ast.Assign) and isinstance(st.targets[0], ast.Subscript) and isinstance(st.value, ast.Call) \
                    and fn_name(st.value) == "arange":
                idx = st.targets[0].slice
                a0 = argn(st.value, 0)
                # the same inversion as the loop above, written as a scatter: r[order] = arange(len(order))
                if self.of_expr(f, idx) == ORDER or (isinstance(a0, ast.Call) and fn_name(a0) == "len" and a0.args and U(a0.args[0]) == U(idx)
                                                      and len(st.value.args) == 1):
                    out.add(U(st.targets[0].value))
        return out

    def of_expr(self, f, e, depth=0):
        if e is None or depth > 8:
            return UNK
        if isinstance(e, ast.Name):
            if e.id in self._inversion_targets_cached(f):
                return SCORE
            p = f.param_node(e.id)
            if p is not None:
                ann = U(p.annotation) if p.annotation is not None else ""
                return VALUES if "array" in ann or "ndarray" in ann else UNK
            ks = set()
            for d in local_defs(f, e.id):
                if isinstance(d, tuple):
                    continue
                ks.add(self.of_expr(f, d, depth + 1))
            # a loop variable over a list of index lists is an index list of the same kind (the statement form of the
            # flattening comprehension below)
            for x in walk_shallow(f.node):
                if isinstance(x, ast.For) and isinstance(x.target, ast.Name) and x.target.id == e.id:
                    ks.add(self.of_expr(f, x.iter, depth + 1))
            # lists grown by append / extend
            for x in walk_shallow(f.node):
                if isinstance(x, ast.Call) and fn_name(x) in ("append", "extend") and U(x.func.value) == e.id and x.args:
                    ks.add(self.of_expr(f, argn(x, 0), depth + 1))
            ks.discard(UNK)
            ks.discard("EMPTY")
            return ks.pop() if len(ks) == 1 else UNK
        if isinstance(e, (ast.List, ast.Tuple)) and not e.elts:
            return "EMPTY"
        if isinstance(e, ast.ListComp) and len(e.generators) == 1 and isinstance(e.generators[0].iter, ast.Call) and fn_name(e.generators[0].iter) == "range" \
                and isinstance(e.generators[0].target, ast.Name):
            # [pos_of.get(i, default) for i in range(n)]  with  pos_of = {item: pos for pos, item in enumerate(order)} : the inversion
            # of an order written with a dictionary -> SCORE
            iv = e.generators[0].target.id
            m_ = None
            if isinstance(e.elt, ast.Call) and fn_name(e.elt) == "get" and e.elt.args and U(e.elt.args[0]) == iv and isinstance(e.elt.func.value, ast.Name):
                m_ = e.elt.func.value.id
            elif isinstance(e.elt, ast.Subscript) and U(e.elt.slice) == iv and isinstance(e.elt.value, ast.Name):
                m_ = e.elt.value.id
            if m_ is not None:
                ds_ = [d for d in local_defs(f, m_) if not isinstance(d, tuple)]
                if len(ds_) == 1 and isinstance(ds_[0], ast.DictComp) and len(ds_[0].generators) == 1:
                    g_ = ds_[0].generators[0]
                    if isinstance(g_.iter, ast.Call) and fn_name(g_.iter) == "enumerate" and isinstance(g_.target, ast.Tuple) and len(g_.target.elts) == 2 \
                            and U(ds_[0].key) == U(g_.target.elts[1]) and U(ds_[0].value) == U(g_.target.elts[0]):
                        return SCORE
        if isinstance(e, ast.ListComp):
            # flattening [i for ix in indices for i in ix] keeps the kind of the outer iterable
            if len(e.generators) == 2 and isinstance(e.elt, ast.Name):
                return self.of_expr(f, e.generators[0].iter, depth + 1)
            return UNK
        if isinstance(e, ast.Call):
            n = fn_name(e)
            if n in ("array", "asarray", "list", "tolist", "copy", "flatten", "ravel", "astype"):
                arg = argn(e, 0) if e.args else (e.func.value if isinstance(e.func, ast.Attribute) else None)
                if n in ("tolist", "copy", "flatten", "ravel", "astype") and isinstance(e.func, ast.Attribute):
                    arg = e.func.value
                return self.of_expr(f, arg, depth + 1)
            if n == "argsort":
                arg = argn(e, 0) if e.args else (e.func.value if isinstance(e.func, ast.Attribute) else None)
                k = self.of_expr(f, arg, depth + 1)
                return ORDER if k in (SCORE, VALUES) else (SCORE if k == ORDER else UNK)
            if n == "arange":
                return IDS
            if n in ("mean", "sum", "min", "max", "dot", "matmul") and isinstance(e.func, ast.Attribute):
                k = self.of_expr(f, e.func.value, depth + 1)
                return SCORE if k == VALUES else UNK
            if n in ("empty", "zeros", "full", "ones"):
                return "EMPTY"
            tg = [t for t, h in self.ctx.R.resolve_call(f, e) if isinstance(t, FuncInfo) and h == "type"]
            if len(tg) == 1:
                return self.of_function(tg[0])
            return UNK
        if isinstance(e, ast.Subscript):
            b = self.of_expr(f, e.value, depth + 1)
            if b == VALUES:
                # objectives[:, k]  -> per-item score ; X[ids] -> values
                if isinstance(e.slice, ast.Tuple) and len(e.slice.elts) == 2 and isinstance(e.slice.elts[0], ast.Slice):
                    return SCORE
                return VALUES
            if b == IDS:
                # ids[mask] stays an id vector; ids[order/score] is a list of ids in some order
                k = self.of_expr(f, e.slice, depth + 1)
                if k in (ORDER, SCORE):
                    return ORDER
                return IDS
            if b == ORDER:
                return ORDER
            return UNK
        if isinstance(e, ast.BinOp):
            a, b = self.of_expr(f, e.left, depth + 1), self.of_expr(f, e.right, depth + 1)
            if VALUES in (a, b):
                return VALUES
            if SCORE in (a, b):
                return SCORE
            return UNK
        if isinstance(e, ast.UnaryOp):
            return self.of_expr(f, e.operand, depth + 1)
        return UNK

    def _inversion_targets_cached(self, f):
        key = ("inv", f)
        if key not in self._fn:
            self._fn[key] = set()
            self._fn[key] = self._inversion_targets(f)
        return self._fn[key]


# ----------------------------------------------------------------------------- rules
def s1(ctx, rep):
    P = ctx.P
    f = P.func("syne_tune.optimizer.schedulers.multiobjective.non_dominated_priority.pareto_efficient")
    dom = None
    from ..engine import deref
    for bo in walk_shallow(f.node):
        if isinstance(bo, ast.BinOp) and isinstance(bo.op, (ast.Mult, ast.BitAnd)):
            l, r = bo.left, bo.right
            if isinstance(l, ast.Call) and isinstance(r, ast.Call) and {fn_name(l), fn_name(r)} == {"all", "any"}:
                st = bo
                while not isinstance(st, ast.stmt):
                    st = st._parent
                dom = (st, l if fn_name(l) == "all" else r, r if fn_name(r) == "any" else l, bo)
    if dom is None:
        # weak part present, strict part is not an `any(a < rows)`: recognisably not the definition of dominance
        for bo in walk_shallow(f.node):
            if isinstance(bo, ast.BinOp) and isinstance(bo.op, (ast.Mult, ast.BitAnd)):
                sides = [deref(f, bo.left), deref(f, bo.right)]
                if any(isinstance(x_, ast.Call) and fn_name(x_) == "all" for x_ in sides):
                    rep.bad("S1", "agreement", "pareto_efficient: dominated = ALL(a <= rows) and ANY(a < rows) on the same operands", f, bo,
                            f"`{U(bo)[:120]}`: the strict part of dominance is not `any(a < rows)` over the same operands (a surrogate such as a "
                            "comparison of row sums is not equivalent in floating point or with infinite objectives): dominated points stay on the front")
                    return
        raise AnchorError("pareto_efficient: `dominated = all(a <= X) * any(a < X)` not recognised")
    st, al, an, bo = dom
    ca, cn = argn(al, 0), argn(an, 0)
    ok = isinstance(ca, ast.Compare) and isinstance(cn, ast.Compare) and len(ca.ops) == 1 and len(cn.ops) == 1

    def norm(c):
        # (op, left, right) with > / >= swapped
        op, a, b = type(c.ops[0]), U(c.left), U(c.comparators[0])
        if op is ast.Gt:
            return ("lt", b, a)
        if op is ast.GtE:
            return ("le", b, a)
        return ({ast.Lt: "lt", ast.LtE: "le"}.get(op, "?"), a, b)
    if ok:
        na, nn = norm(ca), norm(cn)
        ok = na[0] == "le" and nn[0] == "lt" and na[1:] == nn[1:]
        ax = [U(kwarg(c, "axis", 1)) if kwarg(c, "axis", 1) is not None else None for c in (al, an)]
        ok = ok and ax[0] == ax[1] and ax[0] in ("1", "-1")
    rep.put(ok, "S1", "agreement", "pareto_efficient: dominated = ALL(a <= rows) and ANY(a < rows) on the same operands", f, st,
            U(bo)[:100], f"`{U(bo)[:120]}` is not weak-all-and-strict-any dominance between the same operands: points are "
            "marked (un)dominated wrongly")
    # only currently undominated rows are tested and updated
    upd = [s for s in walk_shallow(f.node) if isinstance(s, ast.Assign) and isinstance(s.targets[0], ast.Subscript)
           and isinstance(s.value, ast.UnaryOp) and isinstance(s.value.op, ast.Invert) and deref(f, s.value.operand) is bo]
    ok = len(upd) == 1 and U(upd[0].targets[0].value) == U(upd[0].targets[0].slice)
    mask = U(upd[0].targets[0].value) if upd else "?"
    ok = ok and f"[{mask}]" in U(ca.comparators[0]) + U(ca.left)
    rep.put(ok, "S1", "agreement", "pareto_efficient: mask[mask] = ~dominated over the rows selected by the same mask", f,
            upd[0] if upd else None, "")
    cfg = cfg_of(f)
    nid = [n.id for n in cfg.nodes if n.stmt is st][0]
    ok = ctx.has_fact(f, nid, lambda a: a[0] == "truth" and a[1].startswith(mask + "[") and a[2] is True)
    rep.put(ok, "S1", "guarded_by", "pareto_efficient: a row already dominated is not used as dominator", f, st, "")
    r = returns_of(f)
    rep.put(len(r) == 1 and U(r[0].value) == mask, "S1", "agreement", "pareto_efficient returns the mask", f, None, "")


def s2(ctx, rep):
    P = ctx.P
    f = P.func("syne_tune.optimizer.schedulers.multiobjective.non_dominated_priority.nondominated_sort")
    loops = [s for s in walk_shallow(f.node) if isinstance(s, ast.While)]
    if len(loops) != 1:
        raise AnchorError("nondominated_sort: layer loop not found")
    body = loops[0].body
    d = {}
    for s in body:
        if isinstance(s, ast.Assign) and isinstance(s.targets[0], ast.Name):
            d[s.targets[0].id] = s.value
    maskv = [k for k, v in d.items() if isinstance(v, ast.Call) and fn_name(v) == "pareto_efficient"]
    if len(maskv) != 1:
        inline = [x for s in body for x in walk_shallow(s) if isinstance(x, ast.Call) and fn_name(x) == "pareto_efficient"]
        if len(inline) == 1 and not maskv:
            # the mask is computed but used once only (it has no name of its own any more): it selects the front, nothing removes the
            # front from the remaining rows with it
            rep.bad("S2", "agreement", "nondominated_sort: front computed on the remaining rows; remaining = remaining[~mask]", f, inline[0],
                    "the Pareto mask is used to select the front only: the remaining set is not reduced by exactly the current front "
                    "(items are ranked twice, or never)")
            return
        raise AnchorError("nondominated_sort: pareto mask not found")
    mv = maskv[0]
    rem = None
    for k, v in d.items():
        if isinstance(v, ast.Subscript) and isinstance(v.slice, ast.UnaryOp) and isinstance(v.slice.op, ast.Invert) \
                and U(v.slice.operand) == mv and U(v.value) == k:
            rem = k
    ok = rem is not None and U(argn(d[mv], 0)).endswith(f"[{rem}]")
    rep.put(ok, "S2", "agreement", "nondominated_sort: front computed on the remaining rows; remaining = remaining[~mask]", f, loops[0],
            f"mask = pareto_efficient(X[{rem}])", "the remaining set is not reduced by exactly the current front")
    front = [k for k, v in d.items() if isinstance(v, ast.Subscript) and rem is not None and U(v.value) == rem and U(v.slice) == mv]
    if not front:
        front = [k for k, v in d.items() if isinstance(v, ast.Subscript) and U(v.slice) == mv] or ["?"]
    ok = len(front) == 1 and rem is not None
    app = [x for s in body for x in walk_shallow(s) if isinstance(x, ast.Call) and fn_name(x) == "append"]
    a0 = deref(f, argn(app[0], 0)) if len(app) == 1 else None
    ok = ok and a0 is not None and U(a0).startswith(front[0] + "[")
    rep.put(ok, "S2", "agreement", "nondominated_sort: each round appends exactly the current front (permuted)", f, app[0] if app else None, "")
    # the permutation inside the front is a permutation of the front (index by epsilon-net ranks of the same front)
    ok = False
    if app:
        idx = deref(f, argn(app[0], 0))
        while isinstance(idx, ast.Call):
            idx = deref(f, idx.func.value)
        if isinstance(idx, ast.Subscript):
            src = deref(f, idx.slice)
            ok = isinstance(src, ast.Call) and fn_name(src) == "compute_epsilon_net" and f"[{front[0]}]" in U(argn(src, 0))
    rep.put(ok, "S2", "agreement", "nondominated_sort: within-layer order is a permutation computed on that layer", f, None, "")
    # the loop runs while rows remain
    from ..kinds import parity as _par
    ok = rem is not None and any(f"{rem}.size > 0" in t_ or f"len({rem})" in t_ for t_ in _par.both_texts(loops[0].test))
    rep.put(ok, "S2", "agreement", "nondominated_sort: loops until no row remains (or max_items)", f, loops[0], U(loops[0].test))


def s3(ctx, rep):
    P = ctx.P
    K = Kinds(ctx)
    base = P.cls("MOPriority")
    doc = ast.get_docstring(base.methods["__call__"].node) or ""
    if "priority for the different elements" not in doc:
        raise AnchorError("MOPriority.__call__ docstring no longer promises a per-element priority vector")
    n = 0
    for c in P.all_subclasses(base):
        m = c.methods.get("priority_unsafe")
        if m is None:
            continue
        k = K.of_function(m)
        n += 1
        if k == UNK:
            raise AnchorError(f"{c.name}.priority_unsafe: kind of the returned vector cannot be determined "
                              f"(`{U(returns_of(m)[0].value)[:80]}`)")
        rep.put(k == SCORE, "S3", "kind", f"{c.name}.priority_unsafe returns SCORE (item → priority)", m, returns_of(m)[0],
                f"kind {k}", f"returns kind {k} (position → item, e.g. sorted indices) where a per-item priority is promised; "
                "consumers index it by item (MOASHA: ranks[-1] is 'the new trial's rank'): a trial is judged by some other "
                "trial's position")
    # summaries the typing relies on
    f1 = P.func("syne_tune.optimizer.schedulers.multiobjective.non_dominated_priority.compute_epsilon_net")
    f2 = P.func("syne_tune.optimizer.schedulers.multiobjective.non_dominated_priority.nondominated_sort")
    rep.put(K.of_function(f1) == SCORE, "S3", "kind", "compute_epsilon_net returns SCORE (ranks by inversion loop)", f1, None, K.of_function(f1))
    rep.put(K.of_function(f2) == ORDER, "S3", "kind", "nondominated_sort returns ORDER (indices of the sorted items)", f2, None, K.of_function(f2))
    # consumer: searchsorted(sorted(p), p)[-1]
    b = P.func("syne_tune.optimizer.schedulers.multiobjective.moasha._Bracket.on_result")
    ok = False
    for x in walk_shallow(b.node):
        if isinstance(x, ast.Call) and fn_name(x) == "searchsorted" and len(x.args) == 2 and isinstance(argn(x, 0), ast.Call) \
                and fn_name(argn(x, 0)) == "sorted" and U(argn(x.args[0], 0)) == U(argn(x, 1)):
            pv = U(argn(x, 1))
            ds = [d for d in local_defs(b, pv) if not isinstance(d, tuple)]
            ok = len(ds) == 1 and isinstance(ds[0], ast.Call) and "priority" in U(ds[0].func)
    rep.put(ok, "S3", "kind", "_Bracket.on_result ranks the priority vector by searchsorted(sorted(p), p)", b, None,
            "consumer requires SCORE")
    return n


def s4(ctx, rep):
    P = ctx.P
    b = P.func("syne_tune.optimizer.schedulers.multiobjective.moasha._Bracket.on_result")
    cfg = cfg_of(b)
    # the matrix passed to the priority ends with the new trial's metrics
    call = [x for x in walk_shallow(b.node) if isinstance(x, ast.Call) and "priority" in U(x.func) and x.args]
    if len(call) != 1:
        raise AnchorError("_Bracket.on_result: priority call not found")
    from ..engine import vars_assigned_from
    lp = [s for s in walk_shallow(b.node) if isinstance(s, ast.For) and U(s.iter) == "self._rungs" and isinstance(s.target, ast.Tuple)
          and len(s.target.elts) == 2]
    if len(lp) != 1:
        raise AnchorError("_Bracket.on_result: loop over (milestone, recorded) in self._rungs not found")
    recv = U(lp[0].target.elts[1])
    def is_rank_vec(v):
        v = deref(b, v)
        return isinstance(v, ast.BinOp) and isinstance(v.op, ast.Div) and isinstance(v.left, ast.Call) and fn_name(v.left) == "searchsorted"
    from ..engine import deref
    rkv = vars_assigned_from(b, is_rank_vec)
    lastv = vars_assigned_from(b, lambda v: isinstance(v, ast.Subscript) and U(v.slice) == "-1" and is_rank_vec(v.value))
    mv = argn(call[0], 0)
    src = [d for d in local_defs(b, mv.id) if not isinstance(d, tuple)][0] if isinstance(mv, ast.Name) else mv
    ok = False
    for x in ast.walk(src):
        if isinstance(x, ast.BinOp) and isinstance(x.op, ast.Add) and isinstance(x.right, ast.List) and "metrics" in U(x.right) \
                and any(isinstance(y, ast.Name) and y.id == recv for y in ast.walk(x.left)):
            ok = True
    rep.put(ok, "S4", "must_precede", "_Bracket.on_result: new metrics appended last before the priority is computed", b, src,
            "recorded rows + [new row]", "the priority is computed without the new trial's own metrics as the last row")
    # rank of the new trial is read at position -1
    rk = [x for x in walk_shallow(b.node) if isinstance(x, ast.Subscript) and U(x.slice) == "-1" and is_rank_vec(x.value)]
    rep.put(len(rk) == 1, "S4", "agreement", "_Bracket.on_result: the new trial's rank is the last entry", b, rk[0] if rk else None, "")
    # STOP iff rank > 1/rf
    stops = [n for n in cfg.nodes if n.kind == "stmt" and isinstance(n.ast, ast.Assign) and U(n.ast.value).endswith("SchedulerDecision.STOP")]
    ok = len(stops) == 1
    if ok:
        at = ctx.facts(b).at(stops[0].id)
        from .common import value_pred
        is_last = value_pred(b, lambda v: isinstance(v, ast.Subscript) and U(v.slice) == "-1" and is_rank_vec(v.value))
        ok = any(a[0] == "lt" and a[1].replace(" ", "") in ("1/self.rf", "1.0/self.rf") and (a[2] in lastv or is_last(a[2])) for a in at)
    rep.put(ok, "S4", "guarded_by", "_Bracket.on_result: STOP iff rank > 1 / reduction_factor", b, stops[0].ast if stops else None, "",
            "the STOP decision is not taken exactly when the rank fraction exceeds 1/reduction_factor")
    # normalisation of the rank: searchsorted / len
    nr = [x for x in walk_shallow(b.node) if isinstance(x, ast.BinOp) and isinstance(x.op, ast.Div) and isinstance(x.left, ast.Call)
          and fn_name(x.left) == "searchsorted" and isinstance(x.right, ast.Call) and fn_name(x.right) == "len"]
    rep.put(len(nr) == 1, "S4", "agreement", "_Bracket.on_result: rank fraction = position / number recorded incl. itself", b, nr[0] if nr else None, "")
    # recorded[trial_id] = metrics follows on every path that reaches a rung
    rec = {n.id for n in cfg.nodes if n.kind == "stmt" and isinstance(n.ast, ast.Assign) and isinstance(n.ast.targets[0], ast.Subscript)
           and U(n.ast.targets[0].value) == recv and U(n.ast.targets[0].slice) == "trial_id"}
    pr = [n.id for n in cfg.nodes if any(x is call[0] for x in cfg.node_walk(n.id))]
    p = cfg.path([s for s, l in cfg.succ[pr[0]]], cfg.exit, deleted=rec, skip_labels=("exc",)) if pr else None
    rep.put(bool(rec) and p is None, "S4", "must_follow", "_Bracket.on_result: the trial is recorded at the rung on every path", b, None, "")
    # each trial enters a rung once
    from .common import dom_guard
    ok = bool(rec) and all(any(a[0] == "in" and a[1] == "trial_id" and a[2] == recv and a[3] is False for a in dom_guard(ctx, b, r_)) for r_ in rec)
    rep.put(ok, "S4", "guarded_by", "_Bracket.on_result: a trial already recorded at a rung is skipped", b, None, "")
    # guard table of the rung walk (found thin by the generic mutation audit)
    from .common import require_guard
    recn = sorted(rec)
    require_guard(ctx, rep, "S4", b, "_Bracket.on_result: the trial is recorded at a rung | the rung's level is reached and the trial is not recorded there yet", recn,
                  [("not cur_iter < milestone", lambda a: a[0] == "le" and a[2] == "cur_iter"),
                   (f"trial_id not in {recv}", lambda a: a[0] == "in" and a[1] == "trial_id" and a[2] == recv and a[3] is False)],
                  "a trial is entered at rungs it has not reached, or entered twice")
    prn = [n.id for n in cfg.nodes if any(x is call[0] for x in cfg.node_walk(n.id))]
    require_guard(ctx, rep, "S4", b, "_Bracket.on_result: the priority is computed | the rung already has entries", prn,
                  [(f"{recv} is not empty", lambda a: a[0] == "truth" and a[1] == recv and a[2] is True)],
                  "the first trial at a rung is ranked against nothing (or later ones are never ranked)")
    # the scan takes the first rung whose level has been reached and leaves the loop: it lands on the HIGHEST rung reached only
    # if the rungs are stored highest level first
    binit = [g_ for g_ in P.functions.values() if g_.qualname.endswith("moasha._Bracket.__init__")]
    if len(binit) != 1:
        raise AnchorError("moasha._Bracket.__init__ not found")
    binit = binit[0]
    w = [x for x in walk_shallow(binit.node) if isinstance(x, ast.Assign) and U(x.targets[0]) == "self._rungs"]
    order = None
    if len(w) == 1:
        v = deref(binit, w[0].value)
        if isinstance(v, ast.ListComp) and len(v.generators) == 1:
            it = deref(binit, v.generators[0].iter)
            first = v.elt.elts[0] if isinstance(v.elt, ast.Tuple) and v.elt.elts else v.elt
            src_order = None
            if isinstance(it, ast.Call) and fn_name(it) == "reversed" and it.args and isinstance(deref(binit, argn(it, 0)), ast.Call) \
                    and fn_name(deref(binit, argn(it, 0))) == "range":
                src_order = "desc"
            elif isinstance(it, ast.Call) and fn_name(it) == "range":
                src_order = "desc" if len(it.args) == 3 and U(argn(it, 2)).startswith("-") else "asc"
            elif isinstance(it, ast.ListComp) and len(it.generators) == 1:
                # a list of milestones built first, then paired with {}
                it2 = deref(binit, it.generators[0].iter)
                first = it.elt if U(first) == U(v.generators[0].target) else first
                if isinstance(it2, ast.Call) and fn_name(it2) == "range":
                    src_order = "desc" if len(it2.args) == 3 and U(argn(it2, 2)).startswith("-") else "asc"
                elif isinstance(it2, ast.Call) and fn_name(it2) == "reversed":
                    src_order = "desc"
            # the level grows with the loop variable: min_t * rf ** (k + s)
            grows = any(isinstance(y, ast.BinOp) and isinstance(y.op, ast.Pow) for y in ast.walk(first))
            if src_order and grows:
                order = src_order
    scan = [s_ for s_ in walk_shallow(b.node) if isinstance(s_, ast.For) and "self._rungs" in U(s_.iter)]
    if order is None or len(scan) != 1:
        raise AnchorError("_Bracket: cannot determine the order in which rung levels are stored / scanned")
    scan_rev = isinstance(scan[0].iter, ast.Call) and fn_name(scan[0].iter) == "reversed"
    eff = order if not scan_rev else {"asc": "desc", "desc": "asc"}[order]
    brk = any(isinstance(y, ast.Break) for s_ in scan[0].body for y in ast.walk(s_))
    rep.put(eff == "desc" and brk, "S4", "agreement", "_Bracket: rungs are scanned from the highest level down and the scan stops at the first rung reached", binit,
            w[0], f"stored {order}, scanned {'reversed' if scan_rev else 'as stored'}, break after recording",
            f"rung levels are stored in {order}ending order and scanned {'reversed' if scan_rev else 'as stored'}: the first rung with level <= "
            "resource is the LOWEST one not yet visited - a trial whose reports skip a level is ranked and recorded at the wrong rung")
    # STOP at max_t
    f = P.method("MOASHA", "on_trial_result")
    cf = cfg_of(f)
    st = [n for n in cf.nodes if n.kind == "stmt" and isinstance(n.ast, ast.Assign) and U(n.ast.value).endswith("SchedulerDecision.STOP")]
    ok = bool(st) and any(a[0] == "le" and a[1] == "self._max_t" and "_time_attr" in a[2] for a in ctx.facts(f).at(st[0].id))
    rep.put(ok, "S4", "guarded_by", "MOASHA.on_trial_result: STOP when time_attr >= max_t", f, st[0].ast if st else None, "")
    # sign per metric from the mode list
    init = P.method("MOASHA", "__init__")
    dc = [x for x in walk_shallow(init.node) if isinstance(x, ast.DictComp) and isinstance(x.value, ast.IfExp)]
    ok = len(dc) == 1
    if ok:
        ie = dc[0].value
        from ..kinds import parity
        ok = parity.is_sign(ie) == 1       # +1 under 'min', -1 under 'max', however the test is written
        g = dc[0].generators[0]
        ok = ok and isinstance(g.iter, ast.Call) and fn_name(g.iter) == "zip" and len(g.iter.args) == 2
    rep.put(ok, "S4", "agreement", "MOASHA.__init__: per-metric sign +1 for min, -1 for max, zipped with the metric names", init,
            dc[0] if dc else None, "")
    md = P.method("MOASHA", "_metric_dict")
    dcs = [x for x in walk_shallow(md.node) if isinstance(x, ast.DictComp)]
    ok = len(dcs) == 1 and len(dcs[0].generators) == 1 and not dcs[0].generators[0].ifs
    why = "signed metrics are not built by one comprehension over self._metrics"
    if ok:
        g = dcs[0].generators[0]
        lv = U(g.target)
        ok = U(g.iter) == "self._metrics" and U(dcs[0].key) == lv
        v = dcs[0].value
        if ok:
            ok = isinstance(v, ast.BinOp) and isinstance(v.op, ast.Mult) and \
                {U(v.left), U(v.right)} == {f"{md.params[1]}[{lv}]", f"self._metric_op[{lv}]"}
        why = (f"the objective vector is built by iterating `{U(g.iter)}` (key `{U(dcs[0].key)}`, value `{U(v)}`): _Bracket.on_result turns "
               "the recorded dicts into rows positionally, so the columns must follow the fixed order of self._metrics and each "
               "be multiplied by its own sign; otherwise columns of different trials are compared with each other")
    rep.put(ok, "S4", "agreement", "MOASHA._metric_dict: columns in the fixed order of self._metrics, each times its own sign", md,
            dcs[0] if dcs else None, "", why)
    # the consumer is positional
    ok = any(isinstance(x, ast.Call) and fn_name(x) == "list" and x.args and isinstance(argn(x, 0), ast.Call) and fn_name(argn(x, 0)) == "values"
             for x in walk_shallow(b.node))
    rep.info("S4", "agreement", "_Bracket.on_result reads recorded dicts positionally (list(x.values()))", b, None, str(ok))


def s2b(ctx, rep):
    """the order inside a Pareto layer is a permutation of the layer: the work set starts as all positions, every position taken
    out of it is put on the order list (the seed included) on the same paths, and the loop runs until the work set is empty"""
    P = ctx.P
    f = P.func("syne_tune.optimizer.schedulers.multiobjective.non_dominated_priority.compute_epsilon_net")
    cfg = cfg_of(f)
    def is_all_positions(e):
        if not (isinstance(e, ast.Call) and fn_name(e) == "set" and argn(e, 0) is not None):
            return False
        a0 = deref(f, argn(e, 0))
        return isinstance(a0, ast.Call) and fn_name(a0) == "range"
    work = vars_assigned_from(f, is_all_positions)
    if len(work) != 1:
        raise AnchorError("compute_epsilon_net: work set `set(range(n))` not found")
    w = work[0]
    rem = [(n.id, x) for n in cfg.nodes for x in cfg.node_walk(n.id) if isinstance(x, ast.Call) and fn_name(x) in ("remove", "discard", "pop")
           and U(x.func.value) == w]
    if len(rem) < 1:
        raise AnchorError("compute_epsilon_net: removals from the work set not found")
    whiles = [x for x in walk_shallow(f.node) if isinstance(x, ast.While)]
    heads = {n.id for n in cfg.nodes if n.kind in ("test", "for") and any(n.ast is x.test for x in whiles)} | {n.id for n in cfg.nodes if n.kind == "for"}
    # the order list: appended to / initialised with the removed values
    ok = True
    why = ""
    for nid, x in rem:
        v = U(argn(x, 0)) if argn(x, 0) is not None else None
        puts = {n.id for n in cfg.nodes if n.kind == "stmt" and (
            any(isinstance(y, ast.Call) and fn_name(y) == "append" and argn(y, 0) is not None and U(argn(y, 0)) == v for y in cfg.node_walk(n.id)) or
            (isinstance(n.ast, ast.Assign) and isinstance(n.ast.value, ast.List) and len(n.ast.value.elts) == 1 and U(n.ast.value.elts[0]) == v))}
        if v is None or not puts or not (cfg.path([cfg.entry], nid, deleted=puts, skip_labels=("exc",)) is None or
                                         cfg.path([nid], cfg.exit, deleted=puts | heads, skip_labels=("exc",)) is None):
            ok = False
            why = f"`{U(x)}` takes a position out of the work set that is not put on the order list on the same path"
    # ... and conversely: whatever is put on the order list (the seed it is initialised with, every later choice) leaves the work set
    ordv = {U(n.ast.targets[0]) for n in cfg.nodes if n.kind == "stmt" and isinstance(n.ast, ast.Assign) and isinstance(n.ast.value, ast.List)
            and len(n.ast.value.elts) == 1 and isinstance(n.ast.targets[0], ast.Name)}
    for n in cfg.nodes:
        vs = []
        if n.kind == "stmt" and isinstance(n.ast, ast.Assign) and isinstance(n.ast.value, ast.List) and len(n.ast.value.elts) == 1 and U(n.ast.targets[0]) in ordv:
            vs.append(U(n.ast.value.elts[0]))
        vs += [U(argn(y, 0)) for y in cfg.node_walk(n.id) if isinstance(y, ast.Call) and fn_name(y) == "append" and U(y.func.value) in ordv and argn(y, 0) is not None]
        for v in vs:
            outs = {nid for nid, x in rem if argn(x, 0) is not None and U(argn(x, 0)) == v}
            if not outs or not (cfg.path([cfg.entry], n.id, deleted=outs, skip_labels=("exc",)) is None or
                                cfg.path([n.id], cfg.exit, deleted=outs | heads, skip_labels=("exc",)) is None):
                ok = False
                why = f"`{v}` is put on the order list but stays in the work set: it is chosen again, the order holds it twice"
    loops = [x for x in whiles if any(a[0] == "truth" and a[1] == w and a[2] is True for a in atoms_of(x.test, True))
             or any(a[0] in ("lt", "le") and f"len({w})" in a[1:3] for a in atoms_of(x.test, True))]
    # ... or a counted loop with one round per position that is left: the work set is set(range(n)), one position is taken out before
    # the loop, and the loop runs range(n - 1) rounds each of which takes one out (checked above)
    if not loops:
        wdef = [d for d in local_defs(f, w) if not isinstance(d, tuple)]
        n_txt = U(deref(f, argn(deref(f, argn(wdef[0], 0)), 0))).replace(" ", "") if len(wdef) == 1 else None
        before = [nid for nid, x in rem if not any(l.kind == "for" and cfg.nodes[nid].stmt in list(stmts_in(l.ast.body)) for l in cfg.nodes)]
        for lp in [x for x in walk_shallow(f.node) if isinstance(x, ast.For)]:
            it = lp.iter
            inside_rem = [nid for nid, x in rem if cfg.nodes[nid].stmt in list(stmts_in(lp.body))]
            if isinstance(it, ast.Call) and fn_name(it) == "range" and len(it.args) == 1 and n_txt is not None \
                    and U(deref(f, it.args[0])).replace(" ", "") == f"{n_txt}-1" and len(before) == 1 and len(inside_rem) == 1 \
                    and not any(isinstance(y, (ast.Break, ast.Continue)) for s_ in lp.body for y in ast.walk(s_)):
                loops = [lp]
    ok = ok and len(loops) == 1
    rep.put(ok, "S2", "paired", "compute_epsilon_net: every position leaves the work set onto the order list, until the work set is empty", f,
            None, f"{len(rem)} removal(s)", why or "the loop does not run until the work set is empty: positions are missing from the order "
            "(their ranks are uninitialised memory: indices repeat or fall outside the layer)")


def s4c(ctx, rep):
    """'among all trials recorded at that rung': what a rung has recorded is only ever added to - no method of the scheduler or its
    brackets removes an entry from a rung's record (a stopped or removed trial stays part of the population later arrivals are
    ranked against)"""
    from ..engine import flows_into
    P = ctx.P
    mod = [f for f in P.functions.values() if f.module.relpath.endswith("multiobjective/moasha.py")]
    bad = []
    n = 0
    for f in sorted(mod, key=lambda f_: f_.qualname):
        def from_rungs(e):
            return bool(flows_into(f, e, lambda y: isinstance(y, ast.Attribute) and y.attr == "_rungs"))
        for x in walk_shallow(f.node):
            if isinstance(x, ast.Call) and isinstance(x.func, ast.Attribute) and x.func.attr in ("pop", "popitem", "clear", "remove", "discard", "__delitem__") \
                    and from_rungs(x.func.value):
                bad.append((f, x))
            if isinstance(x, ast.Delete) and any(isinstance(t, ast.Subscript) and from_rungs(t.value) for t in x.targets):
                bad.append((f, x))
            if isinstance(x, ast.Attribute) and x.attr == "_rungs":
                n += 1
    rep.put(not bad, "S4", "who_may_write", "MOASHA: entries recorded at a rung are never removed", bad[0][0] if bad else P.cls("MOASHA"), bad[0][1] if bad else None,
            f"{n} uses of the rung records", f"`{U(bad[0][1])[:60] if bad else ''}` removes an entry from a rung's record: a trial reaching that rung later is "
            "ranked among the survivors only, not among all trials recorded there - it is stopped although it is within the best 1/reduction_factor")
    if n < 3:
        raise AnchorError("moasha.py: rung records (`_rungs`) not found")


def run(ctx, rep, tier="quick"):
    s1(ctx, rep)
    s2(ctx, rep)
    s2b(ctx, rep)
    s3(ctx, rep)
    s4(ctx, rep)
    s4c(ctx, rep)
