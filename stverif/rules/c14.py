"""C14 - multi-fidelity surrogate data: each observation once, only live pending entries."""
import ast

from ..core.model import AnchorError
from ..core.cfg import walk_shallow, cfg_of
from ..core.facts import U, atom_expr
from ..engine import argn, fn_name, kwarg, local_defs, dict_items, returns_of, stmts_in, contains_call
from . import common

EXPLANATION = (
    "Decides structural clauses of C14 on every path of the code that maintains the surrogate's data set: "
    "S1 keep-filter polarity of every predicate passed to the pending-evaluation filter from a 'remove the entries of "
    "this trial' method; S2 observing a level drops its pending entry before the label is stored, and register_pending "
    "appends only if not pending and not labelled; S3 re-reported levels (ignore_data) reach neither the searcher "
    "update nor searcher.on_trial_result; S4 no double update at the same resource; S5 data-policy guards "
    "('rungs': rung level or max_t; 'rungs_and_last': previous non-rung case removed before update); S6 completion and "
    "failure always reach cleanup_pending / mark_trial_failed; S7 state mutations invalidate the cached predictor; S8 no loop of "
    "the pending-evaluation bookkeeping iterates a list that its body (transitively) mutates. "
    "NOT decided (numeric / history): that the stored metric value equals the reported one after map_reward, and the "
    "contents of the data set after arbitrary interleavings.")

FLOOR = {"S1": 1, "S2": 3, "S3": 3, "S4": 3, "S5": 9, "S6": 4, "S7": 3, "S8": 1}


def s1_keepfilter(ctx, rep, clause="S1"):
    """Every call of ModelStateTransformer.filter_pending_evaluations made from a method that
    takes the trial to be removed must pass a predicate false exactly on that trial."""
    P = ctx.P
    callee = P.method("ModelStateTransformer", "filter_pending_evaluations")
    pname = [p for p in callee.params if p != "self"][0]
    sem = common.filter_semantics(ctx, callee, pname)
    if sem is None:
        raise AnchorError("ModelStateTransformer.filter_pending_evaluations no longer recognisable as a filter over "
                          "its predicate parameter")
    n = 0
    for f, call in ctx.all_calls_anywhere(method="filter_pending_evaluations", recv="ModelStateTransformer"):
        arg = kwarg(call, pname, 0)
        if arg is None:
            raise AnchorError(f"{f.qualname}: filter_pending_evaluations called without predicate")
        xname, rets = common.predicate_body(ctx, f, arg)
        if not rets:
            raise AnchorError(f"{f.qualname}: predicate `{U(arg)}` cannot be resolved to a lambda or local def")
        owner = f
        while owner.parent is not None:
            owner = owner.parent
        idp = [p for p in owner.params if p != "self"]
        if not idp:
            rep.info(clause, "keepfilter_polarity", owner.short, f, call, "caller has no id parameter; not judged")
            continue
        # the identifying attribute: the attribute of the element compared in the predicate to the id parameter
        elem_attr = None
        for r in rets:
            for c in ast.walk(r):
                if isinstance(c, ast.Compare) and len(c.ops) == 1:
                    for a, b in ((c.left, c.comparators[0]), (c.comparators[0], c.left)):
                        if isinstance(a, ast.Attribute) and isinstance(a.value, ast.Name) and a.value.id == xname \
                                and isinstance(b, ast.Name) and b.id in idp:
                            elem_attr, idexpr = U(a), b.id
        if elem_attr is None:
            raise AnchorError(f"{owner.qualname}: predicate does not compare an element attribute with an id parameter")
        common.keepfilter_polarity(ctx, rep, clause, f, rets, elem_attr, idexpr, owner.short, call, semantics=sem)
        n += 1
    # implementations that do not use the filter: removal by a loop that drops the entries of exactly this trial
    for m in common.overrides(ctx, "BaseSearcher", "cleanup_pending"):
        if m.cls is None or not ctx.P.is_subclass(m.cls, ctx.P.cls("ModelBasedSearcher")):
            continue
        if any(fn_name(c) == "filter_pending_evaluations" for c, _ in ctx.R.calls(m)) or any(
                fn_name(c) == "filter_pending_evaluations" for g in m.nested.values() for c, _ in ctx.R.calls(g)):
            continue
        drops = [x for x in walk_shallow(m.node) if isinstance(x, ast.Call) and fn_name(x) in ("drop_pending_evaluation", "remove_pending")]
        cfg = cfg_of(m)
        ok = bool(drops)
        for d in drops:
            nid = [k.id for k in cfg.nodes if any(y is d for y in cfg.node_walk(k.id))][0]
            ok = ok and ctx.has_fact(m, nid, lambda a: a[0] == "eq" and a[3] is True and "trial_id" in (a[1], a[2]) and
                                     (a[1].endswith(".trial_id") or a[2].endswith(".trial_id")))
        rep.put(ok, clause, "keepfilter_polarity", m.short, m, drops[0] if drops else None,
                "entries are dropped one by one, only those whose trial_id equals the given one",
                "cleanup_pending neither filters with a predicate nor drops exactly the entries of the given trial")
        n += 1
    return n


def s8(ctx, rep):
    """no loop on the pending-evaluation bookkeeping iterates a container that its body mutates"""
    P = ctx.P
    funcs = list(P.cls("ModelStateTransformer").methods.values()) + list(P.cls("TuningJobState").methods.values())
    funcs += common.overrides(ctx, "BaseSearcher", "cleanup_pending") + common.overrides(ctx, "BaseSearcher", "evaluation_failed")
    funcs += common.overrides(ctx, "BaseSearcher", "register_pending") + common.overrides(ctx, "BaseSearcher", "remove_case")
    n = 0
    seen = set()
    for f in funcs:
        if f in seen:
            continue
        seen.add(f)
        n += 1
        for loop, fld, culprit in common.mutation_during_iteration(ctx, f):
            rep.bad("S8", "iter_mutation", f"{f.short}: loop over `{fld}` does not mutate it", f, loop,
                    f"`for ... in {U(loop.iter)[:60]}` iterates the live `{fld}` list while its body changes it (`{culprit}`): "
                    "removing an element shifts the following one under the iterator, so every second matching entry survives")
    rep.put(not any(i.clause == "S8" and i.status == "violation" for i in rep.items), "S8", "iter_mutation",
            "pending-evaluation bookkeeping never mutates a list while iterating it", None, None, f"{n} functions scanned")


def _is_drop_call(x):
    return isinstance(x, ast.Call) and fn_name(x) == "drop_pending_evaluation"


def s2(ctx, rep):
    P = ctx.P
    f = P.method("ModelStateTransformer", "label_trial")
    cfg = cfg_of(f)
    # A: nodes that drop the pending entries of the labelled levels
    a_nodes = set()
    for n in cfg.nodes:
        if n.kind == "for":
            # loop over the keys of the new labels whose body drops on every path
            body_nodes = [m.id for st in n.ast.body for m in cfg.nodes if m.stmt is st]
            tgt = n.ast.target
            ok = False
            for st in n.ast.body:
                if isinstance(st, ast.Expr) and _is_drop_call(st.value):
                    from ..engine import flows_into
                    r = kwarg(st.value, "resource", 1)
                    if r is not None and isinstance(tgt, ast.Name) and flows_into(f, r, lambda y: isinstance(y, ast.Name) and y.id == tgt.id):
                        ok = True
            if ok:
                a_nodes.add(n.id)
        elif n.kind == "stmt" and any(_is_drop_call(x) for x in cfg.node_walk(n.id)):
            encl = [p for p in cfg.nodes if p.kind == "for" and any(s is n.stmt for s in stmts_in(p.ast.body))]
            if not encl:
                a_nodes.add(n.id)
    # B: label stores  metrics[name] = ... / metrics[name].update(...)
    mvar = None
    for name in ("metrics",):
        pass
    b_nodes = set()
    metric_vars = set()
    for st in walk_shallow(f.node):
        if isinstance(st, ast.Assign) and isinstance(st.value, ast.Call) and fn_name(st.value) == "metrics_for_trial":
            for t in st.targets:
                if isinstance(t, ast.Name):
                    metric_vars.add(t.id)
    if not metric_vars:
        raise AnchorError("label_trial: no `x = state.metrics_for_trial(...)` found")
    for n in cfg.nodes:
        if n.kind != "stmt":
            continue
        st = n.ast
        if isinstance(st, ast.Assign):
            for t in st.targets:
                if isinstance(t, ast.Subscript) and isinstance(t.value, ast.Name) and t.value.id in metric_vars:
                    b_nodes.add(n.id)
        for x in cfg.node_walk(n.id):
            if isinstance(x, ast.Call) and fn_name(x) == "update" and isinstance(x.func.value, ast.Subscript) \
                    and isinstance(x.func.value.value, ast.Name) and x.func.value.value.id in metric_vars:
                b_nodes.add(n.id)
    if not b_nodes:
        raise AnchorError("label_trial: label store sites not found")
    # the variable holding the new internal-metric labels
    mv = None
    for st in walk_shallow(f.node):
        if isinstance(st, ast.Assign) and isinstance(st.value, ast.Call) and fn_name(st.value) == "get" \
                and "metrics" in U(st.value.func.value) and isinstance(st.targets[0], ast.Name):
            mv = st.targets[0].id
    # "new labels of the internal metric are present", whichever way it is tested: the value fetched with .get is not None, or
    # the key is in data.metrics and its entry is not None
    assume = ["INTERNAL_METRIC_NAME in data.metrics", "data.metrics[INTERNAL_METRIC_NAME] is not None"] + ([f"{mv} is not None"] if mv is not None else [])
    if mv is None and not any(isinstance(x, ast.Compare) and isinstance(x.ops[0], ast.In) and U(x.left) == "INTERNAL_METRIC_NAME" for x in walk_shallow(f.node)):
        raise AnchorError("label_trial: no test for the presence of new INTERNAL_METRIC_NAME labels found")
    _, viol = ctx.must_precede(f, None, None, a_nodes=a_nodes, b_nodes=b_nodes, assume=assume)
    rep.put(not viol, "S2", "must_precede", "ModelStateTransformer.label_trial: drop_pending_evaluation ≺ label store",
            f, None, f"{len(a_nodes)} drop sites precede {len(b_nodes)} label stores when new labels are present",
            "a path stores new labels without dropping the pending evaluation at those levels",
            witness=viol[0][1] if viol else None)

    # register_pending of the multi-fidelity GP searcher: append only if not pending, not labelled
    g = P.method("GPMultiFidelitySearcher", "register_pending")
    sites = ctx.calls_in(g, method="append_trial")
    if not sites:
        raise AnchorError("GPMultiFidelitySearcher.register_pending: no append_trial call")

    def is_not(methname):
        def pred(a):
            if a[0] != "truth" or a[2] is not False:
                return False
            e = atom_expr(a[1])
            return isinstance(e, ast.Call) and fn_name(e) == methname and \
                {"trial_id"} <= {x.id for x in ast.walk(e) if isinstance(x, ast.Name)} and \
                any(isinstance(x, ast.Name) and x.id == "milestone" for x in ast.walk(e))
        return pred
    for nid, call in sites:
        rep.put(ctx.has_fact(g, nid, is_not("is_pending")), "S2", "guarded_by",
                "GPMultiFidelitySearcher.register_pending: append_trial | not is_pending", g, call,
                "append only when the (trial, level) is not already pending")
        rep.put(ctx.has_fact(g, nid, is_not("is_labeled")), "S2", "guarded_by",
                "GPMultiFidelitySearcher.register_pending: append_trial | not is_labeled", g, call,
                "append only when the level has no observation yet")


def _truth_fact(name, val):
    return lambda a: a[0] == "truth" and a[1] == name and a[2] is val


def s3(ctx, rep):
    P = ctx.P
    f = P.method("HyperbandScheduler", "on_trial_result")
    # name of the ignore flag: the local that receives task_info.get("ignore_data", ...)
    flag = None
    for st in walk_shallow(f.node):
        if isinstance(st, ast.Assign) and isinstance(st.value, ast.Call) and fn_name(st.value) == "get" \
                and st.value.args and isinstance(argn(st.value, 0), ast.Constant) and argn(st.value, 0).value == "ignore_data":
            flag = st.targets[0].id
            dflt = argn(st.value, 1) if len(st.value.args) > 1 else None
            if not (isinstance(dflt, ast.Constant) and dflt.value is False):
                rep.bad("S3", "agreement", "HyperbandScheduler.on_trial_result: ignore_data default", f, st,
                        "default of task_info.get('ignore_data') is not False")
    if flag is None:
        raise AnchorError("HyperbandScheduler.on_trial_result: ignore_data flag not found")
    for what, kw in (("_update_searcher", dict(selfcall="_update_searcher")),
                     ("searcher.on_trial_result", dict(method="on_trial_result", recv="BaseSearcher"))):
        sites = ctx.calls_in(f, **kw)
        if not sites:
            raise AnchorError(f"HyperbandScheduler.on_trial_result: call {what} not found")
        for nid, call in sites:
            rep.put(ctx.has_fact(f, nid, _truth_fact(flag, False)), "S3", "guarded_by",
                    f"HyperbandScheduler.on_trial_result: {what} | not {flag}", f, call,
                    "searcher is fed only when the report is not a re-report of an already observed level",
                    f"{what} reachable with {flag} possibly true: a level reported again after resume would be "
                    "added to the data set a second time")
    # source of the flag in the promotion rung system
    g = P.method("PromotionRungSystem", "on_task_report")
    val = None
    for r in returns_of(g):
        d = dict_items(r.value) if r.value is not None else None
        if d and "ignore_data" in d:
            val = d["ignore_data"]
    if val is None:
        raise AnchorError("PromotionRungSystem.on_task_report returns no dict with key 'ignore_data'")
    # the conditions under which the flag is true: the conjunction in its one definition, or - written as statements - the
    # conditions dominating its one definition that is not the constant False, together with that definition's own
    from ..core.facts import atoms_of
    from .common import dom_guard
    from ..engine import canon_text
    at = None
    if isinstance(val, ast.Name):
        cg_ = cfg_of(g)
        dn = [n for n in cg_.nodes if n.kind == "stmt" and isinstance(n.ast, ast.Assign) and any(isinstance(t_, ast.Name) and t_.id == val.id for t_ in n.ast.targets)]
        live = [n for n in dn if not (isinstance(n.ast.value, ast.Constant) and n.ast.value.value is False)]
        if len(live) != 1:
            raise AnchorError(f"PromotionRungSystem.on_task_report: ignore_data has {len(live)} definitions that are not the constant False")
        at = set(atoms_of(live[0].ast.value, True)) | set(dom_guard(ctx, g, live[0].id))
        val = live[0].ast.value
    else:
        at = set(atoms_of(val, True))
    # required: (resume_from is not None) and (resource <= resume_from)
    has_nn = any(a[0] == "is" and a[2] == "None" and a[3] is False for a in at)
    le = [a for a in at if a[0] == "le"]
    ok = has_nn and len(le) == 1 and len(at) == 2
    if ok:
        rf = [a for a in at if a[0] == "is"][0][1]
        ok = le[0][2] == rf
        # resume_from must be read from the running record; resource from result[resource_attr]
        def _src(name):
            from .common import unpacked_field
            uf = unpacked_field(ctx, g, name) if name.isidentifier() else None
            if uf is not None:
                return f"{canon_text(g, uf[0])}.{uf[1]}"
            try:
                return canon_text(g, ast.parse(name, mode="eval").body)
            except SyntaxError:
                return name
        ok = ok and "_resource_attr" in _src(le[0][1])
        ok = ok and "resume_from" in _src(rf) and "_running" in _src(rf)
    rep.put(ok, "S3", "agreement", "PromotionRungSystem.on_task_report: ignore_data definition", g, val,
            f"ignore_data = `{U(val)}` (level at or below the level the trial was resumed from)",
            f"ignore_data = `{U(val)}` is not `(resume_from is not None) and (resource <= resume_from)`")


def _lur_and_resource(f):
    """predicates on the text of an atom's operand: it is `<record>.largest_update_resource` / `int(result[self._resource_attr])`,
    or a local holding that"""
    from .common import value_pred
    is_lur = value_pred(f, lambda v: isinstance(v, ast.Attribute) and v.attr == "largest_update_resource")
    is_res = value_pred(f, lambda v: isinstance(v, ast.Call) and fn_name(v) == "int" and v.args
                        and isinstance(argn(v, 0), ast.Subscript) and U(argn(v, 0).slice) == "self._resource_attr")
    if not any(isinstance(y, ast.Attribute) and y.attr == "largest_update_resource" for y in ast.walk(f.node)):
        raise AnchorError(f"{f.short}: largest_update_resource is not read")
    return is_lur, is_res


def s4(ctx, rep):
    P = ctx.P
    f = P.method("HyperbandScheduler", "on_trial_result")
    cfg = cfg_of(f)
    # the update flag passed to the searcher
    sites = ctx.calls_in(f, method="on_trial_result", recv="BaseSearcher")
    upd = kwarg(sites[0][1], "update", 3)
    if not isinstance(upd, ast.Name):
        raise AnchorError("searcher.on_trial_result(update=...) is not a local flag")
    flag = upd.id
    lur, res = _lur_and_resource(f)
    found = False
    for n in cfg.nodes:
        if n.kind == "stmt" and isinstance(n.ast, ast.Assign) and isinstance(n.ast.targets[0], ast.Name) \
                and n.ast.targets[0].id == flag and isinstance(n.ast.value, ast.Constant) and n.ast.value.value is False:
            if ctx.has_fact(f, n.id, lambda a: a[0] == "eq" and a[3] is True and ((lur(a[1]) and res(a[2])) or (lur(a[2]) and res(a[1])))):
                found = True
                rep.ok("S4", "guarded_by", "HyperbandScheduler.on_trial_result: update flag cleared at same resource",
                       f, n.ast, f"{flag} = False on the edge resource == largest_update_resource")
    if not found:
        rep.bad("S4", "guarded_by", "HyperbandScheduler.on_trial_result: update flag cleared at same resource", f, None,
                "no path clears the update flag when the resource equals the largest resource already used for an "
                "update: the same observation would be added twice")
    # largest_update_resource advanced otherwise
    st = [n for n in cfg.nodes if n.kind == "stmt" and isinstance(n.ast, ast.Assign)
          and U(n.ast.targets[0]).endswith(".largest_update_resource")]
    ok = bool(st) and all(res(U(n.ast.value)) and ctx.has_fact(
        f, n.id, lambda a: a[0] == "eq" and a[3] is False and ((lur(a[1]) and res(a[2])) or (lur(a[2]) and res(a[1])))) for n in st)
    rep.put(ok, "S4", "guarded_by", "HyperbandScheduler.on_trial_result: largest_update_resource advanced", f,
            st[0].ast if st else None, "record.largest_update_resource = resource on the not-equal edge")
    # on_trial_complete forwards only beyond the largest update resource
    g = P.method("HyperbandScheduler", "on_trial_complete")
    sup = [(nid, c) for nid in range(len(cfg_of(g).nodes)) for c in cfg_of(g).node_walk(nid)
           if isinstance(c, ast.Call) and isinstance(c.func, ast.Attribute) and c.func.attr == "on_trial_complete"
           and isinstance(c.func.value, ast.Call) and fn_name(c.func.value) == "super"]
    if not sup:
        raise AnchorError("HyperbandScheduler.on_trial_complete: super().on_trial_complete not found")
    lur2, res2 = _lur_and_resource(g)
    for nid, c in sup:
        ok = ctx.has_fact(g, nid, lambda a: a[0] == "lt" and lur2(a[1]) and res2(a[2]))
        rep.put(ok, "S4", "guarded_by", "HyperbandScheduler.on_trial_complete: forward | resource > largest_update_resource",
                g, c, "final result forwarded to the searcher only if not already used",
                "final result forwarded although resource <= largest_update_resource is possible (double observation)")


def s5_pending_only_if_continues(ctx, rep):
    """a level becomes pending only for a trial that goes on running: every non-empty assignment of the list of levels to
    register is dominated by `task_continues` (a stopped or paused trial will not report the next level - nothing would
    ever remove the entry)"""
    from .c01 import _dom_atoms
    from ..engine import vars_assigned_from
    P = ctx.P
    f = P.method("HyperbandScheduler", "_update_searcher")
    cfg = cfg_of(f)
    tc = vars_assigned_from(f, lambda v: isinstance(v, ast.Subscript) and U(v.slice) == "'task_continues'")
    if len(tc) != 1:
        raise AnchorError("_update_searcher: local holding task_info['task_continues'] not found")
    # the list that is iterated to register pending evaluations
    regs = [x for x in walk_shallow(f.node) if isinstance(x, ast.For) and any(
        isinstance(y, ast.Call) and fn_name(y) in ("register_pending", "append_trial") for y in ast.walk(x))]
    if len(regs) != 1 or not isinstance(regs[0].iter, ast.Name):
        raise AnchorError("_update_searcher: loop that registers the pending levels not found")
    pv = regs[0].iter.id
    n = 0
    for nd in cfg.nodes:
        if nd.kind == "stmt" and isinstance(nd.ast, ast.Assign) and any(isinstance(t, ast.Name) and t.id == pv for t in nd.ast.targets):
            v = nd.ast.value
            if isinstance(v, ast.List) and not v.elts:
                continue
            n += 1
            ok = ("truth", tc[0], True) in _dom_atoms(cfg, nd.id)
            rep.put(ok, "S5", "guarded_by", "HyperbandScheduler._update_searcher: levels become pending only if the trial continues", f, nd.ast,
                    U(nd.ast)[:60], f"`{U(nd.ast)[:60]}` is not guarded by `{tc[0]}`: a trial that is stopped or paused at this report gets a pending "
                    "entry for a level it will not report - no observation ever replaces it and nothing cleans it up")
    if n < 2:
        raise AnchorError(f"_update_searcher: {n} non-empty assignments of the pending levels (3 confirmed)")


def s6b(ctx, rep, clause="S6"):
    """found thin by the generic mutation audit: the filtered list replaces the pending list whenever something was removed"""
    from .common import require_guard
    P = ctx.P
    f = P.method("ModelStateTransformer", "filter_pending_evaluations")
    cfg = cfg_of(f)
    from .common import container_mutations
    repl = container_mutations(ctx, f, lambda e: isinstance(e, ast.Attribute) and e.attr == "pending_evaluations")
    if not repl:
        raise AnchorError("filter_pending_evaluations: mutation of pending_evaluations not found")
    require_guard(ctx, rep, clause, f, "ModelStateTransformer.filter_pending_evaluations: the pending list is replaced | the filter removed something", repl,
                  [("len(filtered) != len(pending)", lambda a: a[0] == "eq" and a[3] is False and "len(" in a[1] and "len(" in a[2])],
                  "the filtered list is thrown away exactly when it differs: pending entries of failed / finished trials are never removed")


def s5_pair(ctx, rep):
    """(reported_result, keep_case) is one piece of state - 'the last case given to the searcher and whether it has to
    stay': whoever writes one of them writes the other on the same paths.  A stale pair makes the next report remove a
    rung-level observation (or keep a non-rung one)."""
    P = ctx.P
    pair = ("reported_result", "keep_case")
    n = 0
    for f in sorted(P.functions.values(), key=lambda f: f.qualname):
        if not f.module.relpath.endswith("optimizer/schedulers/hyperband.py"):
            continue
        cfg = cfg_of(f)
        st = {a: {nd.id for nd in cfg.nodes if nd.kind == "stmt" and isinstance(nd.ast, (ast.Assign, ast.AnnAssign))
                  and any(isinstance(t, ast.Attribute) and t.attr == a for t in (nd.ast.targets if isinstance(nd.ast, ast.Assign) else [nd.ast.target]))}
              for a in pair}
        if not (st[pair[0]] or st[pair[1]]):
            continue
        n += 1
        bad = None
        for a, b in (pair, pair[::-1]):
            for nid in st[a]:
                # a path through this store that passes no store of the partner
                if cfg.path(cfg.entry, nid, deleted=st[b]) is not None and \
                        cfg.path([s_ for s_, l in cfg.succ[nid]], cfg.exit, deleted=st[b], skip_labels=("exc",)) is not None:
                    bad = (a, b, cfg.nodes[nid].ast)
        rep.put(bad is None, "S5", "paired_write", f"{f.short}: reported_result and keep_case are written together", f, bad[2] if bad else None, "",
                f"`{bad[0] if bad else ''}` is written on a path that leaves `{bad[1] if bad else ''}` as it was: the pair (last case, keep it?) is "
                "stale - with searcher_data='rungs_and_last' the next report removes a rung-level observation from the surrogate data "
                "(or keeps a non-rung one)")
    if n < 2:
        raise AnchorError(f"C14-S5: only {n} writers of (reported_result, keep_case) found (on_trial_result and TrialInformation.restart confirmed)")


def s5(ctx, rep):
    P = ctx.P
    f = P.method("HyperbandScheduler", "_update_searcher")
    cfg = cfg_of(f)
    # do_update = True assignments and their guards
    flag = None
    for r in returns_of(f):
        if isinstance(r.value, ast.Name):
            flag = r.value.id
    if flag is None:
        raise AnchorError("_update_searcher does not return its update flag")
    sets = [n for n in cfg.nodes if n.kind == "stmt" and isinstance(n.ast, ast.Assign)
            and isinstance(n.ast.targets[0], ast.Name) and n.ast.targets[0].id == flag
            and isinstance(n.ast.value, ast.Constant) and n.ast.value.value is True]
    if len(sets) < 2:
        raise AnchorError("_update_searcher: expected the 'rungs' and the 'all/rungs_and_last' update sites")
    fa = ctx.facts(f)
    n_rungs = 0
    for n in sets:
        at = fa.at(n.id)
        rungs_mode = any(a[0] == "eq" and a[3] is True and "'rungs'" in (a[1], a[2]) and "searcher_data" in a[1] + a[2]
                         for a in at)
        if rungs_mode:
            n_rungs += 1
            ok = False
            for a in at:
                if a[0] == "or":
                    s = repr(a)
                    if "rung_levels" in s and "max_t" in s and "'in'" in s and "'eq'" in s:
                        ok = True
            rep.put(ok, "S5", "guarded_by", "HyperbandScheduler._update_searcher: 'rungs' policy update guard", f, n.ast,
                    "update only when resource in rung_levels or resource == max_t",
                    "with searcher_data == 'rungs' an update is possible at a level that is neither a rung level nor max_t")
        else:
            ok = any(a[0] == "truth" and a[2] is False and "ignore_data" in a[1] for a in at)
            rep.put(ok, "S5", "guarded_by", "HyperbandScheduler._update_searcher: all-levels policy update guard", f,
                    n.ast, "update unless ignore_data")
    if n_rungs != 1:
        raise AnchorError("_update_searcher: 'rungs' branch not identified")
    # rungs_and_last: remove_case of the previous non-rung case before the new update
    g = P.method("HyperbandScheduler", "_update_searcher_internal")
    sites = ctx.calls_in(g, method="remove_case")
    if not sites:
        raise AnchorError("_update_searcher_internal: remove_case call not found")
    for nid, c in sites:
        at = ctx.facts(g).at(nid)
        ok = any(a[0] == "truth" and a[2] is False and a[1].endswith(".keep_case") for a in at) and \
            any(a[0] == "is" and a[3] is False and a[2] == "None" for a in at) and \
            any(a[0] == "eq" and a[3] is True and "'rungs_and_last'" in (a[1], a[2]) for a in at)
        rep.put(ok, "S5", "guarded_by", "HyperbandScheduler._update_searcher_internal: remove_case guard", g, c,
                "previous case removed iff policy is rungs_and_last, a previous result exists and it is not kept")
    # the snapshot used by remove_case is only overwritten after _update_searcher ran
    h = P.method("HyperbandScheduler", "on_trial_result")
    A = ctx.sel_call(selfcall="_update_searcher")
    B = ctx.sel_pred(lambda x: False)
    hc = cfg_of(h)
    b_nodes = {n.id for n in hc.nodes if n.kind == "stmt" and isinstance(n.ast, ast.Assign)
               and any(U(t).endswith(".reported_result") or U(t).endswith(".keep_case") for t in n.ast.targets)}
    if len(b_nodes) < 2:
        raise AnchorError("on_trial_result: stores to record.reported_result / record.keep_case not found")
    _, viol = ctx.must_precede(h, A, None, b_nodes=b_nodes)
    rep.put(not viol, "S5", "must_precede", "HyperbandScheduler.on_trial_result: _update_searcher ≺ record snapshot update",
            h, None, "the previous-result snapshot is read by _update_searcher before it is overwritten",
            witness=viol[0][1] if viol else None)
    # _update_searcher_internal only under the flag
    sites = ctx.calls_in(f, selfcall="_update_searcher_internal")
    for nid, c in sites:
        rep.put(ctx.has_fact(f, nid, _truth_fact(flag, True)), "S5", "guarded_by",
                "HyperbandScheduler._update_searcher: internal update | do_update", f, c, "")


def s6(ctx, rep):
    P = ctx.P
    f = P.method("HyperbandScheduler", "on_trial_complete")
    B = ctx.sel_call(method="cleanup_pending", recv="BaseSearcher")
    cfg = cfg_of(f)
    bn = ctx.nodes(f, B, "must")
    p = cfg.path(cfg.entry, cfg.exit, deleted=bn, skip_labels=("exc",))
    rep.put(p is None and bool(bn), "S6", "must_follow", "HyperbandScheduler.on_trial_complete → searcher.cleanup_pending",
            f, None, "every normal path clears the trial's pending evaluations",
            "a path through on_trial_complete leaves pending evaluations of the finished trial",
            witness=cfg.describe_path(p) if p else None)
    B2 = ctx.sel_call(selfcall="_cleanup_trial")
    bn = ctx.nodes(f, B2, "must")
    p = cfg.path(cfg.entry, cfg.exit, deleted=bn, skip_labels=("exc",))
    rep.put(p is None and bool(bn), "S6", "must_follow", "HyperbandScheduler.on_trial_complete → _cleanup_trial", f, None,
            "", witness=cfg.describe_path(p) if p else None)
    failed_trial_leaves_pending(ctx, rep, "S6")
    # pause / stop: on_trial_remove and on_trial_error release the rung-system record
    for m in ("on_trial_remove", "on_trial_error"):
        h = P.method("HyperbandScheduler", m)
        cfg = cfg_of(h)
        bn = ctx.nodes(h, B2, "must")
        p = cfg.path(cfg.entry, cfg.exit, deleted=bn, skip_labels=("exc",))
        rep.put(p is None and bool(bn), "S6", "must_follow", f"HyperbandScheduler.{m} → _cleanup_trial", h, None, "",
                witness=cfg.describe_path(p) if p else None)


def failed_trial_leaves_pending(ctx, rep, clause="S6"):
    """every evaluation_failed of a searcher that keeps a surrogate state: the failed trial's pending evaluations go (all of them),
    and the trial is marked as failed - on every path (shared with C13-S4)"""
    P = ctx.P
    n = 0
    for c in sorted(ctx.down("ModelBasedSearcher"), key=lambda c_: c_.name):
        g = c.methods.get("evaluation_failed")
        if g is None:
            continue
        n += 1
        cfg = cfg_of(g)
        for what, sel in (("its pending evaluations are dropped", ctx.sel_or(ctx.sel_call(selfcall="cleanup_pending"), ctx.sel_call(method="drop_pending_evaluation"),
                                                                        ctx.sel_call(method="filter_pending_evaluations"))),
                          ("it is marked as failed", ctx.sel_call(method="mark_trial_failed"))):
            bn = ctx.nodes(g, sel, "must")
            sup = {nd.id for nd in cfg.nodes for x in cfg.node_walk(nd.id) if isinstance(x, ast.Call) and fn_name(x) == "evaluation_failed"
                   and isinstance(x.func, ast.Attribute) and isinstance(x.func.value, ast.Call) and fn_name(x.func.value) == "super"}
            marks = set(bn) | sup
            p = cfg.path(cfg.entry, cfg.exit, deleted=marks, skip_labels=("exc",))
            rep.put(p is None and bool(marks), clause, "must_follow", f"{c.name}.evaluation_failed: {what}", g, None,
                    "", f"a trial can fail without this: {what.replace('its', 'the failed trial-s').replace('it is', 'the trial is')} - stale pending evaluations keep "
                    "being fantasized (or the failed configuration is suggested again)", witness=cfg.describe_path(p) if p else None)
    if n < 2:
        raise AnchorError("evaluation_failed implementations of the model-based searchers not found (2 confirmed)")


def s7(ctx, rep):
    """Methods of ModelStateTransformer that change the state and (today) invalidate the cached
    predictor must do so on every path that changes the state."""
    P = ctx.P
    c = P.cls("ModelStateTransformer")
    inval = ctx.sel_store(attr="_predictor")

    def is_none_store(f, cfg, nid):
        n = cfg.nodes[nid]
        return n.kind == "stmt" and isinstance(n.ast, ast.Assign) and U(n.ast.targets[0]) == "self._predictor" \
            and isinstance(n.ast.value, ast.Constant) and n.ast.value.value is None
    for name in ("append_trial", "label_trial"):
        f = c.methods.get(name)
        if f is None:
            raise AnchorError(f"ModelStateTransformer.{name} vanished")
        cfg = cfg_of(f)
        bn = {n.id for n in cfg.nodes if is_none_store(f, cfg, n.id)}
        p = cfg.path(cfg.entry, cfg.exit, deleted=bn, skip_labels=("exc",))
        rep.put(p is None and bool(bn), "S7", "must_follow", f"ModelStateTransformer.{name} invalidates predictor", f, None,
                "self._predictor = None on every normal path", "state changed while the cached predictor stays valid",
                witness=cfg.describe_path(p) if p else None)
    f = c.methods.get("filter_pending_evaluations")
    cfg = cfg_of(f)
    an = {n.id for n in cfg.nodes if is_none_store(f, cfg, n.id)}
    from .common import container_mutations
    bn = set(container_mutations(ctx, f, lambda e: isinstance(e, ast.Attribute) and e.attr == "pending_evaluations"))
    if not bn:
        raise AnchorError("filter_pending_evaluations: mutation of pending_evaluations not found")
    viol = []
    for b in bn:
        # invalidation before or after on all paths through b
        before = cfg.path(cfg.entry, b, deleted=an) is None
        after = cfg.path([s for s, l in cfg.succ[b]], cfg.exit, deleted=an, skip_labels=("exc",)) is None
        if not (before or after):
            viol.append(b)
    rep.put(not viol and bool(an), "S7", "must_precede", "ModelStateTransformer.filter_pending_evaluations invalidates predictor",
            f, None, "every change of the pending list is accompanied by self._predictor = None")
    for name in ("drop_pending_evaluation", "remove_observed_case", "mark_trial_failed"):
        g = c.methods.get(name)
        if g is not None and not any(is_none_store(g, cfg_of(g), n.id) for n in cfg_of(g).nodes):
            rep.info("S7", "sibling", f"ModelStateTransformer.{name}", g, None,
                     "mutates state without invalidating the predictor (callers invalidate)")


def s2_policy(ctx, rep):
    """levels selected by the data policy: under searcher_data == 'rungs' the searcher is updated exactly at rung levels and at
    max_t; under the other policies exactly when the rung system does not flag the report as a repetition (ignore_data)"""
    from .common import dom_guard
    P = ctx.P
    f = P.method("HyperbandScheduler", "_update_searcher")
    cfg = cfg_of(f)
    flag = [U(r.value) for r in returns_of(f) if r.value is not None]
    if len(set(flag)) != 1:
        raise AnchorError("HyperbandScheduler._update_searcher: returned update flag not found")
    fv = flag[0]
    sets = [n for n in cfg.nodes if n.kind == "stmt" and isinstance(n.ast, ast.Assign) and U(n.ast.targets[0]) == fv and isinstance(n.ast.value, ast.Constant)
            and n.ast.value.value is True]
    if len(sets) != 2:
        raise AnchorError(f"HyperbandScheduler._update_searcher: {len(sets)} places set the update flag (2 confirmed: 'rungs' and the other policies)")
    seen = set()
    for n in sets:
        at = set(dom_guard(ctx, f, n.id))
        rungs = any(a[0] == "eq" and a[3] is True and "'rungs'" in (a[1], a[2]) for a in at)
        if rungs:
            seen.add("rungs")
            want = None
            for a in at:
                if a[0] == "or":
                    parts = {p_ for grp in a[1] for p_ in grp}
                    if any(p_[0] == "in" and p_[2] == "self.rung_levels" and p_[3] is True for p_ in parts) and \
                            any(p_[0] == "eq" and "self.max_t" in (p_[1], p_[2]) and p_[3] is True for p_ in parts) and len(parts) == 2:
                        want = a
            extra = [a for a in at if a is not want and not (a[0] == "eq" and "'rungs'" in (a[1], a[2]))]
            rep.put(want is not None and not extra, "S2", "guarded_by", "HyperbandScheduler._update_searcher: 'rungs' policy | the level is a rung level or max_t (only)", f,
                    n.ast, "", f"under searcher_data='rungs' the update is guarded by {sorted(map(str, at))}: levels that are no rung levels enter the surrogate data, "
                    "or rung levels are left out")
        else:
            seen.add("other")
            ok = any(a[0] == "truth" and "ignore_data" in a[1] and a[2] is False for a in at)
            extra = [a for a in at if not (a[0] == "truth" and "ignore_data" in a[1]) and not (a[0] == "eq" and "'rungs'" in (a[1], a[2]))]
            rep.put(ok and not extra, "S2", "guarded_by", "HyperbandScheduler._update_searcher: other policies | the report is not a repetition (ignore_data false), nothing else", f,
                    n.ast, "", f"the update is guarded by {sorted(map(str, at))}: re-reported levels of resumed trials are added again, or fresh levels are dropped")
    if seen != {"rungs", "other"}:
        raise AnchorError("HyperbandScheduler._update_searcher: the two policy arms were not both recognised")
    upd = [n.id for n in cfg.nodes if any(isinstance(x, ast.Call) and fn_name(x) == "_update_searcher_internal" for x in cfg.node_walk(n.id))]
    oku = len(upd) == 1 and any(a[0] == "truth" and a[1] == fv and a[2] is True for a in dom_guard(ctx, f, upd[0]))
    rep.put(oku, "S2", "guarded_by", "HyperbandScheduler._update_searcher: the searcher is updated | the update flag is set", f, None, "")


def run(ctx, rep, tier="quick"):
    s2_policy(ctx, rep)
    s1_keepfilter(ctx, rep)
    s2(ctx, rep)
    s3(ctx, rep)
    s4(ctx, rep)
    s5(ctx, rep)
    s5_pair(ctx, rep)
    s5_pending_only_if_continues(ctx, rep)
    s6b(ctx, rep)
    from . import c03
    c03.s5c(ctx, rep, clause="S5")
    s6(ctx, rep)
    s7(ctx, rep)
    s8(ctx, rep)
