"""C10 - simulated experiments replay the benchmark table faithfully in values and time."""
import ast

from ..core.model import AnchorError
from ..core.cfg import walk_shallow, cfg_of
from ..core.facts import U, atoms_of
from ..engine import argn, fn_name, kwarg, local_defs, returns_of, stmts_in, vars_assigned_from, var_from_call
from . import c02

EXPLANATION = (
    "Decides structural clauses of C10: S1 simulated time never runs backwards - the clock attribute is written only by "
    "start_of_time (= 0), advance (+= step under assert step >= 0) and advance_to (= max(target, current)); S2 events with "
    "equal time stamps are processed first-in-first-out - every heap push carries (time, running counter, event) and is "
    "followed by the counter increment, and only SimulatorState touches the heap; S3 one seed per trial - the per-trial seed "
    "is stored only when no seed is stored yet ('is None', not truthiness), the stored value is the one used, and a fixed "
    "backend seed wins; S4 table rows are copied, never written - each reported level is a fresh dict built from the table "
    "row, and the in-place time corrections touch only those fresh dicts' elapsed-time entry; S5 levels after a resume start "
    "strictly after the paused level (shared with C02-S7); S6 waiting is charged once - only the sleep callback and the "
    "backend's own entry points advance the clock, each entry point charges outside time at most once and marks its exit "
    "on every normal path. S6 also: every result of a job is pushed as one result event for that trial, stamped start + elapsed + result delay (a plain sum of these three), the completion event carries the job's status, a processed result is stamped with its event's time; S5 also: the elapsed-time offset of the paused level is subtracted from every kept result, after the scan. NOT decided: time stamp == start + elapsed + delays (arithmetic), the monotonicity repair "
    "constants.")

FLOOR = {"S1": 4, "S2": 4, "S3": 3, "S4": 3, "S5": 3, "S6": 6}


def s1(ctx, rep):
    P = ctx.P
    c = P.cls("SimulatedTimeKeeper")
    attr = "_current_time"
    ws = [(f, n, k) for f, n, k in ctx.writers(attr) if f.cls is c or (f.cls is not None and c in P.mro(f.cls))]
    foreign = [(f, n, k) for f, n, k in ctx.writers(attr) if not (f.cls is c)]
    # RealTimeKeeper has no such attribute; any other writer is foreign
    foreign = [(f, n, k) for f, n, k in foreign if not (f.cls is not None and f.cls.name == "SimulatedTimeKeeper")]
    rep.put(not foreign, "S1", "who_may_write", f"SimulatedTimeKeeper.{attr} is written only by the time keeper itself", c, None,
            f"{len(ws)} write sites", "foreign writer of the simulated clock: " + ", ".join(f.short for f, n, k in foreign))
    for f, n, k in ws:
        if f.name == "__init__":
            continue
        construct = f"SimulatedTimeKeeper.{f.name}: write of the clock is monotone"
        ok = False
        detail = U(n)
        if f.name == "start_of_time":
            ok = isinstance(n, ast.Assign) and isinstance(n.value, ast.Constant) and n.value.value == 0
        elif isinstance(n, ast.AugAssign) and isinstance(n.op, ast.Add):
            cfg = cfg_of(f)
            nid = [x.id for x in cfg.nodes if x.ast is n][0]
            v = U(n.value)
            ok = ctx.has_fact(f, nid, lambda a: a[0] == "le" and a[1] == "0" and a[2] == v)
            detail += f" under assert {v} >= 0"
        elif isinstance(n, ast.Assign) and isinstance(n.value, ast.Call) and fn_name(n.value) == "max":
            ok = any(U(a) == f"self.{attr}" for a in n.value.args)
        elif isinstance(n, ast.Assign) and isinstance(n.value, ast.BinOp) and isinstance(n.value.op, ast.Add) and \
                f"self.{attr}" in (U(n.value.left), U(n.value.right)):
            # self.t = self.t + step   (the spelled-out form of the augmented assignment)
            cfg = cfg_of(f)
            nid = [x.id for x in cfg.nodes if x.ast is n][0]
            v = U(n.value.right if U(n.value.left) == f"self.{attr}" else n.value.left)
            ok = ctx.has_fact(f, nid, lambda a: a[0] == "le" and a[1] == "0" and a[2] == v)
            detail += f" under assert {v} >= 0"
        elif isinstance(n, ast.Assign):
            # self.t = v  where the clock is known not to be ahead of v:  self.t <= v  dominates the write (the clock itself or a
            # local just loaded from it)
            from .common import dom_guard, value_pred
            cfg = cfg_of(f)
            nid = [x.id for x in cfg.nodes if x.ast is n][0]
            is_clock = value_pred(f, lambda e: U(e) == f"self.{attr}")
            v = U(n.value)
            ok = any(a[0] == "le" and a[2] == v and is_clock(a[1]) for a in dom_guard(ctx, f, nid))
            detail += f" under clock <= {v}"
        rep.put(ok, "S1", "monotone_write", construct, f, n, detail,
                f"`{U(n)}` can move the simulated clock backwards (not `= 0` at start, `+= step` under `assert step >= 0`, or "
                f"`= max(·, self.{attr})`)")


def s2(ctx, rep):
    P = ctx.P
    c = P.cls("SimulatorState")
    f = c.methods["push"]
    cfg = cfg_of(f)
    pushes = [(n.id, x) for n in cfg.nodes for x in cfg.node_walk(n.id) if isinstance(x, ast.Call) and fn_name(x) == "heappush"]
    ok = len(pushes) == 1
    if ok:
        from ..engine import deref, record_elts
        # a tuple, or a NamedTuple of the program (which compares like the tuple of its fields), written in place or held in a local
        elts = record_elts(deref(f, argn(pushes[0][1], 1)))
        ok = elts is not None and len(elts) == 3 and U(elts[0]) == "event_time" and U(elts[1]) == "self.events_added" \
            and U(elts[2]) == "event" and U(argn(pushes[0][1], 0)) == "self.event_heap"
    rep.put(ok, "S2", "agreement", "SimulatorState.push: heap entries are (time, insertion counter, event)", f, pushes[0][1] if pushes else None, "",
            "heap entries are not keyed by (time, insertion counter): events with equal time stamps are not processed first-in-first-out")
    inc = [n.id for n in cfg.nodes if n.kind == "stmt" and isinstance(n.ast, ast.AugAssign) and U(n.ast.target) == "self.events_added"
           and isinstance(n.ast.op, ast.Add) and U(n.ast.value) == "1"]
    ok = bool(pushes) and len(inc) == 1 and cfg.path([s for s, l in cfg.succ[pushes[0][0]]], cfg.exit, deleted=set(inc), skip_labels=("exc",)) is None
    rep.put(ok, "S2", "must_follow", "SimulatorState.push: the insertion counter is incremented after every push", f, None, "",
            "two events can get the same tie-break counter")
    ws = ctx.writers("event_heap")
    bad = [(g, n, k) for g, n, k in ws if g.cls is not c]
    rep.put(not bad and len(ws) >= 3, "S2", "who_may_write", "SimulatorState.event_heap is touched only by SimulatorState", c, None, f"{len(ws)} sites",
            ", ".join(g.short for g, n, k in bad))
    # the attribute always holds a heap: a freshly built list is heapified (the very list that is stored)
    for m in c.methods.values():
        if m.name in ("__init__", "__setstate__"):
            continue            # the constructor takes over a heap this class produced earlier (state restore) or the empty list
        cm = cfg_of(m)
        for nd in cm.nodes:
            if not (nd.kind == "stmt" and isinstance(nd.ast, ast.Assign) and any(U(t) == "self.event_heap" for t in nd.ast.targets)):
                continue
            v = nd.ast.value
            if isinstance(v, (ast.List,)) and not v.elts:
                continue            # the empty list is a heap
            hp_attr = {x.id for x in cm.nodes for y in cm.node_walk(x.id)
                       if isinstance(y, ast.Call) and fn_name(y) == "heapify" and y.args and U(argn(y, 0)) == "self.event_heap"}
            after = bool(hp_attr) and cm.path([s_ for s_, l in cm.succ[nd.id]], cm.exit, deleted=hp_attr, skip_labels=("exc",)) is None
            before = False
            if isinstance(v, ast.Name):
                hp_name = {x.id for x in cm.nodes for y in cm.node_walk(x.id)
                           if isinstance(y, ast.Call) and fn_name(y) == "heapify" and y.args and U(argn(y, 0)) == v.id}
                before = bool(hp_name) and cm.path(cm.entry, nd.id, deleted=hp_name) is None
            rep.put(after or before, "S2", "must_follow", f"SimulatorState.{m.name}: a rebuilt event list is heapified before it is used as the heap", m, nd.ast,
                    "heapq.heapify applied to the list stored in self.event_heap",
                    f"`{U(nd.ast)[:70]}` stores a list that is not heapified (heapify is applied to another object, or not on every path): "
                    "heappop then returns events out of time order - a trial's results arrive out of order and with time stamps in the past")
    nx = c.methods["next_until"]
    from ..engine import deref, _RECORDS
    from .common import dom_guard, call_nodes

    def _is_top(e):
        """the heap's first entry, possibly wrapped as a record: self.event_heap[0] / Entry(*self.event_heap[0])"""
        e = deref(nx, e)
        if isinstance(e, ast.Call) and len(e.args) == 1 and isinstance(e.args[0], ast.Starred) and not e.keywords and fn_name(e) in _RECORDS:
            e = e.args[0].value
        return U(e) == "self.event_heap[0]"

    def _top_time(text):
        try:
            e = ast.parse(text, mode="eval").body
        except SyntaxError:
            return False
        if isinstance(e, ast.Name):
            ds = local_defs(nx, e.id)
            return len(ds) == 1 and isinstance(ds[0], tuple) and ds[0][0] == "unpack" and ds[0][2] == 0 and _is_top(ds[0][1])
        if isinstance(e, ast.Subscript) and U(e.slice) == "0":
            return _is_top(e.value)
        if isinstance(e, ast.Attribute):
            b_ = deref(nx, e.value)
            rec = _RECORDS.get(fn_name(b_)) if isinstance(b_, ast.Call) else None
            return rec is not None and rec[1] and rec[0][:1] == (e.attr,) and _is_top(e.value)
        return False
    pops = [n_ for n_, c_ in call_nodes(ctx, nx, lambda c_: fn_name(c_) == "heappop")]
    ok = bool(pops) and all(any(a[0] == "le" and a[2] == "time_until" and _top_time(a[1]) for a in dom_guard(ctx, nx, n_)) for n_ in pops)
    rep.put(ok, "S2", "guarded_by", "SimulatorState.next_until pops the heap top only if its time is due", nx, None, "")


def s3(ctx, rep):
    P = ctx.P
    f = P.method("_BlackboxSimulatorBackend", "_run_job_and_collect_results")
    cfg = cfg_of(f)
    attr = "_seed_for_trial"
    stores = [n for n in cfg.nodes if n.kind == "stmt" and isinstance(n.ast, ast.Assign) and isinstance(n.ast.targets[0], ast.Subscript)
              and U(n.ast.targets[0].value) == "self." + attr]
    if len(stores) != 1:
        raise AnchorError("_run_job_and_collect_results: store of the per-trial seed not found")
    st = stores[0]
    from .c01 import _dom_atoms
    # the seed variable: what the table is queried with
    q0 = [x for x in walk_shallow(f.node) if isinstance(x, ast.Call) and fn_name(x) == "config_objectives"]
    sv = U(kwarg(q0[0], "seed", 1)) if len(q0) == 1 and kwarg(q0[0], "seed", 1) is not None else U(st.ast.value)
    at = _dom_atoms(cfg, st.id)
    ds = [d for d in local_defs(f, sv) if not isinstance(d, tuple)]
    # stored only when none is stored yet: under `<seed fetched with .get> is None`, or under `trial_id not in <table>`
    ok = ("is", sv, "None", True) in at and U(st.ast.value) == sv
    from_get = any(isinstance(d, ast.Call) and fn_name(d) == "get" and attr in U(d.func.value) for d in ds)
    absent = any(a[0] == "in" and a[3] is False and a[2] == "self." + attr and a[1] == U(st.ast.targets[0].slice) for a in at) and \
        any(isinstance(d, ast.Subscript) and U(d.value) == "self." + attr and U(d.slice) == U(st.ast.targets[0].slice) for d in ds)
    ok, from_get = (ok and from_get) or absent, True
    rep.put(ok and from_get, "S3", "guarded_by", "_BlackboxSimulatorBackend: the per-trial seed is stored only when none is stored yet (is None)", f, st.ast,
            f"seed = self.{attr}.get(trial_id); stored under `seed is None`",
            "the stored per-trial seed can be replaced (the guard is not `<stored seed> is None`, e.g. a truthiness test that treats "
            "seed 0 as missing): different runs of one trial use different table seeds")
    # no bool-op / conditional-expression defaulting of the stored seed
    bad = [d for d in ds if isinstance(d, (ast.BoolOp, ast.IfExp)) and attr in U(d)]
    rep.put(not bad, "S3", "guarded_by", "_BlackboxSimulatorBackend: the stored seed is not defaulted by truthiness", f, bad[0] if bad else None, "",
            f"`{U(bad[0]) if bad else ''}` replaces a stored seed of 0")
    # the seed passed to the table query is that variable
    q = [x for x in walk_shallow(f.node) if isinstance(x, ast.Call) and fn_name(x) == "config_objectives"]
    ok = len(q) == 1 and U(kwarg(q[0], "seed", 1)) == sv
    rep.put(ok, "S3", "taint", "_BlackboxSimulatorBackend: the table is queried with exactly that seed", f, q[0] if q else None, "")
    # fixed backend seed wins: the variable is set from self._seed, and the per-trial lookup is reached only when no backend
    # seed is given - tested on self._seed itself, or on the variable right after it was loaded from self._seed
    fx = [n for n in cfg.nodes if n.kind == "stmt" and isinstance(n.ast, ast.Assign) and U(n.ast.targets[0]) == sv and U(n.ast.value) == "self._seed"]
    gets = [n for n in cfg.nodes if n.kind == "stmt" and isinstance(n.ast, ast.Assign) and U(n.ast.targets[0]) == sv and attr in U(n.ast.value)]
    ok = len(fx) == 1 and len(gets) >= 1
    if ok:
        afx = _dom_atoms(cfg, fx[0].id)
        taken = ("is", "self._seed", "None", False) in afx or not any(a[0] == "is" and "self._seed" in (a[1], a[2]) for a in afx)
        for g_ in gets:
            ag = _dom_atoms(cfg, g_.id)
            direct = ("is", "self._seed", "None", True) in ag
            via = ("is", sv, "None", True) in ag and not any(sv in a[1:3] or "self._seed" in a[1:3] for a in afx) and cfg.path([cfg.entry], g_.id, deleted={fx[0].id}) is None and \
                len([d for d in ds if U(d) not in ("None",)]) <= 3
            ok = ok and taken and (direct or via)
    rep.put(ok, "S3", "guarded_by", "_BlackboxSimulatorBackend: a fixed backend seed is used for every trial", f, None, "",
            "the per-trial seed lookup is not confined to `self._seed is None`: with a fixed backend seed the trials are served from other seeds")
    ws = [(g, n, k) for g, n, k in ctx.writers(attr) if g.name not in ("__init__", "__setstate__")]
    rep.put(len(ws) == 1, "S3", "who_may_write", f"{attr} has a single store site", f, None, f"{len(ws)}")


def s4(ctx, rep):
    P = ctx.P
    f = P.func("syne_tune.blackbox_repository.utils.metrics_for_configuration")
    from ..engine import deref
    from .common import returned_list_sites
    ov = var_from_call(f, "objective_function")
    fv = vars_assigned_from(f, lambda v: isinstance(v, ast.Attribute) and v.attr == "fidelity_values")
    if ov is None or len(fv) != 1:
        raise AnchorError("metrics_for_configuration: table query / fidelity values not found")
    # the elements of the returned list, whichever way it is built (append in a loop, or a comprehension)
    sites = returned_list_sites(ctx, f)
    ok = len(sites) == 1
    if ok:
        e = deref(f, sites[0][1])
        # a fresh dictionary: dict(zip(names, row)) or a display {**dict(zip(names, row)), ...}; never the row object itself
        fresh = (isinstance(e, ast.Call) and fn_name(e) == "dict") or isinstance(e, (ast.Dict, ast.DictComp))
        zs = [z for z in ast.walk(e) if isinstance(z, ast.Call) and fn_name(z) == "zip" and len(z.args) == 2]
        zs += [deref(f, y) for y in ast.walk(e) if isinstance(y, ast.Name) and isinstance(deref(f, y), ast.Call) and fn_name(deref(f, y)) == "zip"]
        ok = fresh and len(zs) == 1 and "objectives_names" in U(argn(zs[0], 0)) \
            and isinstance(deref(f, argn(zs[0], 1)), ast.Subscript) and U(deref(f, argn(zs[0], 1)).value) == ov
    rep.put(ok, "S4", "taint", "metrics_for_configuration: each level is a fresh dict(zip(names, table row))", f, None, "",
            "reported results are not fresh copies of the table row: later in-place corrections would alter the table")
    idx = None
    gens = [(x, x.target, x.iter, x) for x in walk_shallow(f.node) if isinstance(x, ast.For)] + \
           [(x, g_.target, g_.iter, x) for x in walk_shallow(f.node) if isinstance(x, (ast.ListComp, ast.GeneratorExp)) for g_ in x.generators]
    for x, tg, it, scope in gens:
        if isinstance(it, ast.Call) and fn_name(it) == "enumerate" and U(argn(it, 0)) == fv[0] and isinstance(tg, ast.Tuple) and len(tg.elts) == 2:
            idx = U(tg.elts[0])
            val = U(tg.elts[1])
            stamped = any(isinstance(s, ast.Assign) and U(s.targets[0]).endswith("[resource_attr]") and U(s.value) == val
                          for s in (stmts_in(x.body) if isinstance(x, ast.For) else [])) or \
                any(isinstance(d, ast.Dict) and any(k_ is not None and U(k_) == "resource_attr" and U(v_) == val for k_, v_ in zip(d.keys, d.values))
                    for d in ast.walk(scope))
            ok2 = f"{ov}[{idx}]" in U(scope) and stamped
            rep.put(ok2, "S4", "agreement", "metrics_for_configuration: row k of the table is reported with fidelity value k (same index)", f, x, "")
    if idx is None:
        raise AnchorError("metrics_for_configuration: loop over fidelities not found")
    # the table itself is written only by blackbox classes
    ws = ctx.writers("objectives_evaluations")
    bad = [(g, n, k) for g, n, k in ws if not (g.module.name.startswith("syne_tune.blackbox_repository") )]
    rep.put(not bad, "S4", "who_may_write", "objectives_evaluations is written only inside blackbox_repository", None, None, f"{len(ws)} sites",
            ", ".join(g.short for g, n, k in bad))
    # in-place edits in the backend touch only the elapsed-time entry of the fresh dicts
    g = P.method("_BlackboxSimulatorBackend", "_run_job_and_collect_results")
    stores = []
    for x in walk_shallow(g.node):
        if isinstance(x, (ast.Assign, ast.AugAssign)):
            for t in (x.targets if isinstance(x, ast.Assign) else [x.target]):
                root = t
                while isinstance(root, ast.Subscript):
                    root = root.value
                if isinstance(t, ast.Subscript) and isinstance(root, ast.Name) and root.id != "self":
                    stores.append((t, x))
    et = ["self.elapsed_time_attr"] + vars_assigned_from(g, lambda v: U(v) == "self.elapsed_time_attr")
    ok = bool(stores) and all(U(t.slice) in et for t, x in stores)
    rep.put(ok, "S4", "taint", "_BlackboxSimulatorBackend: in-place corrections touch only the elapsed-time entry", g, None,
            f"{len(stores)} in-place stores", "a metric value taken from the table is overwritten in place")


def s6(ctx, rep):
    P = ctx.P
    allowed = {"SimulatorCallback.on_tuning_sleep", "SimulatorBackend._advance_by_outside_time"}
    sites = ctx.all_calls_anywhere(method="advance", recv="SimulatedTimeKeeper", allow_name=False)
    sites += [(f, c) for f, c in ctx.all_calls_anywhere(method="advance", recv="TimeKeeper", allow_name=False) if (f, c) not in sites]
    # receivers the resolver cannot type: any `.advance(...)` on something called *time_keeper*
    for f in P.functions.values():
        for x in walk_shallow(f.node, include_lambda=True):
            if isinstance(x, ast.Call) and fn_name(x) == "advance" and isinstance(x.func, ast.Attribute) and "time_keeper" in U(x.func.value) \
                    and not any(x is c for _, c in sites):
                sites.append((f, x))
    seen = set()
    for f, call in sites:
        if id(call) in seen:
            continue
        seen.add(id(call))
        top = f
        while top.parent is not None:
            top = top.parent
        rep.put(top.short in allowed, "S6", "who_may_call", f"time_keeper.advance called from {top.short}", f, call, "",
                f"{top.short} advances the simulated clock: waiting time is charged in addition to the sleep callback / the backend's "
                "own accounting")
    b = P.cls("SimulatorBackend")
    for name in ("fetch_status_results", "_schedule", "_stop_or_pause_trial"):
        m = b.methods[name]
        cfg = cfg_of(m)
        adv = ctx.nodes(m, ctx.sel_call(selfcall="_advance_by_outside_time"), "may", 0)
        ex = ctx.nodes(m, ctx.sel_call(method="mark_exit"), "must", 0)
        once = len(adv) == 1 and next(iter(adv)) not in cfg.reachable([s for s, l in cfg.succ[next(iter(adv))]])
        first = once and cfg.path(cfg.entry, cfg.exit, deleted=adv, skip_labels=("exc",)) is None
        rep.put(first, "S6", "must_follow", f"SimulatorBackend.{name}: outside time is charged exactly once, on every path", m, None, "",
                "time spent outside the backend is charged twice, or not at all, on some path")
        p = cfg.path(cfg.entry, cfg.exit, deleted=ex, skip_labels=("exc",))
        rep.put(bool(ex) and p is None, "S6", "must_follow", f"SimulatorBackend.{name}: mark_exit on every normal exit", m, None, "",
                "an entry point can return without marking its exit: the time until the next call is measured from an older mark "
                "and charged again", witness=cfg.describe_path(p) if p else None)
        # the charge comes before events are processed
        pr = ctx.nodes(m, ctx.sel_call(selfcall="_process_events_until_now"), "may", 0)
        ok = bool(pr) and all(cfg.path(cfg.entry, x, deleted=adv) is None for x in pr)
        rep.put(ok, "S6", "must_precede", f"SimulatorBackend.{name}: outside time charged ≺ events processed", m, None, "")
    a = b.methods["_advance_by_outside_time"]
    from ..engine import deref
    adv = [x for x in walk_shallow(a.node) if isinstance(x, ast.Call) and fn_name(x) == "advance" and x.args]
    ok = len(adv) == 1 and U(deref(a, argn(adv[0], 0))) == "self._time_keeper.real_time_since_last_recent_exit()"
    rep.put(ok, "S6", "agreement", "SimulatorBackend._advance_by_outside_time charges the real time since the last exit mark", a, None, "")


def s2b(ctx, rep):
    """found thin by the generic mutation audit"""
    from .common import require_guard, eval3
    P = ctx.P
    c = P.cls("SimulatorState")
    m = c.methods["remove_events"]
    comps = [x for x in walk_shallow(m.node) if isinstance(x, ast.ListComp) and x.generators and x.generators[0].ifs]
    ok = len(comps) == 1
    if ok:
        cond = comps[0].generators[0].ifs[0]
        # the identifying comparison inside the filter
        cmpn = [y for y in ast.walk(cond) if isinstance(y, ast.Compare) and len(y.ops) == 1 and isinstance(y.ops[0], (ast.Eq, ast.NotEq))
                and "trial_id" in U(y)]
        ok = len(cmpn) == 1
        if ok:
            k = frozenset({U(cmpn[0].left), U(cmpn[0].comparators[0])})
            ok = eval3(cond, {k: True}) is False and eval3(cond, {k: False}) is True
    rep.put(ok, "S2", "keepfilter_polarity", "SimulatorState.remove_events keeps exactly the events of the other trials", m, comps[0] if comps else None, "",
            "the filter keeps the events of the trial to be removed and drops everybody else's: a stopped trial goes on reporting, running ones fall silent")
    g = P.method("_BlackboxSimulatorBackend", "_run_job_and_collect_results")
    cg = cfg_of(g)
    # the places where only some of the table's levels enter the returned list (an append under a condition in the scan, or a
    # filtering comprehension)
    from .common import returned_list_sites
    filt = [s_ for s_ in returned_list_sites(ctx, g, index=1) if any(a[0] in ("lt", "le") for a in s_[2])]
    if not filt:
        raise AnchorError("_BlackboxSimulatorBackend._run_job_and_collect_results: no place where levels are kept under a condition")
    for x, elt, at, its in filt:
        ok = any(a[0] == "is" and a[2] == "None" and a[3] is False for a in at) and \
            any(a[0] == "truth" and a[1] == "self._support_checkpointing" and a[2] is True for a in at)
        rep.put(ok, "S5", "guarded_by", "_BlackboxSimulatorBackend._run_job_and_collect_results: levels are skipped | the trial was paused and checkpointing is supported",
                g, x, "paused level is not None and self._support_checkpointing",
                "a script without checkpointing restarts from scratch after a resume, but its early levels are dropped (or a checkpointed one repeats them)")
    h = P.func("syne_tune.blackbox_repository.utils.metrics_for_configuration")
    ch = cfg_of(h)
    from .common import returned_list_sites
    sites = returned_list_sites(ctx, h)
    if not sites:
        raise AnchorError("metrics_for_configuration: no place where a level enters the returned list")
    for x, elt, at, its in sites:
        ok = any(a[0] == "le" and a[1].endswith("[0]") for a in at) and any(a[0] == "le" and a[2].endswith("[1]") for a in at)
        rep.put(ok, "S4", "guarded_by", "metrics_for_configuration: a level is reported | its fidelity value lies in the requested range (both ends inclusive)",
                h, x, "range[0] <= value <= range[1]", "levels outside the requested fidelity range are replayed (or those inside are dropped)")


def s5b(ctx, rep):
    """the monotonicity repair compares each level with its predecessor IN THE LIST THAT IS RETURNED (after a resume that
    list is the rebased tail, not the full table row list)"""
    P = ctx.P
    g = P.method("_BlackboxSimulatorBackend", "_run_job_and_collect_results")
    rets = [r.value.elts[1].id for r in returns_of(g) if isinstance(r.value, ast.Tuple) and len(r.value.elts) == 2 and isinstance(r.value.elts[1], ast.Name)]
    if not rets:
        raise AnchorError("_run_job_and_collect_results: returned result list not identified")
    rv = rets[0]
    n = 0
    for x in walk_shallow(g.node):
        if isinstance(x, ast.Assign) and isinstance(x.targets[0], ast.Subscript):
            root = x.targets[0]
            while isinstance(root, ast.Subscript):
                root = root.value
            if not (isinstance(root, ast.Name) and root.id == rv):
                continue
            for y in ast.walk(x.value):
                if isinstance(y, ast.Subscript) and isinstance(y.slice, ast.BinOp) and isinstance(y.slice.op, ast.Sub) and U(y.slice.right) == "1":
                    n += 1
                    ok = isinstance(y.value, ast.Name) and y.value.id == rv
                    rep.put(ok, "S5", "agreement", "_BlackboxSimulatorBackend: the repair of elapsed times reads the predecessor from the returned list", g, y,
                            U(x)[:80], f"`{U(y)}` is the predecessor in another list than `{rv}`: after a resume the time stamps are repaired "
                            "against the skipped levels' raw times - resumed results are stamped too late and arrive out of order")
    # the same repair written over pairs: for previous, current in zip(L, L[1:]): current[k] = max(current[k], previous[k] + eps)
    for lp in walk_shallow(g.node):
        if isinstance(lp, ast.For) and isinstance(lp.iter, ast.Call) and fn_name(lp.iter) == "zip" and len(lp.iter.args) == 2 \
                and isinstance(lp.target, ast.Tuple) and len(lp.target.elts) == 2 and all(isinstance(e, ast.Name) for e in lp.target.elts):
            a_, b_ = lp.iter.args
            if isinstance(b_, ast.Subscript) and isinstance(b_.slice, ast.Slice) and b_.slice.lower is not None and U(b_.slice.lower) == "1" \
                    and b_.slice.upper is None:
                prev, cur = lp.target.elts[0].id, lp.target.elts[1].id
                repairs = [s for s in stmts_in(lp.body) if isinstance(s, ast.Assign) and isinstance(s.targets[0], ast.Subscript)
                           and U(s.targets[0].value) == cur and isinstance(s.value, ast.Call) and fn_name(s.value) == "max"
                           and any(isinstance(y, ast.Name) and y.id == prev for y in ast.walk(s.value))]
                for s in repairs:
                    n += 1
                    ok = U(a_) == rv and U(b_.value) == rv
                    rep.put(ok, "S5", "agreement", "_BlackboxSimulatorBackend: the repair of elapsed times reads the predecessor from the returned list", g, s,
                            U(s)[:80], f"the pairs come from `{U(lp.iter)}`, not from consecutive elements of `{rv}`: after a resume the time stamps are "
                            "repaired against the skipped levels' raw times - resumed results are stamped too late and arrive out of order")
    # ... or with the predecessor carried along: previous = L[0]; for current in L[1:]: current[k] = max(current[k], previous[k] + eps); previous = current
    for lp in walk_shallow(g.node):
        if isinstance(lp, ast.For) and isinstance(lp.target, ast.Name) and isinstance(lp.iter, ast.Subscript) and isinstance(lp.iter.slice, ast.Slice) \
                and lp.iter.slice.lower is not None and U(lp.iter.slice.lower) == "1" and lp.iter.slice.upper is None:
            cur = lp.target.id
            for s in stmts_in(lp.body):
                if isinstance(s, ast.Assign) and isinstance(s.targets[0], ast.Subscript) and U(s.targets[0].value) == cur \
                        and isinstance(s.value, ast.Call) and fn_name(s.value) == "max":
                    others = {y.id for y in ast.walk(s.value) if isinstance(y, ast.Name) and y.id != cur} - {y.id for y in ast.walk(s.targets[0].slice) if isinstance(y, ast.Name)}
                    carried = [p_ for p_ in sorted(others)
                               if any(isinstance(d, ast.Name) and d.id == cur for d in local_defs(g, p_))]
                    for p_ in carried:
                        n += 1
                        firsts = [d for d in local_defs(g, p_) if not (isinstance(d, ast.Name) and d.id == cur)]
                        ok = U(lp.iter.value) == rv and len(firsts) == 1 and isinstance(firsts[0], ast.Subscript) and U(firsts[0].value) == rv \
                            and U(firsts[0].slice) == "0"
                        rep.put(ok, "S5", "agreement", "_BlackboxSimulatorBackend: the repair of elapsed times reads the predecessor from the returned list", g, s,
                                U(s)[:80], f"the carried predecessor `{p_}` does not run over `{rv}`: after a resume the time stamps are repaired against the "
                                "skipped levels' raw times - resumed results are stamped too late and arrive out of order")
    if n < 1:
        raise AnchorError("_run_job_and_collect_results: monotonicity repair `results[i] = max(results[i], results[i - 1] + eps)` not found")
    # the stages in order: a resumed run's times are rebased (the offset of the skipped levels taken off) BEFORE the repair makes them
    # increase by at least eps - the repair works on the times that are delivered
    from .common import out_of_order
    is_rebase = lambda nd, cfg_: nd.kind == "stmt" and ((isinstance(nd.ast, ast.AugAssign) and isinstance(nd.ast.op, ast.Sub) and "elapsed_time_attr" in U(nd.ast.target)) or
                                                        (isinstance(nd.ast, ast.Assign) and isinstance(nd.ast.value, ast.BinOp) and isinstance(nd.ast.value.op, ast.Sub)
                                                         and "elapsed_time_attr" in U(nd.ast.targets[0]) and U(nd.ast.value.left) == U(nd.ast.targets[0])))
    is_repair = lambda nd, cfg_: nd.kind == "stmt" and isinstance(nd.ast, ast.Assign) and isinstance(nd.ast.value, ast.Call) and fn_name(nd.ast.value) == "max" \
        and isinstance(nd.ast.targets[0], ast.Subscript) and any(isinstance(y, ast.BinOp) and isinstance(y.op, ast.Add) for y in ast.walk(nd.ast.value))
    bad, firsts, thens = out_of_order(ctx, g, is_rebase, is_repair, within_iteration=False)
    if firsts and thens:
        cg_ = cfg_of(g)
        rep.put(not bad, "S5", "must_precede", "_BlackboxSimulatorBackend: elapsed times are rebased to the resume point before the monotonicity repair", g,
                cg_.nodes[bad[0][0]].ast if bad else None, "", "the repair runs on the table's cumulative times and the offset is taken off afterwards: a resumed "
                "run whose first kept level has a smaller cumulative time than the paused one gets a negative elapsed time - its results are stamped before its own start")


def _ancestors(x):
    p_ = getattr(x, "_parent", None)
    while p_ is not None:
        yield p_
        p_ = getattr(p_, "_parent", None)


def s7(ctx, rep):
    """a trial completes after its LAST result: the completion time derives from a running maximum over all result times"""
    from .common import broken_accumulators
    from ..engine import flows_into
    P = ctx.P
    f = P.method("SimulatorBackend", "_process_start_event")
    push = [x for x in walk_shallow(f.node) if isinstance(x, ast.Call) and fn_name(x) == "push" and x.args
            and any(isinstance(y, ast.Call) and fn_name(y) == "CompleteEvent" for y in ast.walk(x)) or
            (isinstance(x, ast.Call) and fn_name(x) == "push" and x.args and flows_into(f, argn(x, 0), lambda y: isinstance(y, ast.Call) and fn_name(y) == "CompleteEvent"))]
    if len(push) != 1:
        raise AnchorError("_process_start_event: push(CompleteEvent) not found")
    et = kwarg(push[0], "event_time", 1)
    acc = [st for lp in walk_shallow(f.node) if isinstance(lp, ast.For) for st in walk_shallow(ast.Module(body=lp.body, type_ignores=[]))
           if isinstance(st, ast.Assign) and isinstance(st.value, ast.Call) and fn_name(st.value) == "max" and isinstance(st.targets[0], ast.Name)
           and any(isinstance(y, ast.Name) and y.id == st.targets[0].id for a in st.value.args for y in ast.walk(a))]
    ok = et is not None and len(acc) >= 1 and any(flows_into(f, et, lambda y, v=a_.targets[0].id: isinstance(y, ast.Name) and y.id == v) for a_ in acc)
    if et is not None and not ok:
        # equally good: the maximum of a collection of all result times, taken after the loop
        def max_of_collection(y):
            return isinstance(y, ast.Call) and fn_name(y) == "max" and len(y.args) == 1 and not any(
                isinstance(p_, (ast.For, ast.While)) for p_ in _ancestors(y))
        ok = flows_into(f, et, max_of_collection)
    bad = broken_accumulators(ctx, f)
    rep.put(ok and not bad, "S6", "agreement", "SimulatorBackend._process_start_event: completion time = running maximum of all result times (+ delay)", f,
            bad[0][0] if bad else push[0], "v = max(v, t) inside the loop over results; CompleteEvent pushed at v + delay",
            (f"`{bad[0][1]}` does not include its own previous value: " if bad else "") + "the completion is scheduled after the last-LISTED result, "
            "not the latest one - a trial whose final report has a smaller elapsed time than an earlier one completes early and the later-stamped "
            "result is never delivered")


def s8(ctx, rep):
    """every result of a job becomes one result event, stamped start + elapsed + delay, for the job's trial; the completion
    event carries the job's status; the result is stamped with the time of its event when it is processed"""
    from ..engine import flows_into, deref
    P = ctx.P
    f = P.method("SimulatorBackend", "_process_start_event")
    cfg = cfg_of(f)
    tid, tev = f.params[1], f.params[2]
    job = [x for x in walk_shallow(f.node) if isinstance(x, ast.Assign) and isinstance(x.value, ast.Call) and fn_name(x.value) == "_run_job_and_collect_results"
           and isinstance(x.targets[0], ast.Tuple) and len(x.targets[0].elts) == 2]
    if len(job) != 1:
        raise AnchorError("_process_start_event: `status, results = self._run_job_and_collect_results(...)` not found")
    stv, resv = U(job[0].targets[0].elts[0]), U(job[0].targets[0].elts[1])
    loops = [n for n in cfg.nodes if n.kind == "for" and any(isinstance(y, ast.Name) and y.id == resv for y in ast.walk(n.ast.iter))]
    if len(loops) != 1:
        raise AnchorError("_process_start_event: loop over the job's results not found")
    lp = loops[0]
    tg = lp.ast.target
    item = U(tg.elts[-1]) if isinstance(tg, ast.Tuple) else U(tg)
    whole = isinstance(lp.ast.iter, ast.Name) or (isinstance(lp.ast.iter, ast.Call) and fn_name(lp.ast.iter) == "enumerate" and U(argn(lp.ast.iter, 0)) == resv)
    rep.put(whole, "S6", "agreement", "SimulatorBackend._process_start_event: the loop runs over all results of the job", f, lp.ast, "",
            f"the loop iterates `{U(lp.ast.iter)}`, not the whole result list: reports of the job are never delivered")
    pushes = []
    for n in cfg.nodes:
        for x in cfg.node_walk(n.id):
            if isinstance(x, ast.Call) and fn_name(x) == "push" and argn(x, 0) is not None:
                ev = deref(f, argn(x, 0))
                if isinstance(ev, ast.Call) and fn_name(ev) == "OnTrialResultEvent":
                    pushes.append((n.id, x, ev))
    ok = len(pushes) == 1
    if ok:
        nid, px, ev = pushes[0]
        starts = [s_ for s_, l in cfg.succ[lp.id] if l == "iter"]
        # every iteration passes the push
        ok = cfg.path(starts, lp.id, deleted={nid}, skip_labels=("exc",)) is None
        rep.put(ok, "S6", "must_follow", "SimulatorBackend._process_start_event: every result of the job is pushed as a result event", f, px, "",
                "an iteration can end without scheduling its result: the report never arrives (levels are no longer consecutive)")
        okev = kwarg(ev, "trial_id", 0) is not None and U(kwarg(ev, "trial_id", 0)) == tid and kwarg(ev, "result", 1) is not None and U(deref(f, kwarg(ev, "result", 1))) == item
        rep.put(okev, "S6", "agreement", "SimulatorBackend._process_start_event: the result event carries this trial's id and this iteration's result", f, ev, "",
                "the event delivers another result (or delivers it to another trial) than the one whose elapsed time stamps it")
        et = kwarg(px, "event_time", 1)
        parts = {"start": lambda y: isinstance(y, ast.Name) and y.id == tev,
                 "elapsed": lambda y: isinstance(y, ast.Call) and fn_name(y) == "get" and U(y.func.value) == item and "elapsed_time_attr" in U(y)
                 or (isinstance(y, ast.Subscript) and U(y.value) == item and "elapsed_time_attr" in U(y.slice)),
                 "delay": lambda y: isinstance(y, ast.Attribute) and y.attr == "delay_on_trial_result"}
        miss = [k for k, pr in parts.items() if et is None or not flows_into(f, et, pr)]
        # a sum: the stamp is built with + only
        e_ = deref(f, et) if et is not None else None
        plus_only = e_ is not None and all(isinstance(b.op, ast.Add) for b in ast.walk(e_) if isinstance(b, ast.BinOp))
        rep.put(not miss and plus_only, "S6", "agreement", "SimulatorBackend._process_start_event: result time = start of the run + elapsed time + result delay", f, px, "",
                f"the time stamp of the result event lacks {miss or 'a plain sum'}: results arrive at another simulated time than the table says")
    else:
        raise AnchorError("_process_start_event: push(OnTrialResultEvent(...)) not found exactly once")
    cpush = [deref(f, argn(x, 0)) for x in walk_shallow(f.node) if isinstance(x, ast.Call) and fn_name(x) == "push" and argn(x, 0) is not None]
    cev = [e for e in cpush if isinstance(e, ast.Call) and fn_name(e) == "CompleteEvent"]
    okc = len(cev) == 1 and kwarg(cev[0], "status", 1) is not None and U(kwarg(cev[0], "status", 1)) == stv and U(kwarg(cev[0], "trial_id", 0)) == tid
    rep.put(okc, "S6", "agreement", "SimulatorBackend._process_start_event: the completion event carries the job's status for this trial", f, cev[0] if cev else None, "",
            "the run ends with another status than the job returned (a failed job completes, or vice versa)")
    g = P.method("SimulatorBackend", "_process_on_trial_result_event")
    cg = cfg_of(g)
    # the parameter that carries the event's time: the one the dispatcher passes the popped time to (by keyword or position)
    tvs = [p_ for p_ in g.params if p_ != "self" and "time" in p_]
    if len(tvs) != 1:
        raise AnchorError("_process_on_trial_result_event: the parameter carrying the event time is not identified")
    tv = tvs[0]
    stamp = {n.id for n in cg.nodes if n.kind == "stmt" and isinstance(n.ast, ast.Assign) and any(
        isinstance(t, ast.Subscript) and U(t.slice) == "ST_TUNER_TIME" for t in n.ast.targets) and U(n.ast.value) == tv}
    oks = bool(stamp) and cg.path([cg.entry], cg.exit, deleted=stamp, skip_labels=("exc",)) is None
    rep.put(oks, "S6", "must_follow", "SimulatorBackend._process_on_trial_result_event: the result is stamped with the time of its event", g, None, "",
            "a delivered result carries no (or another) simulated time stamp than the time its event was due")


DELAY_ROLES = {
    # option of SimulatorConfig: (the one method of SimulatorBackend that reads it, the event whose time it goes into)
    "delay_on_trial_result": ("_process_start_event", "OnTrialResultEvent"),
    "delay_complete_after_final_report": ("_process_start_event", "CompleteEvent"),
    "delay_complete_after_stop": ("_stop_or_pause_trial", "CompleteEvent"),
    "delay_start": ("_schedule", "StartEvent"),
    "delay_stop": ("_stop_or_pause_trial", "StopEvent"),
}


def delay_roles(ctx, rep, clause="S6"):
    """each configured delay is charged to the event its name says, and to no other: the option is read in one method only, and
    the time of the event pushed there for that kind of event depends on it"""
    from ..engine import flows_into, deref
    P = ctx.P
    c = P.cls("SimulatorBackend")
    cfgcls = P.cls("SimulatorConfig")
    declared = {x.target.id for x in cfgcls.node.body if isinstance(x, ast.AnnAssign) and isinstance(x.target, ast.Name) and x.target.id.startswith("delay_")}
    if declared != set(DELAY_ROLES):
        raise AnchorError(f"SimulatorConfig declares the delays {sorted(declared)}, the role table knows {sorted(DELAY_ROLES)}")
    for opt, (meth, event) in sorted(DELAY_ROLES.items()):
        readers = sorted({m.name for m in c.methods.values() for x in walk_shallow(m.node, include_lambda=True)
                          if isinstance(x, ast.Attribute) and x.attr == opt and isinstance(x.ctx, ast.Load)})
        m = c.methods[meth]
        ok = readers == [meth]
        pushes = []
        for x in walk_shallow(m.node):
            if isinstance(x, ast.Call) and fn_name(x) == "push" and argn(x, 0) is not None:
                ev = deref(m, argn(x, 0))
                if isinstance(ev, ast.Call) and fn_name(ev) == event:
                    pushes.append(x)
        et = kwarg(pushes[0], "event_time", 1) if len(pushes) == 1 else None
        others = [o for o in DELAY_ROLES if o != opt]
        ok = ok and et is not None and bool(flows_into(m, et, lambda y, o=opt: isinstance(y, ast.Attribute) and y.attr == o)) and \
            not any(flows_into(m, et, lambda y, o=o_: isinstance(y, ast.Attribute) and y.attr == o) for o_ in others if DELAY_ROLES[o_] != (meth, event))
        rep.put(ok, clause, "agreement", f"SimulatorConfig.{opt} is charged to the {event} pushed by SimulatorBackend.{meth}, and only there", m,
                pushes[0] if pushes else None, f"read in {readers}", f"`{opt}` is read in {readers or 'no method'} / the time of the {event} pushed by {meth} does not "
                f"depend on it (or depends on another delay): with non-default delays a completion can overtake the trial's last results, or events fire at times the configuration does not say")


def setstate_forwards(ctx, rep, clause="S3"):
    """an un-pickled tabular backend is configured like the pickled one: every constructor argument of the simulator backend that
    __getstate__ saves under its own name is handed back to the base constructor by __setstate__, from the state"""
    from ..engine import dict_items, deref
    P = ctx.P
    c = P.cls("BlackboxRepositoryBackend")
    gs, ss = c.methods.get("__getstate__"), c.methods.get("__setstate__")
    if gs is None or ss is None:
        raise AnchorError("BlackboxRepositoryBackend.__getstate__ / __setstate__ not found")
    base = P.lookup_method(c, "__init__", after=c)
    bparams = [p for p in base.params if p != "self"]
    saved = set()
    for x in walk_shallow(gs.node):
        if isinstance(x, ast.Dict):
            saved |= {k.value for k in x.keys if isinstance(k, ast.Constant) and isinstance(k.value, str)}
    sup = [x for x in walk_shallow(ss.node) if isinstance(x, ast.Call) and fn_name(x) == "__init__" and isinstance(x.func, ast.Attribute)
           and isinstance(x.func.value, ast.Call) and fn_name(x.func.value) == "super"]
    if len(sup) != 1:
        raise AnchorError("BlackboxRepositoryBackend.__setstate__: call of the base constructor not found")
    sv = ss.params[1]
    n = 0
    for p_ in bparams:
        if p_ not in saved:
            continue
        n += 1
        v = kwarg(sup[0], p_)
        if base.node.args.kwarg is not None and p_ == base.node.args.kwarg.arg:
            stars = [k_.value for k_ in sup[0].keywords if k_.arg is None]
            v = stars[0] if len(stars) == 1 else None
        ok = v is not None and isinstance(deref(ss, v), ast.Subscript) and U(deref(ss, v).value) == sv and U(deref(ss, v).slice) in (repr(p_), f'"{p_}"')
        rep.put(ok, clause, "agreement", f"BlackboxRepositoryBackend.__setstate__ hands the saved `{p_}` back to the base constructor", ss, sup[0], "",
                f"`{p_}` is saved by __getstate__ but the base constructor is not given state['{p_}'] for it: after a save / load round trip the backend "
                "runs with the default (another seed, checkpointing switched on, another resource attribute) - the restored experiment replays other table rows")
    if n < 3:
        raise AnchorError("BlackboxRepositoryBackend: fewer than three saved constructor arguments recognised")


def run(ctx, rep, tier="quick"):
    s1(ctx, rep)
    s2(ctx, rep)
    s3(ctx, rep)
    s4(ctx, rep)
    # S5 shared with C02-S7
    sub = type(rep)(rep.prop)
    c02.s7(ctx, sub)
    for i in sub.items:
        i.clause = "S5"
        rep.items.append(i)
    # a result never outlives the run that reported it (shared with C02-S5: the simulator's mailbox is drained on every poll) -
    # otherwise a row stamped before the pause is delivered after the resume and a level comes twice
    sub2 = type(rep)(rep.prop)
    c02.s5(ctx, sub2)
    for i in sub2.items:
        if "drained on every exit" in i.construct or "paired with cursor advance" in i.construct:
            i.clause = "S5"
            rep.items.append(i)
    s6(ctx, rep)
    s2b(ctx, rep)
    s5b(ctx, rep)
    s7(ctx, rep)
    s8(ctx, rep)
    delay_roles(ctx, rep)
    setstate_forwards(ctx, rep)
    c02.event_dispatch(ctx, rep, "S6")
